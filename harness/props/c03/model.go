// Package c03: equality is a coherent equivalence that agrees with hashing and sets.
//
// model.go holds the checker's own reference semantics, written from the
// documentation (doc comments of Value.Equals / RawEquals / rawNumberEqual,
// CHANGELOG 1.10.0, docs/types.md) over value *specifications* (package
// spec), never over the library's own equality or hashing code.
package c03

import (
	"fmt"
	"math/big"
	"sort"
	"strings"

	"github.com/zclconf/go-cty/cty"

	"verif/harness/facet"
	"verif/harness/model"
	"verif/harness/spec"
)

// numKey is the documented equality key of a number: whole numbers are
// identified by their value (negative zero is zero), every other finite
// number by the shortest decimal text that identifies it at its precision
// (the text cty's JSON encoder would write), infinities by their sign.
func numKey(f *big.Float) string {
	switch {
	case f.IsInf():
		if f.Sign() < 0 {
			return "-Inf"
		}
		return "+Inf"
	case f.Sign() == 0:
		return "i:0"
	case f.IsInt():
		return "i:" + f.Text('f', 0)
	default:
		return "t:" + f.Text('f', -1)
	}
}

// numText is the shortest decimal text of a number (JSON form), -0 -> 0.
func numText(f *big.Float) string {
	if f.IsInf() {
		if f.Sign() < 0 {
			return "-Inf"
		}
		return "+Inf"
	}
	s := f.Text('f', -1)
	if s == "-0" {
		s = "0"
	}
	return s
}

func isIntegral(f *big.Float) bool { return !f.IsInf() && f.IsInt() }

// eqSpec is the reference equality of two wholly-known, unmarked value specs
// whose cty types are equal (the caller establishes that). Nulls are equal
// only to nulls.
func eqSpec(a, b spec.V) bool {
	if a.St == spec.Null || b.St == spec.Null {
		return a.St == spec.Null && b.St == spec.Null
	}
	if a.T.K != b.T.K {
		return false
	}
	switch a.T.K {
	case spec.KBool:
		return a.B == b.B
	case spec.KNumber:
		return numKey(a.N.Float()) == numKey(b.N.Float())
	case spec.KString:
		return spec.NFC(a.S) == spec.NFC(b.S)
	case spec.KList, spec.KTuple:
		if len(a.Elems) != len(b.Elems) {
			return false
		}
		for i := range a.Elems {
			if !eqSpec(a.Elems[i], b.Elems[i]) {
				return false
			}
		}
		return true
	case spec.KMap, spec.KObject:
		if len(a.Elems) != len(b.Elems) {
			return false
		}
		for i, k := range a.Keys {
			j := keyIndex(b.Keys, k)
			if j < 0 || !eqSpec(a.Elems[i], b.Elems[j]) {
				return false
			}
		}
		return true
	case spec.KSet:
		for _, x := range a.Elems {
			if !inSpecs(x, b.Elems) {
				return false
			}
		}
		for _, y := range b.Elems {
			if !inSpecs(y, a.Elems) {
				return false
			}
		}
		return true
	case spec.KCapsule:
		if a.T.Cap != b.T.Cap {
			return false
		}
		// pool of 8 payload pointers; payload i holds N = i%4. Capsule A
		// compares by pointer identity, capsule B by its RawEquals op (N).
		if a.T.Cap == "B" {
			return (a.Cap%8)%4 == (b.Cap%8)%4
		}
		return a.Cap%8 == b.Cap%8
	}
	panic("eqSpec: bad kind " + a.T.K)
}

func keyIndex(keys []string, k string) int {
	nk := spec.NFC(k)
	for i, x := range keys {
		if spec.NFC(x) == nk {
			return i
		}
	}
	return -1
}

func inSpecs(x spec.V, ys []spec.V) bool {
	for _, y := range ys {
		if eqSpec(x, y) {
			return true
		}
	}
	return false
}

// classes assigns to every spec of a same-typed pool the index of the first
// pool member it is equal to. Specs that are not wholly known are never equal
// to anything (not even to themselves): they get class -(i+1).
func classes(pool []spec.V) []int {
	out := make([]int, len(pool))
	for i := range pool {
		if !pool[i].WhollyKnown() {
			out[i] = -(i + 1)
			continue
		}
		out[i] = i
		for j := 0; j < i; j++ {
			if out[j] == j && eqSpec(pool[j], pool[i]) {
				out[i] = j
				break
			}
		}
	}
	return out
}

// hasKind reports whether a type kind occurs in the type spec.
func hasKind(t spec.T, k string) bool {
	if t.K == k {
		return true
	}
	if t.E != nil && hasKind(*t.E, k) {
		return true
	}
	for _, e := range t.Elems {
		if hasKind(e, k) {
			return true
		}
	}
	for _, a := range t.Attrs {
		if hasKind(a.T, k) {
			return true
		}
	}
	return false
}

// valueHasKind reports whether the value spec (its type or any nested member
// type) involves the kind.
func valueHasKind(v spec.V, k string) bool {
	if hasKind(v.T, k) {
		return true
	}
	for _, e := range v.Elems {
		if valueHasKind(e, k) {
			return true
		}
	}
	return false
}

// allNums collects every number spec occurring in known positions of v.
func allNums(v spec.V, out *[]spec.Num) {
	if v.St == spec.Known && v.T.K == spec.KNumber && v.N != nil {
		*out = append(*out, *v.N)
	}
	for _, e := range v.Elems {
		allNums(e, out)
	}
}

// numberFacts reports, about the numbers of an input: pair = two of them are
// equal by the documented key while numerically different (Cmp != 0);
// between = some further number lies strictly between two such numbers;
// identicalNotEqual = two of them are numerically identical (Cmp == 0) but not
// equal by the documented key (one value at two precisions).
func numberFacts(nums []spec.Num) (pair, between, identicalNotEqual bool) {
	fs := make([]*big.Float, len(nums))
	ks := make([]string, len(nums))
	for i, n := range nums {
		fs[i] = n.Float()
		ks[i] = numKey(fs[i])
	}
	for i := range nums {
		for j := range nums {
			if i == j {
				continue
			}
			if ks[i] != ks[j] && fs[i].Cmp(fs[j]) == 0 {
				identicalNotEqual = true
			}
			if ks[i] != ks[j] || fs[i].Cmp(fs[j]) >= 0 {
				continue
			}
			pair = true
			for k := range nums {
				if ks[k] != ks[i] && fs[i].Cmp(fs[k]) < 0 && fs[k].Cmp(fs[j]) < 0 {
					between = true
				}
			}
		}
	}
	return
}

func withNumberFacts(f *facet.Failure, specs ...spec.V) *facet.Failure {
	var nums []spec.Num
	for _, s := range specs {
		allNums(s, &nums)
	}
	pair, between, ine := numberFacts(nums)
	return f.With("equal-not-identical", fmt.Sprint(pair)).With("between", fmt.Sprint(between)).With("identical-not-equal", fmt.Sprint(ine))
}

// ---------------------------------------------------------------- observed values

// fp identifies a value exactly (type, payload incl. number precision,
// refinements, marks) through the tag-guarded hook. It is used only to find
// which of the values the checker handed to the library came back.
func fp(v cty.Value) string { return cty.VerifFingerprint(v) }

// keyed returns, for a pool of built values, the model key of pool member i:
// its class for wholly-known members and a per-fingerprint key for the others.
type poolModel struct {
	specs []spec.V
	vals  []cty.Value
	fps   []string
	cls   []int
}

func newPoolModel(specs []spec.V) (*poolModel, error) {
	pm := &poolModel{specs: specs, cls: classes(specs)}
	for _, s := range specs {
		v, err := spec.Build(s)
		if err != nil {
			return nil, err
		}
		pm.vals = append(pm.vals, v)
		pm.fps = append(pm.fps, fp(v))
	}
	return pm, nil
}

// keyOfIndex is the model identity of pool member i inside a set.
func (pm *poolModel) keyOfIndex(i int) string {
	if pm.cls[i] >= 0 {
		return fmt.Sprintf("c%d", pm.cls[i])
	}
	return "u:" + pm.fps[i]
}

// keyOfValue maps a value returned by the library back to the model identity
// of the pool member it is (by exact fingerprint); ok=false for a value that
// is none of the pool members.
func (pm *poolModel) keyOfValue(v cty.Value) (string, bool) {
	f := fp(v)
	for i, x := range pm.fps {
		if x == f {
			return pm.keyOfIndex(i), true
		}
	}
	return "", false
}

func (pm *poolModel) unknownish(i int) bool { return pm.cls[i] < 0 }

// multiset helpers over model keys
func countKeys(keys []string) map[string]int {
	m := map[string]int{}
	for _, k := range keys {
		m[k]++
	}
	return m
}

func sameCounts(a, b map[string]int) bool {
	if len(a) != len(b) {
		return false
	}
	for k, n := range a {
		if b[k] != n {
			return false
		}
	}
	return true
}

func showCounts(m map[string]int) string {
	ks := make([]string, 0, len(m))
	for k, n := range m {
		ks = append(ks, fmt.Sprintf("%s x%d", k, n))
	}
	sort.Strings(ks)
	return "{" + strings.Join(ks, ", ") + "}"
}

// members returns the members of a known set/list/tuple value in iteration order.
func members(v cty.Value) []cty.Value {
	var out []cty.Value
	for it := v.ElementIterator(); it.Next(); {
		_, e := it.Element()
		out = append(out, e)
	}
	return out
}

// ---------------------------------------------------------------- set-order diagnosis

// eqModOrder is RawEquals except that set values are compared as sets
// (mutual inclusion) instead of position by position.
func eqModOrder(a, b cty.Value) bool {
	if !a.Type().Equals(b.Type()) {
		return false
	}
	if a.IsMarked() || b.IsMarked() {
		return a.RawEquals(b)
	}
	if !a.IsKnown() || !b.IsKnown() || a.IsNull() || b.IsNull() {
		return a.RawEquals(b)
	}
	ty := a.Type()
	switch {
	case ty.IsSetType():
		am, bm := members(a), members(b)
		if len(am) != len(bm) {
			return false
		}
		for _, x := range am {
			if !inModOrder(x, bm) {
				return false
			}
		}
		for _, y := range bm {
			if !inModOrder(y, am) {
				return false
			}
		}
		return true
	case ty.IsListType() || ty.IsTupleType():
		am, bm := members(a), members(b)
		if len(am) != len(bm) {
			return false
		}
		for i := range am {
			if !eqModOrder(am[i], bm[i]) {
				return false
			}
		}
		return true
	case ty.IsMapType() || ty.IsObjectType():
		ak, av := keyedMembers(a)
		bk, bv := keyedMembers(b)
		if len(ak) != len(bk) {
			return false
		}
		for i := range ak {
			if ak[i] != bk[i] || !eqModOrder(av[i], bv[i]) {
				return false
			}
		}
		return true
	}
	return a.RawEquals(b)
}

func keyedMembers(v cty.Value) (keys []string, vals []cty.Value) {
	for it := v.ElementIterator(); it.Next(); {
		k, e := it.Element()
		keys = append(keys, k.AsString())
		vals = append(vals, e)
	}
	return
}

func inModOrder(x cty.Value, ys []cty.Value) bool {
	for _, y := range ys {
		if eqModOrder(x, y) {
			return true
		}
	}
	return false
}

// orderDiag describes how two values that are equal up to the order of set
// members differ in that order.
type orderDiag struct {
	differs     bool // some set iterates its members in another order
	knownTies   bool // ... involving wholly-known members with colliding hashes (non-primitive element type)
	unknownTies bool // ... involving members that are not wholly known
	numberOrder bool // ... in a set of numbers (ordered by numeric comparison)
	capsuleTies bool // ... in a set whose members contain capsule values (no order promised)
	derived     bool // ... because a nested set inside a compound member iterates in another order (so the member's hash bytes differ)
	unexplained bool // ... none of the above
}

func (d orderDiag) String() string {
	var s []string
	if d.knownTies {
		s = append(s, "known-ties")
	}
	if d.unknownTies {
		s = append(s, "unknown-ties")
	}
	if d.numberOrder {
		s = append(s, "number-order")
	}
	if d.capsuleTies {
		s = append(s, "capsule-ties")
	}
	if d.derived {
		s = append(s, "derived")
	}
	if d.unexplained {
		s = append(s, "unexplained")
	}
	if len(s) == 0 {
		if d.differs {
			return "differs"
		}
		return "same"
	}
	return strings.Join(s, "+")
}

// diagnoseOrder walks two values for which eqModOrder holds and classifies
// every set whose two iteration orders differ.
func diagnoseOrder(a, b cty.Value, d *orderDiag) {
	if a.IsMarked() || b.IsMarked() || !a.IsKnown() || !b.IsKnown() || a.IsNull() || b.IsNull() {
		return
	}
	ty := a.Type()
	switch {
	case ty.IsSetType():
		am, bm := members(a), members(b)
		if len(am) != len(bm) {
			d.differs, d.unexplained = true, true
			return
		}
		ety := ty.ElementType()
		// pair every member with its counterpart and look inside first
		partnerHashDiffers := false
		for _, x := range am {
			for _, y := range bm {
				if eqModOrder(x, y) {
					diagnoseOrder(x, y, d)
					if x.IsWhollyKnown() && y.IsWhollyKnown() && !x.ContainsMarked() && !y.ContainsMarked() && x.Hash() != y.Hash() {
						partnerHashDiffers = true
					}
					break
				}
			}
		}
		for i := range am {
			if eqModOrder(am[i], bm[i]) {
				continue
			}
			d.differs = true
			switch {
			case !am[i].IsWhollyKnown() || !bm[i].IsWhollyKnown():
				d.unknownTies = true
			case ety == cty.Number:
				d.numberOrder = true
			case spec.FromCty(ety).HasCapsule():
				d.capsuleTies = true
			case !ety.IsPrimitiveType() && !am[i].ContainsMarked() && am[i].Hash() == bm[i].Hash():
				d.knownTies = true
			case !ety.IsPrimitiveType() && partnerHashDiffers:
				// a member hashes differently from its counterpart because a
				// set nested inside it iterates in another order; compound
				// members are ordered by their hash bytes
				d.derived = true
			default:
				d.unexplained = true
			}
		}
	case ty.IsListType() || ty.IsTupleType():
		am, bm := members(a), members(b)
		for i := range am {
			if i < len(bm) {
				diagnoseOrder(am[i], bm[i], d)
			}
		}
	case ty.IsMapType() || ty.IsObjectType():
		_, av := keyedMembers(a)
		_, bv := keyedMembers(b)
		for i := range av {
			if i < len(bv) {
				diagnoseOrder(av[i], bv[i], d)
			}
		}
	}
}

// relClose: numerically within 1e-9 relative.
func relClose(a, b *big.Float) bool { return model.RelDist(a, b) < 1e-9 }

// withOrderData attaches to a failure about two values that should be
// interchangeable the facts the known-finding predicates need: how the order
// of set members differs between them, and whether the numbers in the input
// include two that are equal but not numerically identical (and a third
// strictly between them).
func withOrderData(f *facet.Failure, x, y cty.Value, specs ...spec.V) *facet.Failure {
	if eqModOrder(x, y) {
		var dg orderDiag
		diagnoseOrder(x, y, &dg)
		f.With("set-order", dg.String())
	} else {
		f.With("set-order", "members-differ")
	}
	return withNumberFacts(f, specs...)
}

// ---------------------------------------------------------------- hash incoherence among the inputs

// collectSetGroups gathers, per element type, the member specs of every known
// set occurring anywhere in v: members of one group can meet in one set.
func collectSetGroups(v spec.V, groups map[string][]spec.V) {
	if v.St == spec.Known && v.T.K == spec.KSet && v.T.E != nil {
		k := v.T.E.String()
		groups[k] = append(groups[k], v.Elems...)
	}
	for _, e := range v.Elems {
		collectSetGroups(e, groups)
	}
}

// annotate adds to a failure whether the input contains two wholly-known
// values that can meet in one set, are equal under the reference equality and
// nevertheless hash differently, and why (set-order diagnosis of the two).
// Such a pair lands in different buckets, so any set holding it misbehaves.
func annotate(err error, pool []spec.V, vals ...spec.V) error {
	if err == nil {
		return nil
	}
	f := facet.AsFailure(err)
	groups := map[string][]spec.V{}
	if len(pool) > 0 {
		groups["pool:"+pool[0].T.String()] = append(groups["pool:"+pool[0].T.String()], pool...)
	}
	for _, v := range append(append([]spec.V(nil), pool...), vals...) {
		collectSetGroups(v, groups)
	}
	var dg orderDiag
	found := false
	for _, g := range groups {
		if len(g) > 24 {
			g = g[:24]
		}
		built := make([]*cty.Value, len(g))
		for i := range g {
			if !plain(g[i]) {
				continue
			}
			if v, err := spec.Build(g[i]); err == nil {
				built[i] = &v
			}
		}
		for i := range g {
			for j := i + 1; j < len(g); j++ {
				if built[i] == nil || built[j] == nil || !built[i].Type().Equals(built[j].Type()) || !eqSpec(g[i], g[j]) {
					continue
				}
				hi, pi := safeHash(*built[i])
				hj, pj := safeHash(*built[j])
				if pi != nil || pj != nil || hi == hj {
					continue
				}
				found = true
				if eqModOrder(*built[i], *built[j]) {
					diagnoseOrder(*built[i], *built[j], &dg)
				} else {
					dg.unexplained = true
				}
			}
		}
	}
	f.With("pool-hash-incoherent", fmt.Sprint(found))
	if found {
		f.With("pool-order", dg.String())
	}
	if _, ok := f.Data["between"]; !ok {
		withNumberFacts(f, append(append([]spec.V(nil), pool...), vals...)...)
	}
	return f
}
