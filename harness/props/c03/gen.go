package c03

import (
	"fmt"
	"math/big"
	"strconv"
	"strings"

	"golang.org/x/text/unicode/norm"
	"pgregory.net/rapid"

	"verif/harness/gen"
	"verif/harness/spec"
)

// ---------------------------------------------------------------- numbers (collision-rich)

// whole numbers that agree in their first 10 significant digits
var tieInts = []string{"12345678901", "12345678902", "12345678903", "12345678904", "12345678905", "-12345678901", "-12345678902",
	"10000000000000000000001", "10000000000000000000002", "10000000000000000000003"}

// decimal fractions whose float64 / low-precision forms are not the parsed forms
var fracTexts = []string{"0.1", "0.2", "0.3", "0.5", "0.7", "1.5", "-0.1", "2.675", "1234567890.1", "1234567890.2", "1234567890.15",
	"0.30000000000000004", "1.00000000005", "1.00000000015", "0.12345678905", "3.14159"}

// numbers strictly between the parsed (512-bit) and the float64 form of the
// same decimal text: numerically between two numbers cty calls equal.
var betweenTexts = []string{"0.10000000000000000277", "0.2000000000000000055", "0.29999999999999999445", "0.7000000000000000111", "2.67499999999999991"}

var hugeTexts = []string{"1e40", "18446744073709551616", "9223372036854775808", "340282366920938463463374607431768211456", "1e22", "1e23"}

var precs = []int{24, 53, 64, 100, 512}

func routeFor(t *rapid.T, text string, allowInt bool) spec.Num {
	routes := []string{"parse", "float", "big", "parse", "float"}
	if allowInt {
		if _, err := strconv.ParseInt(text, 10, 64); err == nil {
			routes = append(routes, "int", "int")
		}
	}
	switch rapid.SampledFrom(routes).Draw(t, "route") {
	case "int":
		return spec.Num{Route: "int", Text: text}
	case "float":
		f, err := strconv.ParseFloat(text, 64)
		if err != nil {
			return spec.NParse(text)
		}
		return spec.NFloat(f)
	case "big":
		return spec.Num{Route: "big", Text: text, Prec: uint(rapid.SampledFrom(precs).Draw(t, "prec"))}
	}
	return spec.NParse(text)
}

// tieDecimal draws a non-integral decimal whose last significant digit is 5 (a
// rounding tie one digit earlier); half of the time with exactly 11
// significant digits (the tie of a 10-digit rendering), else with 3-17.
func tieDecimal(t *rapid.T) string {
	n := 10
	if rapid.Bool().Draw(t, "otherlen") {
		n = rapid.IntRange(2, 16).Draw(t, "ndigits")
	}
	digits := rapid.StringMatching(fmt.Sprintf(`[1-9][0-9]{%d}`, n-1)).Draw(t, "digits") + "5"
	point := rapid.IntRange(0, n).Draw(t, "point") // digits before the point
	var s string
	if point == 0 {
		s = "0." + strings.Repeat("0", rapid.IntRange(0, 3).Draw(t, "lead")) + digits
	} else {
		s = digits[:point] + "." + digits[point:]
	}
	if rapid.IntRange(0, 4).Draw(t, "neg") == 0 {
		s = "-" + s
	}
	return s
}

const nFamilies = 9

// drawNumIn draws a number from one collision family.
func drawNumIn(t *rapid.T, fam int) spec.Num {
	switch fam {
	case 0: // small whole numbers through every route
		return routeFor(t, strconv.Itoa(rapid.IntRange(-2, 3).Draw(t, "small")), true)
	case 1: // whole numbers equal to 10 significant digits
		if rapid.IntRange(0, 3).Draw(t, "longrun") > 0 {
			// 1234567890100 .. 1234567890149: fifty distinct whole numbers, exact in float64, one 10-digit prefix
			return routeFor(t, strconv.Itoa(1234567890100+rapid.IntRange(0, 49).Draw(t, "k")), true)
		}
		return routeFor(t, rapid.SampledFrom(tieInts).Draw(t, "tieint"), true)
	case 2: // fractions through float64 / parsed / low precision
		return routeFor(t, rapid.SampledFrom(fracTexts).Draw(t, "frac"), false)
	case 3: // rounding ties at the tenth significant digit
		return routeFor(t, tieDecimal(t), false)
	case 4: // zeros
		return rapid.SampledFrom([]spec.Num{{Route: "zero"}, {Route: "negzero"}, spec.NParse("0"), spec.NParse("-0"), spec.NParse("0.0"),
			spec.NFloat(0), {Route: "big", Text: "-0", Prec: 24}, {Route: "big", Text: "0", Prec: 512}, spec.NInt(0), spec.NParse("1e-30"), spec.NInt(1)}).Draw(t, "zero")
	case 5: // huge whole numbers whose float64 form is another integer
		return routeFor(t, rapid.SampledFrom(hugeTexts).Draw(t, "huge"), false)
	case 6: // a fraction, its float64 twin, and numbers strictly between them
		if rapid.Bool().Draw(t, "between") {
			return spec.NParse(rapid.SampledFrom(betweenTexts).Draw(t, "betweentxt"))
		}
		return routeFor(t, rapid.SampledFrom([]string{"0.1", "0.2", "0.3", "0.7", "2.675"}).Draw(t, "frac6"), false)
	case 7: // infinities and large magnitudes
		return rapid.SampledFrom([]spec.Num{{Route: "+inf"}, {Route: "-inf"}, spec.NParse("1e30"), spec.NParse("-1e30"), spec.NFloat(1e30), spec.NFloat(3.4028234663852886e38), spec.NInt(0)}).Draw(t, "inf")
	default: // the shared generator: every class incl. extreme exponents (costly to format, so not used in set pools)
		if rapid.IntRange(0, 5).Draw(t, "extreme") == 0 {
			return rapid.SampledFrom([]spec.Num{spec.NParse("1e400"), spec.NParse("-1e400"), spec.NParse("1e-400"), spec.NFloat(1.7976931348623157e308), spec.NFloat(5e-324)}).Draw(t, "ext")
		}
		return gen.Num(gen.NumOpts{}).Draw(t, "n")
	}
}

// drawNum draws a number from a random family.
func drawNum(t *rapid.T) spec.Num {
	return drawNumIn(t, rapid.IntRange(0, nFamilies-1).Draw(t, "fam"))
}

// altRoutes returns numbers that the documented equality identifies with n
// but that are built another way (other route / precision / textual form).
func altRoutes(n spec.Num) []spec.Num {
	f := n.Float()
	key := numKey(f)
	var cands []spec.Num
	switch {
	case f.IsInf():
		if f.Sign() > 0 {
			cands = append(cands, spec.Num{Route: "+inf"}, spec.NParse("+Inf"), spec.NParse("Inf"))
		} else {
			cands = append(cands, spec.Num{Route: "-inf"}, spec.NParse("-Inf"))
		}
	case f.Sign() == 0:
		cands = append(cands, spec.Num{Route: "zero"}, spec.Num{Route: "negzero"}, spec.NParse("0"), spec.NParse("-0"), spec.NParse("0.000"), spec.NInt(0), spec.NFloat(0))
	default:
		var text string
		if f.IsInt() {
			text = f.Text('f', 0)
			if i, err := strconv.ParseInt(text, 10, 64); err == nil {
				cands = append(cands, spec.NInt(i))
			}
			if u, err := strconv.ParseUint(text, 10, 64); err == nil {
				cands = append(cands, spec.Num{Route: "uint", Text: strconv.FormatUint(u, 10)})
			}
			cands = append(cands, spec.NParse(text+".0"))
		} else {
			text = f.Text('f', -1)
			cands = append(cands, spec.NParse(text+"0"))
		}
		cands = append(cands, spec.NParse(text))
		if x, err := strconv.ParseFloat(text, 64); err == nil {
			cands = append(cands, spec.NFloat(x))
		}
		for _, p := range precs {
			cands = append(cands, spec.Num{Route: "big", Text: text, Prec: uint(p)})
		}
	}
	var out []spec.Num
	for _, c := range cands {
		if c == n {
			continue
		}
		if safeKey(c) == key {
			out = append(out, c)
		}
	}
	return out
}

func safeKey(n spec.Num) (k string) {
	defer func() {
		if recover() != nil {
			k = "!"
		}
	}()
	return numKey(n.Float())
}

// neighbours returns numbers close to n that the documented equality
// distinguishes from it (next integer, a changed last digit, an extra digit).
func neighbours(n spec.Num) []spec.Num {
	f := n.Float()
	if f.IsInf() {
		return []spec.Num{spec.NParse("1e400"), spec.NInt(0), {Route: "+inf"}, {Route: "-inf"}}
	}
	key := numKey(f)
	var cands []spec.Num
	if f.IsInt() {
		i, _ := f.Int(nil)
		cands = append(cands, spec.NParse(new(big.Int).Add(i, big.NewInt(1)).String()), spec.NParse(new(big.Int).Sub(i, big.NewInt(1)).String()),
			spec.NParse(i.String()+".5"), spec.NParse(i.String()+".00000000001"), spec.NParse(new(big.Int).Neg(i).String()))
	} else {
		text := f.Text('f', -1)
		cands = append(cands, spec.NParse(text+"1"), spec.NParse(text+"00000000001"))
		last := text[len(text)-1]
		repl := byte('1')
		if last == '1' {
			repl = '2'
		}
		cands = append(cands, spec.NParse(text[:len(text)-1]+string(repl)))
		if strings.HasPrefix(text, "-") {
			cands = append(cands, spec.NParse(text[1:]))
		} else {
			cands = append(cands, spec.NParse("-"+text))
		}
	}
	if x, ok := sameValueHigherPrec(f); ok {
		cands = append(cands, x, x)
	}
	var out []spec.Num
	for _, c := range cands {
		if safeKey(c) != key {
			out = append(out, c)
		}
	}
	if len(out) == 0 {
		out = append(out, spec.NInt(7))
	}
	return out
}

// sameValueHigherPrec returns the number with exactly the value of f held at
// 512 bits of precision (what arithmetic with a parsed operand produces, e.g.
// NumberFloatVal(0.1).Add(parsed zero)). For a non-integral f of lower
// precision its shortest decimal text is the full binary expansion, so cty
// calls it unequal to f although the two are numerically identical.
func sameValueHigherPrec(f *big.Float) (spec.Num, bool) {
	if f.IsInf() || f.IsInt() || f.Prec() >= 512 {
		return spec.Num{}, false
	}
	r, _ := f.Rat(nil)
	if r == nil {
		return spec.Num{}, false
	}
	k := r.Denom().BitLen() - 1 // denominator is 2^k: k decimal places are exact
	if k <= 0 || k > 400 {
		return spec.Num{}, false
	}
	n := spec.Num{Route: "big", Text: r.FloatString(k), Prec: 512}
	if n.Float().Cmp(f) != 0 {
		return spec.Num{}, false
	}
	return n, true
}

// ---------------------------------------------------------------- strings

var strPool = []string{"", "a", "b", "ab", "\u00e9", "e\u0301", "\u00c5", "A\u030a", "\u212b", "\uac00", "\u1100\u1161", "\u1e9b\u0323", "\u017f\u0323\u0307",
	"foo", "fo\u00f6", "foo\u0308", "z", "a\u0323\u0301", "a\u0301\u0323", "\u1ea1\u0301"}

// longTwins are strings that agree on a long prefix (64, 65, 256, 1024 bytes)
// and differ only behind it.
var longTwins = func() []string {
	var out []string
	for _, n := range []int{64, 65, 256, 1024} {
		body := strings.Repeat("x", n)
		out = append(out, body, body+"a", body+"b")
	}
	return out
}()

func drawStr(t *rapid.T) string {
	switch rapid.IntRange(0, 7).Draw(t, "strsrc") {
	case 0, 1:
		return gen.String().Draw(t, "s")
	case 4:
		return rapid.SampledFrom(longTwins).Draw(t, "longtwin")
	}
	return rapid.SampledFrom(strPool).Draw(t, "spool")
}

// altString returns other spellings that normalise to the same string.
func altString(s string) []string {
	var out []string
	for _, x := range []string{norm.NFD.String(s), norm.NFC.String(s), norm.NFD.String(norm.NFC.String(s))} {
		if x != s {
			out = append(out, x)
		}
	}
	return out
}

// ---------------------------------------------------------------- values

type valOpts struct {
	Null    bool
	Unknown bool
	Marks   bool
	Fam     int // number family; -1 = any
	Max     int // max collection members
}

var markNames = []string{"m1", "m2"}

func drawLeafNum(t *rapid.T, o valOpts) spec.Num {
	if o.Fam >= 0 {
		return drawNumIn(t, o.Fam)
	}
	return drawNum(t)
}

// drawVal draws a value of exactly the given (dynamic-free) type.
func drawVal(t *rapid.T, ty spec.T, o valOpts) spec.V {
	if o.Max == 0 {
		o.Max = 3
	}
	var v spec.V
	roll := rapid.IntRange(0, 15).Draw(t, "state")
	switch {
	case o.Null && roll == 0:
		v = spec.NullOf(ty)
	case o.Unknown && roll == 1:
		v = drawUnknown(t, ty)
	default:
		v = drawKnown(t, ty, o)
	}
	if o.Marks && rapid.IntRange(0, 7).Draw(t, "marked") == 0 {
		v.Marks = []string{rapid.SampledFrom(markNames).Draw(t, "mark")}
	}
	return v
}

func drawUnknown(t *rapid.T, ty spec.T) spec.V {
	v := spec.UnknownOf(ty)
	r := &spec.Ref{}
	switch rapid.IntRange(0, 3).Draw(t, "refkind") {
	case 0:
		return v
	case 1:
		r.Null = "notnull"
	default:
		if rapid.Bool().Draw(t, "notnull") {
			r.Null = "notnull"
		}
		switch {
		case ty.K == spec.KNumber:
			lo := spec.NInt(int64(rapid.IntRange(-3, 3).Draw(t, "lo")))
			hi := spec.NInt(int64(rapid.IntRange(4, 9).Draw(t, "hi")))
			if rapid.Bool().Draw(t, "haslo") {
				r.Lo, r.LoInc = &lo, rapid.Bool().Draw(t, "loinc")
			}
			if rapid.Bool().Draw(t, "hashi") {
				r.Hi, r.HiInc = &hi, rapid.Bool().Draw(t, "hiinc")
			}
		case ty.K == spec.KString:
			p := rapid.SampledFrom([]string{"a", "fo", "\u00e9"}).Draw(t, "prefix")
			r.Prefix, r.PrefixFull = &p, true
		case ty.IsColl():
			lo := rapid.IntRange(0, 2).Draw(t, "minlen")
			hi := lo + rapid.IntRange(1, 3).Draw(t, "span")
			r.MinLen, r.MaxLen = &lo, &hi
		}
	}
	if *r == (spec.Ref{}) {
		return v
	}
	v.Ref = r
	return v
}

var mapKeyPool = []string{"a", "b", "c", "\u00e9", "k", ""}

func drawKnown(t *rapid.T, ty spec.T, o valOpts) spec.V {
	switch ty.K {
	case spec.KBool:
		return spec.KnownBool(rapid.Bool().Draw(t, "b"))
	case spec.KNumber:
		return spec.KnownNum(drawLeafNum(t, o))
	case spec.KString:
		return spec.KnownStr(drawStr(t))
	case spec.KList, spec.KSet:
		n := rapid.IntRange(0, o.Max).Draw(t, "n")
		v := spec.V{T: ty, St: spec.Known}
		if ty.E.K == spec.KDynamic {
			// the only wholly-known values of such a type are the empty
			// collections: known, although their type mentions the placeholder
			return v
		}
		for i := 0; i < n; i++ {
			v.Elems = append(v.Elems, drawVal(t, *ty.E, o))
		}
		return v
	case spec.KMap:
		n := rapid.IntRange(0, o.Max).Draw(t, "n")
		v := spec.V{T: ty, St: spec.Known}
		if ty.E.K == spec.KDynamic {
			return v
		}
		perm := rapid.Permutation(mapKeyPool).Draw(t, "keys")
		for i := 0; i < n && i < len(perm); i++ {
			v.Keys = append(v.Keys, perm[i])
			v.Elems = append(v.Elems, drawVal(t, *ty.E, o))
		}
		return v
	case spec.KTuple:
		v := spec.V{T: ty, St: spec.Known}
		for _, et := range ty.Elems {
			v.Elems = append(v.Elems, drawVal(t, et, o))
		}
		return v
	case spec.KObject:
		v := spec.V{T: ty, St: spec.Known}
		for _, a := range ty.Attrs {
			v.Keys = append(v.Keys, a.Name)
			v.Elems = append(v.Elems, drawVal(t, a.T, o))
		}
		return v
	case spec.KCapsule:
		return spec.V{T: ty, St: spec.Known, Cap: rapid.IntRange(0, 7).Draw(t, "cap")}
	}
	panic("c03 gen: bad kind " + ty.K)
}

var pairTypeOpts = gen.TypeOpts{Depth: 2, Capsule: true}

// fixed shapes that concentrate the collision families
var shapePool = []spec.T{
	spec.Number, spec.Number, spec.String, spec.Bool,
	spec.Tuple(spec.Number), spec.Tuple(spec.Number, spec.String), spec.List(spec.Number), spec.Set(spec.Number), spec.Map(spec.Number),
	spec.Object(spec.Attr{Name: "a", T: spec.Number}), spec.Set(spec.Tuple(spec.Number)), spec.Set(spec.String), spec.List(spec.Set(spec.Number)),
	spec.Tuple(spec.Set(spec.Number), spec.String), spec.Set(spec.Set(spec.Number)), spec.Object(spec.Attr{Name: "a", T: spec.Set(spec.Number)}, spec.Attr{Name: "\u00e9", T: spec.String}),
	spec.Set(spec.List(spec.Number)), spec.Map(spec.Set(spec.String)), spec.CapsuleT("A"), spec.CapsuleT("B"), spec.Set(spec.CapsuleT("B")),
	// empty collections of the placeholder element type: wholly known values whose type is not
	spec.List(spec.Dynamic), spec.Map(spec.List(spec.Dynamic)), spec.Tuple(spec.List(spec.Dynamic), spec.Number), spec.Object(spec.Attr{Name: "a", T: spec.Map(spec.Dynamic)}),
	spec.List(spec.List(spec.Dynamic)),
}

func drawType(t *rapid.T) spec.T {
	if rapid.IntRange(0, 2).Draw(t, "typesrc") == 0 {
		return gen.Type(pairTypeOpts).Draw(t, "type")
	}
	return rapid.SampledFrom(shapePool).Draw(t, "shape")
}

// ---------------------------------------------------------------- related values

// reroute rebuilds v by other routes wherever it can: numbers through another
// constructor / precision, strings in another normalisation form, set members
// and map/object entries in another order. The result is equal to v under the
// reference model (the facets recompute that, they do not rely on it).
func reroute(t *rapid.T, v spec.V) spec.V {
	out := v.Clone()
	if v.St != spec.Known {
		return out
	}
	switch v.T.K {
	case spec.KNumber:
		if alts := altRoutes(*v.N); len(alts) > 0 && rapid.IntRange(0, 4).Draw(t, "rr") > 0 {
			n := rapid.SampledFrom(alts).Draw(t, "alt")
			out.N = &n
		}
	case spec.KString:
		if alts := altString(v.S); len(alts) > 0 && rapid.Bool().Draw(t, "rs") {
			out.S = rapid.SampledFrom(alts).Draw(t, "alts")
		}
	case spec.KList, spec.KTuple:
		for i := range v.Elems {
			out.Elems[i] = reroute(t, v.Elems[i])
		}
	case spec.KSet:
		for i := range v.Elems {
			out.Elems[i] = reroute(t, v.Elems[i])
		}
		if len(out.Elems) > 1 && rapid.Bool().Draw(t, "permset") {
			idx := make([]int, len(out.Elems))
			for i := range idx {
				idx[i] = i
			}
			p := rapid.Permutation(idx).Draw(t, "perm")
			es := make([]spec.V, len(p))
			for i, j := range p {
				es[i] = out.Elems[j]
			}
			out.Elems = es
		}
	case spec.KMap, spec.KObject:
		for i := range v.Elems {
			out.Elems[i] = reroute(t, v.Elems[i])
		}
		// reverse entry order; map keys in another normalisation form
		for i, j := 0, len(out.Elems)-1; i < j; i, j = i+1, j-1 {
			out.Elems[i], out.Elems[j] = out.Elems[j], out.Elems[i]
			out.Keys[i], out.Keys[j] = out.Keys[j], out.Keys[i]
		}
		if v.T.K == spec.KMap {
			for i, k := range out.Keys {
				if alts := altString(k); len(alts) > 0 && rapid.Bool().Draw(t, "rk") {
					out.Keys[i] = alts[0]
				}
			}
		}
	}
	return out
}

func countValNodes(v spec.V) int {
	n := 1
	for _, e := range v.Elems {
		n += countValNodes(e)
	}
	return n
}

// perturb changes v at exactly one position, keeping its type, and returns
// the changed value with a label for the edit.
func perturb(t *rapid.T, v spec.V) (spec.V, string) {
	target := rapid.IntRange(0, countValNodes(v)-1).Draw(t, "pos")
	idx := 0
	label := ""
	var rec func(x spec.V) spec.V
	rec = func(x spec.V) spec.V {
		me := idx
		idx++
		if me == target {
			y, l := perturbNode(t, x)
			label = l
			idx += countValNodes(x) - 1
			return y
		}
		if len(x.Elems) == 0 {
			return x
		}
		out := x
		out.Elems = make([]spec.V, len(x.Elems))
		for i, e := range x.Elems {
			out.Elems[i] = rec(e)
		}
		return out
	}
	out := rec(v.Clone())
	return out, label
}

func perturbNode(t *rapid.T, x spec.V) (spec.V, string) {
	ko := valOpts{Fam: -1}
	if x.St != spec.Known {
		// null / unknown -> a known value of the same type
		y := drawKnown(t, x.T, ko)
		y.Marks = x.Marks
		return y, "to-known"
	}
	if rapid.IntRange(0, 5).Draw(t, "tonull") == 0 {
		y := spec.NullOf(x.T)
		y.Marks = x.Marks
		return y, "to-null"
	}
	if x.T.IsColl() && x.T.E.K == spec.KDynamic {
		// the only other wholly-known value of such a type is its null
		y := spec.NullOf(x.T)
		y.Marks = x.Marks
		return y, "to-null"
	}
	out := x.Clone()
	switch x.T.K {
	case spec.KBool:
		out.B = !x.B
		return out, "bool"
	case spec.KNumber:
		n := rapid.SampledFrom(neighbours(*x.N)).Draw(t, "neighbour")
		out.N = &n
		return out, "number"
	case spec.KString:
		out.S = x.S + rapid.SampledFrom([]string{"x", "\u0301", " ", "\u0323"}).Draw(t, "suffix")
		if spec.NFC(out.S) == spec.NFC(x.S) {
			out.S = x.S + "y"
		}
		return out, "string"
	case spec.KList, spec.KSet:
		if x.T.E.K == spec.KString && len(x.Elems) >= 2 && rapid.IntRange(0, 2).Draw(t, "merge") == 0 {
			// two adjacent string members fused into one whose text spells the
			// way two members are written next to each other in the hash bytes of
			// a collection ("a";"b"): a different value that an encoding without
			// proper escaping cannot tell apart
			i := rapid.IntRange(0, len(x.Elems)-2).Draw(t, "mergei")
			if x.Elems[i].St == spec.Known && x.Elems[i+1].St == spec.Known {
				sep := rapid.SampledFrom([]string{`";"`, `";"`, `\";\"`, `;`, `","`}).Draw(t, "sep")
				m := spec.KnownStr(x.Elems[i].S + sep + x.Elems[i+1].S)
				out.Elems = append(append(append([]spec.V(nil), out.Elems[:i]...), m), out.Elems[i+2:]...)
				return out, "merge-members-with-separator-text"
			}
		}
		if len(x.Elems) > 0 && rapid.Bool().Draw(t, "drop") {
			i := rapid.IntRange(0, len(x.Elems)-1).Draw(t, "dropi")
			out.Elems = append(append([]spec.V(nil), out.Elems[:i]...), out.Elems[i+1:]...)
			return out, "drop-member"
		}
		out.Elems = append(out.Elems, drawVal(t, *x.T.E, ko))
		return out, "add-member"
	case spec.KMap:
		if len(x.Elems) > 0 && rapid.Bool().Draw(t, "drop") {
			i := rapid.IntRange(0, len(x.Elems)-1).Draw(t, "dropi")
			out.Elems = append(append([]spec.V(nil), out.Elems[:i]...), out.Elems[i+1:]...)
			out.Keys = append(append([]string(nil), out.Keys[:i]...), out.Keys[i+1:]...)
			return out, "drop-entry"
		}
		for _, k := range []string{"q", "zz", "a", "b", "c", "d", "e2"} {
			if keyIndex(x.Keys, k) < 0 {
				out.Keys = append(out.Keys, k)
				out.Elems = append(out.Elems, drawVal(t, *x.T.E, ko))
				return out, "add-entry"
			}
		}
		return spec.NullOf(x.T), "to-null"
	case spec.KCapsule:
		out.Cap = (x.Cap + 1 + rapid.IntRange(0, 6).Draw(t, "capstep")) % 8
		return out, "capsule"
	default: // tuple / object: arity is part of the type
		y := spec.NullOf(x.T)
		y.Marks = x.Marks
		return y, "to-null"
	}
}

// Pair is two related value specs.
type Pair struct {
	A   spec.V `json:"a"`
	B   spec.V `json:"b"`
	Rel string `json:"rel"`
}

// relatedTo draws a value related to a.
func relatedTo(t *rapid.T, a spec.V, o valOpts) (spec.V, string) {
	switch rapid.IntRange(0, 9).Draw(t, "rel") {
	case 0:
		return drawVal(t, a.T, o), "independent-same-type"
	case 1:
		return drawVal(t, drawType(t), o), "independent"
	case 2, 3, 4:
		return reroute(t, a), "reroute"
	case 5:
		b, l := perturb(t, reroute(t, a))
		return b, "reroute+perturb:" + l
	case 6:
		if a.St == spec.Null {
			return spec.NullOf(drawType(t)), "null-other-type"
		}
		b, l := perturb(t, a)
		return b, "perturb:" + l
	default:
		b, l := perturb(t, a)
		return b, "perturb:" + l
	}
}

func genPairWith(o valOpts) func(t *rapid.T) Pair {
	return func(t *rapid.T) Pair {
		oo := o
		oo.Fam = rapid.IntRange(-1, nFamilies-1).Draw(t, "family")
		a := drawVal(t, drawType(t), oo)
		b, rel := relatedTo(t, a, oo)
		return Pair{A: a, B: b, Rel: rel}
	}
}

func relClass(rel string) string {
	if i := strings.IndexByte(rel, ':'); i >= 0 {
		return rel[:i]
	}
	return rel
}
