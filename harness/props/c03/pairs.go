package c03

import (
	"encoding/json"
	"fmt"

	"github.com/zclconf/go-cty/cty"
	"pgregory.net/rapid"

	"verif/harness/facet"
	"verif/harness/gen"
	"verif/harness/spec"
	"verif/harness/wf"
)

// Triple is three related value specs.
type Triple struct {
	A   spec.V `json:"a"`
	B   spec.V `json:"b"`
	C   spec.V `json:"c"`
	Rel string `json:"rel"`
}

func safeEquals(a, b cty.Value) (r cty.Value, pan any) {
	defer func() {
		if x := recover(); x != nil {
			pan = x
		}
	}()
	return a.Equals(b), nil
}

func safeRawEquals(a, b cty.Value) (r bool, pan any) {
	defer func() {
		if x := recover(); x != nil {
			pan = x
		}
	}()
	return a.RawEquals(b), nil
}

func safeHash(a cty.Value) (h int, pan any) {
	defer func() {
		if x := recover(); x != nil {
			pan = x
		}
	}()
	return a.Hash(), nil
}

func specJSON(v spec.V) string {
	b, _ := json.Marshal(v)
	return string(b)
}

// plain: wholly known, no marks anywhere.
func plain(v spec.V) bool { return v.WhollyKnown() && !v.HasMarks() }

var allValOpts = valOpts{Null: true, Unknown: true, Marks: true}
var knownValOpts = valOpts{Null: true}

// genAnyPair mixes the collision-rich pairs with the shared broad generator
// (dynamic placeholders, refined unknowns, marks at any depth).
func genAnyPair(t *rapid.T) Pair {
	if rapid.IntRange(0, 3).Draw(t, "broad") == 0 {
		to := gen.TypeOpts{Depth: 2, Dynamic: true, Capsule: true}
		vo := gen.ValOpts{Null: true, Unknown: true, Marks: true}
		a := gen.AnyValue(to, vo).Draw(t, "a")
		switch rapid.IntRange(0, 2).Draw(t, "brel") {
		case 0:
			return Pair{A: a, B: gen.AnyValue(to, vo).Draw(t, "b"), Rel: "independent"}
		case 1:
			return Pair{A: a, B: gen.Value(a.T, vo).Draw(t, "b"), Rel: "independent-same-type"}
		default:
			return Pair{A: a, B: reroute(t, a), Rel: "reroute"}
		}
	}
	return genPairWith(allValOpts)(t)
}

func labelPair(c *facet.Ctx, p Pair) {
	c.Label("rel=" + relClass(p.Rel))
	c.Label("kind=" + p.A.T.K)
}

func init() {
	// ------------------------------------------------------------ raw/equivalence
	facet.Register(facet.F[Triple]{
		Prop: "C03", Name: "raw/equivalence",
		Rule:  "triple (a, b, c) with b and c derived from a (other construction route, one perturbed position) or independent, over all values (nulls, refined unknowns, marks, capsules); non-trivial when at least one of the three pairs is RawEqual although the two specs differ, or one pair differs in exactly one position; distinct = hash of the spec triple",
		Quick: 60000, Thorough: 125000,
		Gen: func(t *rapid.T) Triple {
			p := genAnyPair(t)
			from := p.A
			if rapid.Bool().Draw(t, "fromB") {
				from = p.B
			}
			var c spec.V
			var rel string
			if from.T.HasDynamic() || valueHasKind(from, spec.KDynamic) {
				c, rel = reroute(t, from), "reroute"
			} else {
				c, rel = relatedTo(t, from, allValOpts)
			}
			return Triple{A: p.A, B: p.B, C: c, Rel: relClass(p.Rel) + "/" + relClass(rel)}
		},
		Check: func(c *facet.Ctx, tr Triple) error {
			vs := make([]cty.Value, 3)
			for i, s := range []spec.V{tr.A, tr.B, tr.C} {
				v, err := spec.Build(s)
				if err != nil {
					c.Skip()
					return nil
				}
				vs[i] = v
			}
			c.Label("rel=" + tr.Rel)
			names := []string{"a", "b", "c"}
			specs := []spec.V{tr.A, tr.B, tr.C}
			var eq [3][3]bool
			for i := range vs {
				for j := range vs {
					r, pan := safeRawEquals(vs[i], vs[j])
					if pan != nil {
						return facet.Failf("rawequals-panic", "RawEquals(%s, %s) panicked: %v\n%s = %#v\n%s = %#v", names[i], names[j], pan, names[i], vs[i], names[j], vs[j])
					}
					eq[i][j] = r
				}
			}
			for i := range vs {
				if !eq[i][i] {
					return facet.Failf("raw-reflexive", "value is not RawEqual to itself: %#v", vs[i])
				}
				again := spec.MustBuild(specs[i])
				r1, _ := safeRawEquals(vs[i], again)
				r2, _ := safeRawEquals(again, vs[i])
				if !r1 || !r2 {
					return facet.Failf("raw-reflexive-rebuild", "value is not RawEqual to a second build of the same specification: %#v", vs[i])
				}
			}
			nt := false
			for i := 0; i < 3; i++ {
				for j := i + 1; j < 3; j++ {
					if eq[i][j] != eq[j][i] {
						return facet.Failf("raw-symmetric", "RawEquals(%s,%s)=%t but RawEquals(%s,%s)=%t\n%#v\n%#v", names[i], names[j], eq[i][j], names[j], names[i], eq[j][i], vs[i], vs[j])
					}
					if eq[i][j] && specJSON(specs[i]) != specJSON(specs[j]) {
						nt = true
						c.Label("rawequal-other-route")
					}
				}
			}
			for i := 0; i < 3; i++ {
				for j := 0; j < 3; j++ {
					for k := 0; k < 3; k++ {
						if i != j && j != k && i != k && eq[i][j] && eq[j][k] && !eq[i][k] {
							return facet.Failf("raw-transitive", "%s~%s and %s~%s but not %s~%s\n%#v\n%#v\n%#v", names[i], names[j], names[j], names[k], names[i], names[k], vs[i], vs[j], vs[k])
						}
					}
				}
			}
			if nt || containsPerturb(tr.Rel) {
				c.NonTrivial()
			}
			return nil
		},
	})

	// ------------------------------------------------------------ eq/symmetric
	facet.Register(facet.F[Pair]{
		Prop: "C03", Name: "eq/symmetric",
		Rule:  "pair over all values (nulls of any type, refined unknowns, dynamic placeholders, marks at any depth, capsules); non-trivial when b is derived from a (another route / one perturbed position) or either side is not wholly known or marked; distinct = hash of the spec pair",
		Quick: 100000, Thorough: 125000,
		Gen: genAnyPair,
		Check: func(c *facet.Ctx, p Pair) error {
			a, err1 := spec.Build(p.A)
			b, err2 := spec.Build(p.B)
			if err1 != nil || err2 != nil {
				c.Skip()
				return nil
			}
			labelPair(c, p)
			r1, p1 := safeEquals(a, b)
			r2, p2 := safeEquals(b, a)
			if p1 != nil && p2 != nil {
				c.Label("both-panic")
				c.Skip()
				return nil
			}
			if (p1 != nil) != (p2 != nil) {
				return facet.Failf("equals-asymmetric-panic", "Equals panics in one direction only (a.Equals(b): %v; b.Equals(a): %v)\na = %#v\nb = %#v", p1, p2, a, b)
			}
			if f := wf.CheckAll(r1, r2); f != nil {
				return f
			}
			if !r1.Type().Equals(cty.Bool) || !r2.Type().Equals(cty.Bool) {
				return facet.Failf("equals-type", "Equals returned a non-bool: %#v / %#v", r1, r2)
			}
			if !r1.RawEquals(r2) {
				return facet.Failf("equals-asymmetric", "a.Equals(b) = %#v but b.Equals(a) = %#v\na = %#v\nb = %#v", r1, r2, a, b)
			}
			u, _ := r1.Unmark()
			switch {
			case !u.IsKnown():
				c.Label("result=unknown")
			case u.IsNull():
				return facet.Failf("equals-null-result", "Equals returned null")
			case u.True():
				c.Label("result=true")
			default:
				c.Label("result=false")
			}
			if (p.Rel != "independent" && p.Rel != "independent-same-type") || !p.A.WhollyKnown() || !p.B.WhollyKnown() || p.A.HasMarks() || p.B.HasMarks() {
				c.NonTrivial()
			}
			return nil
		},
	})

	// ------------------------------------------------------------ eq/nulls
	facet.Register(facet.F[NullCase]{
		Prop: "C03", Name: "eq/nulls",
		Rule:  "a null of type T1 (any type incl. dynamic placeholders, capsules; optionally marked) against a null of type T2 (must be True) or against a known non-null value (must never be True); non-trivial when the two types differ; distinct = hash of the case",
		Quick: 40000, Thorough: 50000,
		Gen: func(t *rapid.T) NullCase {
			to := gen.TypeOpts{Depth: 2, Dynamic: true, Capsule: true}
			nc := NullCase{T1: gen.Type(to).Draw(t, "t1")}
			if rapid.IntRange(0, 4).Draw(t, "m1") == 0 {
				nc.Marks1 = []string{"m1"}
			}
			switch rapid.IntRange(0, 3).Draw(t, "other") {
			case 0:
				nc.Other = spec.NullOf(nc.T1)
			case 1, 2:
				nc.Other = spec.NullOf(gen.Type(to).Draw(t, "t2"))
			default:
				ty := nc.T1
				if ty.HasDynamic() || rapid.Bool().Draw(t, "othertype") {
					ty = drawType(t)
				}
				nc.Other = drawKnown(t, ty, valOpts{Null: true, Unknown: true, Fam: -1})
			}
			if rapid.IntRange(0, 4).Draw(t, "m2") == 0 {
				nc.Other.Marks = []string{"m2"}
			}
			return nc
		},
		Check: func(c *facet.Ctx, nc NullCase) error {
			n1 := spec.NullOf(nc.T1)
			n1.Marks = nc.Marks1
			a, err1 := spec.Build(n1)
			b, err2 := spec.Build(nc.Other)
			if err1 != nil || err2 != nil {
				c.Skip()
				return nil
			}
			bothNull := nc.Other.St == spec.Null
			if bothNull {
				c.Label("null-null")
			} else {
				c.Label("null-known")
			}
			if !a.Type().Equals(b.Type()) {
				c.NonTrivial()
				c.Label("types-differ")
			}
			for _, d := range [][2]cty.Value{{a, b}, {b, a}} {
				r, pan := safeEquals(d[0], d[1])
				if pan != nil {
					return facet.Failf("equals-null-panic", "Equals panicked on a null operand: %v\n%#v\n%#v", pan, d[0], d[1])
				}
				if f := wf.Check(r); f != nil {
					return f
				}
				u, marks := r.Unmark()
				wantMarks := len(nc.Marks1) + len(nc.Other.Marks)
				if len(marks) != wantMarks {
					return facet.Failf("equals-null-marks", "result carries %d marks, operands carry %d\n%#v\n%#v", len(marks), wantMarks, d[0], d[1])
				}
				if bothNull {
					if !u.IsKnown() || u.IsNull() || !u.True() {
						return facet.Failf("nulls-not-equal", "two nulls are not equal: %#v.Equals(%#v) = %#v", d[0], d[1], r)
					}
				} else if u.IsKnown() && !u.IsNull() && u.True() {
					return facet.Failf("null-equals-nonnull", "a null is equal to a known non-null value: %#v.Equals(%#v) = %#v", d[0], d[1], r)
				} else if u.IsKnown() {
					c.Label("null-known=false")
				} else {
					c.Label("null-known=unknown")
				}
			}
			return nil
		},
	})

	// ------------------------------------------------------------ eq/agrees-raw
	facet.Register(facet.F[Pair]{
		Prop: "C03", Name: "eq/agrees-raw",
		Rule:  "pair of wholly-known unmarked values (nulls at any depth, capsules, nested sets); same type: Equals must be known, agree with RawEquals and with the reference equality (whole numbers by value, other numbers by shortest decimal text, strings after NFC, sets by mutual inclusion); different types: never True unless both null; non-trivial when the reference calls them equal although built by different routes, or they differ in exactly one position; distinct = hash of the spec pair",
		Quick: 100000, Thorough: 125000,
		Gen:   genPairWith(knownValOpts),
		Check: func(c *facet.Ctx, p Pair) error { return annotate(checkAgreesRaw(c, p), nil, p.A, p.B) },
	})
}

func checkAgreesRaw(c *facet.Ctx, p Pair) error {
	{
		{
			if !plain(p.A) || !plain(p.B) {
				c.Skip()
				return nil
			}
			a, err1 := spec.Build(p.A)
			b, err2 := spec.Build(p.B)
			if err1 != nil || err2 != nil {
				c.Skip()
				return nil
			}
			labelPair(c, p)
			for _, d := range [][2]int{{0, 1}, {1, 0}} {
				vs := [2]cty.Value{a, b}
				ss := [2]spec.V{p.A, p.B}
				x, y := vs[d[0]], vs[d[1]]
				r, pan := safeEquals(x, y)
				if pan != nil {
					return facet.Failf("equals-panic", "Equals panicked on wholly-known values: %v\n%#v\n%#v", pan, x, y)
				}
				if f := wf.Check(r); f != nil {
					return f
				}
				raw, pan := safeRawEquals(x, y)
				if pan != nil {
					return facet.Failf("rawequals-panic", "RawEquals panicked: %v\n%#v\n%#v", pan, x, y)
				}
				if !x.Type().Equals(y.Type()) {
					c.Label("types-differ")
					bothNull := ss[0].St == spec.Null && ss[1].St == spec.Null
					if raw {
						return facet.Failf("raw-vs-model", "RawEquals is true for values of different types\n%#v\n%#v", x, y)
					}
					if r.IsKnown() && r.True() != bothNull {
						return facet.Failf("equals-vs-model", "Equals of values of different types = %#v (both null: %t)\n%#v\n%#v", r, bothNull, x, y)
					}
					continue
				}
				want := eqSpec(ss[d[0]], ss[d[1]])
				if !r.IsKnown() || r.IsNull() || r.IsMarked() {
					return facet.Failf("equals-not-known", "Equals of wholly-known unmarked values of one type is %#v\n%#v\n%#v", r, x, y)
				}
				got := r.True()
				if got != want {
					return facet.Failf("equals-vs-model", "Equals = %t, reference equality = %t\n%#v\n%#v", got, want, x, y).With("specs", specJSON(ss[0])+" "+specJSON(ss[1]))
				}
				if raw != got {
					f := facet.Failf("equals-vs-raw", "Equals = %t but RawEquals = %t on wholly-known values of one type\n%#v\n%#v", got, raw, x, y)
					withOrderData(f, x, y, p.A, p.B)
					if got && f.Data["set-order"] == "capsule-ties" {
						// the property promises an order only for capsule-free members,
						// and RawEquals compares sets in iteration order
						c.Label("capsule-set-order")
						continue
					}
					return f
				}
				if want {
					c.Label("equal")
					if specJSON(p.A) != specJSON(p.B) {
						c.Label("equal-other-route")
						c.NonTrivial()
					}
				}
			}
			if containsPerturb(p.Rel) {
				c.NonTrivial()
			}
			return nil
		}
	}
}

func init() {
	// ------------------------------------------------------------ num/trichotomy
	facet.Register(facet.F[NumPair]{
		Prop: "C03", Name: "num/trichotomy",
		Rule:  "two known numbers, related (same decimal text by another route or precision, neighbours equal to 10 significant digits, zeros of both signs, infinities) or independent; exactly one of Equals / LessThan / GreaterThan must be True, in both operand orders; non-trivial when the two are built by different routes and are equal or numerically within 1e-9 relative; distinct = hash of the pair",
		Quick: 100000, Thorough: 125000,
		Gen: func(t *rapid.T) NumPair {
			fam := rapid.IntRange(0, nFamilies-1).Draw(t, "fam")
			a := drawNumIn(t, fam)
			var b spec.Num
			switch rapid.IntRange(0, 4).Draw(t, "rel") {
			case 0:
				b = drawNum(t)
			case 1:
				b = drawNumIn(t, fam)
			case 2, 3:
				if alts := altRoutes(a); len(alts) > 0 {
					b = rapid.SampledFrom(alts).Draw(t, "alt")
				} else {
					b = drawNumIn(t, fam)
				}
			default:
				b = rapid.SampledFrom(neighbours(a)).Draw(t, "neighbour")
			}
			return NumPair{A: a, B: b}
		},
		Check: func(c *facet.Ctx, p NumPair) error {
			a, err1 := spec.Build(spec.KnownNum(p.A))
			b, err2 := spec.Build(spec.KnownNum(p.B))
			if err1 != nil || err2 != nil {
				c.Skip()
				return nil
			}
			fa, fb := p.A.Float(), p.B.Float()
			// the specification is the model of the number: make sure the
			// library holds the number the specification describes
			if ga, gb := a.AsBigFloat(), b.AsBigFloat(); ga.Cmp(fa) != 0 || gb.Cmp(fb) != 0 || ga.Prec() != fa.Prec() || gb.Prec() != fb.Prec() {
				c.Label("spec-model-mismatch")
				c.Skip()
				return nil
			}
			sameKey := numKey(fa) == numKey(fb)
			cmp := fa.Cmp(fb)
			switch {
			case sameKey && cmp == 0:
				c.Label("equal-identical")
			case sameKey:
				c.Label("equal-not-identical")
			case cmp == 0:
				c.Label("identical-not-equal")
			default:
				c.Label("different")
			}
			if p.A != p.B && (sameKey || relClose(fa, fb)) {
				c.NonTrivial()
			}
			for _, d := range [][2]cty.Value{{a, b}, {b, a}} {
				x, y := d[0], d[1]
				eq, lt, gt := x.Equals(y), x.LessThan(y), x.GreaterThan(y)
				if f := wf.CheckAll(eq, lt, gt); f != nil {
					return f
				}
				for _, r := range []cty.Value{eq, lt, gt} {
					if !r.IsKnown() || r.IsNull() || r.IsMarked() || !r.Type().Equals(cty.Bool) {
						return facet.Failf("trichotomy-not-known", "comparison of two known numbers is %#v (%#v vs %#v)", r, x, y)
					}
				}
				n := 0
				for _, r := range []cty.Value{eq, lt, gt} {
					if r.True() {
						n++
					}
				}
				if n != 1 {
					return facet.Failf("trichotomy", "%s vs %s: Equals=%t LessThan=%t GreaterThan=%t (exactly one must hold)", p.A, p.B, eq.True(), lt.True(), gt.True()).
						With("eq", fmt.Sprint(eq.True())).With("lt", fmt.Sprint(lt.True())).With("gt", fmt.Sprint(gt.True()))
				}
			}
			// the two operand orders must mirror each other
			if a.LessThan(b).True() != b.GreaterThan(a).True() || a.GreaterThan(b).True() != b.LessThan(a).True() {
				return facet.Failf("trichotomy-mirror", "%s vs %s: a<b differs from b>a", p.A, p.B)
			}
			return nil
		},
	})

	// ------------------------------------------------------------ hash/coherent
	facet.Register(facet.F[Pair]{
		Prop: "C03", Name: "hash/coherent",
		Rule:  "pair of unmarked values of one type; whenever Equals is True (or RawEquals holds, or the reference equality holds) the two Hash results must be equal, and Hash must be a function of the value (a second build hashes alike); non-trivial when the two are equal although built by different routes (number route/precision, -0 vs 0, NFD vs NFC, set members in another order); distinct = hash of the spec pair",
		Quick: 100000, Thorough: 125000,
		Gen: func(t *rapid.T) Pair {
			o := valOpts{Null: true, Unknown: rapid.IntRange(0, 5).Draw(t, "unk") == 0}
			o.Fam = rapid.IntRange(-1, nFamilies-1).Draw(t, "family")
			a := drawVal(t, drawType(t), o)
			switch rapid.IntRange(0, 5).Draw(t, "rel") {
			case 0:
				return Pair{A: a, B: drawVal(t, a.T, o), Rel: "independent-same-type"}
			case 1:
				b, l := perturb(t, reroute(t, a))
				return Pair{A: a, B: b, Rel: "reroute+perturb:" + l}
			default:
				return Pair{A: a, B: reroute(t, reroute(t, a)), Rel: "reroute"}
			}
		},
		Check: func(c *facet.Ctx, p Pair) error { return annotate(checkHash(c, p), nil, p.A, p.B) },
	})
}

func checkHash(c *facet.Ctx, p Pair) error {
	{
		{
			if p.A.HasMarks() || p.B.HasMarks() {
				c.Skip()
				return nil
			}
			a, err1 := spec.Build(p.A)
			b, err2 := spec.Build(p.B)
			if err1 != nil || err2 != nil || !a.Type().Equals(b.Type()) {
				c.Skip()
				return nil
			}
			labelPair(c, p)
			ha, pa := safeHash(a)
			hb, pb := safeHash(b)
			if pa != nil || pb != nil {
				return facet.Failf("hash-panic", "Hash panicked on an unmarked value: %v / %v\n%#v\n%#v", pa, pb, a, b)
			}
			if h2, _ := safeHash(spec.MustBuild(p.A)); h2 != ha {
				return facet.Failf("hash-unstable", "two builds of one specification hash differently: %#v", a)
			}
			eq, pan := safeEquals(a, b)
			if pan != nil {
				return facet.Failf("equals-panic", "Equals panicked: %v\n%#v\n%#v", pan, a, b)
			}
			raw, _ := safeRawEquals(a, b)
			model := plain(p.A) && plain(p.B) && eqSpec(p.A, p.B)
			isEq := eq.IsKnown() && !eq.IsNull() && eq.True()
			if !(isEq || raw || model) {
				c.Label("not-equal")
				return nil
			}
			c.Label("equal")
			if specJSON(p.A) != specJSON(p.B) {
				c.NonTrivial()
				c.Label("equal-other-route")
			}
			if ha != hb {
				f := facet.Failf("hash-differs", "equal values hash differently (Equals=%#v RawEquals=%t reference=%t): Hash %d vs %d\n%#v\n%#v", eq, raw, model, ha, hb, a, b)
				withOrderData(f, a, b, p.A, p.B)
				return f
			}
			return nil
		}
	}
}

// NullCase is the input of eq/nulls.
type NullCase struct {
	T1     spec.T   `json:"t1"`
	Marks1 []string `json:"marks1,omitempty"`
	Other  spec.V   `json:"other"`
}

// NumPair is two number specs.
type NumPair struct {
	A spec.Num `json:"a"`
	B spec.Num `json:"b"`
}

func containsPerturb(rel string) bool {
	for i := 0; i+7 <= len(rel); i++ {
		if rel[i:i+7] == "perturb" {
			return true
		}
	}
	return false
}
