package c03

import (
	"encoding/json"
	"strings"

	"verif/harness/facet"
)

// Predicates for the known findings of C03. Each recognises one root cause.
//
// The set-order findings share a diagnosis computed by the facets themselves
// (withOrderData): two values that hold the same members (compared as sets)
// differ only in the order in which some set iterates them, and every such
// difference is classified:
//   known-ties    wholly-known members of a non-primitive type whose Hash collides
//   unknown-ties  members that are not wholly known
//   number-order  members of a set of numbers
//   derived       a compound member hashes differently from its counterpart because a set
//                 nested inside it differs in one of the ways above (accepted only with one of them)
//   unexplained   anything else (never accepted)

// failures that state "two values that should be interchangeable are not"
var orderKinds = map[string]bool{
	"equals-vs-raw": true, "hash-differs": true, "perm-order": true, "perm-rawequals": true, "perm-hash": true,
	"algebra-hash": true, "order-depends-on-route": true, "order-rawequals": true,
}

// failures that follow when a set is handed two reference-equal members that
// hash differently (they land in different buckets): accepted only when the
// input demonstrably contains such a pair ("pool-hash-incoherent") and the
// reason the pair hashes differently is itself a recorded cause
var consequenceKinds = map[string]bool{
	"set-length": true, "set-members": true, "set-duplicate": true, "set-has": true, "set-haselement": true, "wf/setdup": true,
	"perm-not-equal": true, "algebra-commutative": true, "equals-vs-model": true, "equals-vs-raw": true, "hash-differs": true,
	"perm-order": true, "perm-rawequals": true, "perm-hash": true, "algebra-hash": true, "order-depends-on-route": true, "order-rawequals": true,
}

// between: the input holds either two equal-but-not-identical numbers with a
// third strictly between them, or two numerically identical numbers that are
// not equal (which tie in the numeric order of a set of numbers).
func addCauses(out map[string]bool, diag string, between bool) bool {
	switch diag {
	case "", "same", "differs", "members-differ":
		return true
	}
	for _, c := range strings.Split(diag, "+") {
		switch c {
		case "known-ties", "unknown-ties", "capsule-ties", "derived":
			out[c] = true
		case "number-order":
			// only explained when two equal-but-not-identical numbers with a
			// third number strictly between them are present
			if !between {
				return false
			}
			out[c] = true
		default:
			return false
		}
	}
	return true
}

// orderCauses collects the recorded causes that explain the failure;
// ok=false when something is unexplained or nothing explains it.
func orderCauses(f *facet.Failure) (map[string]bool, bool) {
	if f == nil {
		return nil, false
	}
	out := map[string]bool{}
	between := f.Data["between"] == "true" || f.Data["identical-not-equal"] == "true"
	incoherent := f.Data["pool-hash-incoherent"] == "true"
	switch {
	case orderKinds[f.Kind] && f.Data["set-order"] != "" && f.Data["set-order"] != "same" && f.Data["set-order"] != "members-differ":
		if !addCauses(out, f.Data["set-order"], between) {
			return nil, false
		}
		if incoherent && !addCauses(out, f.Data["pool-order"], between) {
			return nil, false
		}
	case consequenceKinds[f.Kind] && incoherent:
		if !addCauses(out, f.Data["pool-order"], between) {
			return nil, false
		}
	default:
		return nil, false
	}
	delete(out, "derived") // a consequence, never a cause
	if len(out) == 0 {
		return nil, false
	}
	return out, true
}

func init() {
	// Equals (by decimal text) and LessThan/GreaterThan (by numeric value)
	// both hold for two non-integral numbers with the same shortest decimal
	// text that are numerically different.
	facet.RegisterKnown("c03Trichotomy", func(facetName string, raw json.RawMessage, f *facet.Failure) bool {
		if facetName != "num/trichotomy" || f == nil || f.Kind != "trichotomy" {
			return false
		}
		var p NumPair
		if json.Unmarshal(raw, &p) != nil {
			return false
		}
		if safeKey(p.A) == "!" || safeKey(p.B) == "!" {
			return false
		}
		fa, fb := p.A.Float(), p.B.Float()
		if fa.IsInf() || fb.IsInf() || fa.IsInt() || fb.IsInt() {
			return false
		}
		eq, lt, gt := f.Data["eq"] == "true", f.Data["lt"] == "true", f.Data["gt"] == "true"
		switch {
		case numText(fa) == numText(fb) && fa.Cmp(fb) != 0:
			// equal by text, ordered by value: Equals and one of LessThan/GreaterThan
			return eq && lt != gt
		case numText(fa) != numText(fb) && fa.Cmp(fb) == 0:
			// one value at two precisions: not equal by text, not ordered by value: none holds
			return !eq && !lt && !gt
		}
		return false
	})

	// A set of numbers is ordered by numeric value while membership goes by
	// decimal text: which of two equal-but-not-identical numbers the set holds
	// depends on insertion order, and a third member numerically between them
	// then changes place. Consequences: iteration order, RawEquals and Hash of
	// equal sets differ.
	facet.RegisterKnown("c03EqualNumbersOrderedApart", func(facetName string, raw json.RawMessage, f *facet.Failure) bool {
		cs, ok := orderCauses(f)
		return ok && cs["number-order"]
	})

	// Wholly-known members of a compound type whose hash bytes collide
	// (whole numbers >= 1e10 agreeing in 10 significant digits) tie in
	// setRules.Less, so they iterate in insertion order.
	facet.RegisterKnown("c03KnownTies", func(facetName string, raw json.RawMessage, f *facet.Failure) bool {
		cs, ok := orderCauses(f)
		return ok && cs["known-ties"]
	})

	// Members that are not wholly known all tie in setRules.Less.
	facet.RegisterKnown("c03UnknownTies", func(facetName string, raw json.RawMessage, f *facet.Failure) bool {
		cs, ok := orderCauses(f)
		return ok && cs["unknown-ties"]
	})

}
