package c08

import (
	"strings"

	"github.com/zclconf/go-cty/cty"

	"verif/harness/convgen/cause"
	"verif/harness/spec"
)

var (
	valsAt              = cause.ValsAt
	attrOf              = cause.AttrOf
	childIn             = cause.ChildIn
	childTgt            = cause.ChildTgt
	anyUnknownLengthSet = cause.AnyUnknownLengthSet
	setToListElemChange = cause.SetToListElemChange
	unifiedOf           = cause.UnifiedOf
)

// This file holds the root-cause analyses whose verdicts are attached to
// failures as Data["cause"]; the known-finding predicates (known.go) match on
// them. Each analysis walks the input type (and the input values found at
// each position), the target and the result type in parallel and answers
// "is every symptom explained by this one mechanism?".

// optionalExplained: every optional-attribute annotation left in the result
// type res sits inside the type of an attribute that the target declares
// optional, that was converted from a map, and whose key at least one known
// map at that position lacks (the attribute was defaulted to a null whose type
// is the target attribute's type, annotations included).
func optionalExplained(vals []cty.Value, inT, tgt *spec.T, res spec.T, explained bool) bool {
	switch res.K {
	case spec.KList, spec.KSet, spec.KMap:
		cv, _ := valsAt(vals, "e", 0, "")
		return optionalExplained(cv, childIn(inT, "e", 0, ""), childTgt(tgt, "e", 0, ""), *res.E, explained)
	case spec.KTuple:
		for i, e := range res.Elems {
			cv, _ := valsAt(vals, "i", i, "")
			if !optionalExplained(cv, childIn(inT, "i", i, ""), childTgt(tgt, "i", i, ""), e, explained) {
				return false
			}
		}
	case spec.KObject:
		for _, ra := range res.Attrs {
			if ra.Opt && !explained {
				return false
			}
			ex := explained
			cv, absent := valsAt(vals, "a", 0, ra.Name)
			if ta := attrOf(tgt, ra.Name); ta != nil && ta.Opt && inT != nil && inT.K == spec.KMap && absent {
				ex = true
			}
			if !optionalExplained(cv, childIn(inT, "a", 0, ra.Name), childTgt(tgt, "a", 0, ra.Name), ra.T, ex) {
				return false
			}
		}
	}
	return true
}

// nonconfExplained: every place where the result type res fails to conform to
// the target is an unknown list produced from a set of unknown length (a set
// holding unknown members), typed with the *input* set's element type instead
// of the target's.
func nonconfExplained(vals []cty.Value, inT, tgt *spec.T, res spec.T) bool {
	if tgt == nil {
		return false
	}
	if res.Conforms(*tgt) {
		return true
	}
	if res.K == spec.KList && tgt.K == spec.KList && inT != nil && inT.K == spec.KSet && inT.E.Equal(*res.E) && anyUnknownLengthSet(vals) {
		return true
	}
	if res.K != tgt.K {
		return false
	}
	switch res.K {
	case spec.KList, spec.KSet, spec.KMap:
		cv, _ := valsAt(vals, "e", 0, "")
		return nonconfExplained(cv, childIn(inT, "e", 0, ""), tgt.E, *res.E)
	case spec.KTuple:
		if len(res.Elems) != len(tgt.Elems) {
			return false
		}
		for i, e := range res.Elems {
			cv, _ := valsAt(vals, "i", i, "")
			if !nonconfExplained(cv, childIn(inT, "i", i, ""), &tgt.Elems[i], e) {
				return false
			}
		}
		return true
	case spec.KObject:
		if len(res.Attrs) != len(tgt.Attrs) {
			return false
		}
		for _, ra := range res.Attrs {
			ta := attrOf(tgt, ra.Name)
			if ta == nil {
				return false
			}
			cv, _ := valsAt(vals, "a", 0, ra.Name)
			if !nonconfExplained(cv, childIn(inT, "a", 0, ra.Name), &ta.T, ra.T) {
				return false
			}
		}
		return true
	}
	return false
}

// shapeMismatch mirrors the recursion of convert's dynamicReplace (the
// function that computes the result type for null/unknown inputs) over the
// input type inT and the target, and reports whether, below an optional
// attribute that is filled from a map (the one place where a conversion is
// offered although the types need not be compatible), it meets a tuple target
// whose input counterpart is not a tuple of at least that length (panic) or an
// object target whose input counterpart is neither map nor object (an empty
// object type is returned).
func shapeMismatch(inT *spec.T, tgt spec.T) bool { return shapeMis(inT, tgt, false) }

func shapeMis(inT *spec.T, tgt spec.T, under bool) bool {
	if inT == nil || inT.K == spec.KDynamic {
		return false
	}
	switch tgt.K {
	case spec.KList, spec.KSet:
		switch inT.K {
		case spec.KList, spec.KSet:
			return shapeMis(inT.E, *tgt.E, under)
		case spec.KTuple:
			// dynamicReplace descends into the unsafe unification of the
			// member types (which may be a map made from objects)
			if u := unifiedOf(inT.Elems); u != nil && shapeMis(u, *tgt.E, under) {
				return true
			}
			for i := range inT.Elems {
				if shapeMis(&inT.Elems[i], *tgt.E, under) {
					return true
				}
			}
		}
	case spec.KMap:
		switch inT.K {
		case spec.KMap:
			return shapeMis(inT.E, *tgt.E, under)
		case spec.KObject:
			if u := unifiedOf(attrTypesOf(inT)); u != nil && shapeMis(u, *tgt.E, under) {
				return true
			}
			for i := range inT.Attrs {
				if shapeMis(&inT.Attrs[i].T, *tgt.E, under) {
					return true
				}
			}
		}
	case spec.KTuple:
		if inT.K != spec.KTuple || len(inT.Elems) < len(tgt.Elems) {
			return under
		}
		for i := range tgt.Elems {
			if shapeMis(&inT.Elems[i], tgt.Elems[i], under) {
				return true
			}
		}
	case spec.KObject:
		switch inT.K {
		case spec.KObject:
			for _, ta := range tgt.Attrs {
				if ia := attrOf(inT, ta.Name); ia != nil && shapeMis(&ia.T, ta.T, under) {
					return true
				}
			}
		case spec.KMap:
			for _, ta := range tgt.Attrs {
				if shapeMis(inT.E, ta.T, under || ta.Opt) {
					return true
				}
			}
		default:
			return under
		}
	}
	return false
}

func attrTypesOf(t *spec.T) []spec.T {
	out := make([]spec.T, len(t.Attrs))
	for i, a := range t.Attrs {
		out[i] = a.T
	}
	return out
}

// typeDiffFanIn: the abstract result type ar and the concrete result type cr
// differ only below a collection that is made from the members of a tuple or
// the attributes of an object (>= 2 members) and whose target element type
// contains a nested placeholder: for unknown/null inputs the library predicts
// the element type by unifying the member types as wholes (unsafe mode),
// while the conversion itself converts member by member and unifies the
// results, which can settle on another element type.
func typeDiffFanIn(ins []spec.T, tgt *spec.T, ar, cr spec.T) bool {
	if ar.Equal(cr) {
		return true
	}
	if ar.K != cr.K {
		return false
	}
	switch ar.K {
	case spec.KList, spec.KSet, spec.KMap:
		if tgt != nil && tgt.IsColl() && tgt.E.K != spec.KDynamic && tgt.E.HasDynamic() {
			for _, in := range ins {
				if ar.K == spec.KMap && in.K == spec.KObject && len(in.Attrs) >= 2 {
					return true
				}
				if ar.K != spec.KMap && in.K == spec.KTuple && len(in.Elems) >= 2 {
					return true
				}
			}
		}
		return typeDiffFanIn(childIns(ins, "e", 0, ""), childTgt(tgt, "e", 0, ""), *ar.E, *cr.E)
	case spec.KTuple:
		if len(ar.Elems) != len(cr.Elems) {
			return false
		}
		for i := range ar.Elems {
			if !typeDiffFanIn(childIns(ins, "i", i, ""), childTgt(tgt, "i", i, ""), ar.Elems[i], cr.Elems[i]) {
				return false
			}
		}
		return true
	case spec.KObject:
		if len(ar.Attrs) != len(cr.Attrs) {
			return false
		}
		for _, aa := range ar.Attrs {
			ca := attrOf(&cr, aa.Name)
			if ca == nil {
				return false
			}
			if !typeDiffFanIn(childIns(ins, "a", 0, aa.Name), childTgt(tgt, "a", 0, aa.Name), aa.T, ca.T) {
				return false
			}
		}
		return true
	}
	return false
}

// containsNegZero reports whether a negative zero number occurs in v.
func containsNegZero(v cty.Value) bool {
	found := false
	_ = cty.Walk(v, func(_ cty.Path, x cty.Value) (bool, error) {
		x, _ = x.Unmark()
		if x.Type() == cty.Number && x.IsKnown() && !x.IsNull() {
			if f := x.AsBigFloat(); f.Sign() == 0 && f.Signbit() {
				found = true
			}
		}
		return true, nil
	})
	return found
}

// containsString reports whether the known string s occurs in v.
func containsString(v cty.Value, s string) bool {
	found := false
	_ = cty.Walk(v, func(_ cty.Path, x cty.Value) (bool, error) {
		x, _ = x.Unmark()
		if x.Type() == cty.String && x.IsKnown() && !x.IsNull() && x.AsString() == s {
			found = true
		}
		return true, nil
	})
	return found
}

// typeDiffUnderEmpty: the abstract result type ar and the concrete result type
// cr differ only in that cr keeps a placeholder below a collection that is
// known and empty in the concrete input (vals), where ar has a resolved type:
// the library resolves placeholders from the input type for unknown inputs
// but not for empty collections.
func typeDiffUnderEmpty(vals []cty.Value, ar, cr spec.T, under bool) bool {
	if ar.Equal(cr) {
		return true
	}
	if cr.K == spec.KDynamic {
		return under
	}
	if ar.K != cr.K {
		return false
	}
	switch cr.K {
	case spec.KList, spec.KSet, spec.KMap:
		for _, v := range vals {
			v, _ = v.Unmark()
			if v.IsKnown() && !v.IsNull() && v.Type().IsCollectionType() && v.LengthInt() == 0 {
				under = true
			}
		}
		cv, _ := valsAt(vals, "e", 0, "")
		return typeDiffUnderEmpty(cv, *ar.E, *cr.E, under)
	case spec.KTuple:
		if len(ar.Elems) != len(cr.Elems) {
			return false
		}
		for i := range cr.Elems {
			cv, _ := valsAt(vals, "i", i, "")
			if !typeDiffUnderEmpty(cv, ar.Elems[i], cr.Elems[i], under) {
				return false
			}
		}
		return true
	case spec.KObject:
		if len(ar.Attrs) != len(cr.Attrs) {
			return false
		}
		for _, ca := range cr.Attrs {
			aa := attrOf(&ar, ca.Name)
			if aa == nil {
				return false
			}
			cv, _ := valsAt(vals, "a", 0, ca.Name)
			if !typeDiffUnderEmpty(cv, aa.T, ca.T, under) {
				return false
			}
		}
		return true
	}
	return false
}

// unknownMapToOptDyn: somewhere an unknown (not null) map value is converted
// to an object type that has an optional attribute whose type contains a
// placeholder.
func unknownMapToOptDyn(vals []cty.Value, inT *spec.T, tgt spec.T) bool {
	if inT == nil {
		return false
	}
	if inT.K == spec.KMap && tgt.K == spec.KObject {
		opt := false
		for _, ta := range tgt.Attrs {
			if ta.Opt && ta.T.HasDynamic() {
				opt = true
			}
		}
		if opt {
			for _, v := range vals {
				v, _ = v.Unmark()
				if !v.IsKnown() && v.Type().IsMapType() {
					return true
				}
			}
		}
	}
	switch tgt.K {
	case spec.KList, spec.KSet, spec.KMap:
		cv, _ := valsAt(vals, "e", 0, "")
		switch inT.K {
		case spec.KList, spec.KSet, spec.KMap:
			return unknownMapToOptDyn(cv, inT.E, *tgt.E)
		case spec.KTuple:
			for i := range inT.Elems {
				if unknownMapToOptDyn(cv, &inT.Elems[i], *tgt.E) {
					return true
				}
			}
		case spec.KObject:
			for i := range inT.Attrs {
				if unknownMapToOptDyn(cv, &inT.Attrs[i].T, *tgt.E) {
					return true
				}
			}
		}
	case spec.KTuple:
		for i := range tgt.Elems {
			cv, _ := valsAt(vals, "i", i, "")
			if unknownMapToOptDyn(cv, childIn(inT, "i", i, ""), tgt.Elems[i]) {
				return true
			}
		}
	case spec.KObject:
		for _, ta := range tgt.Attrs {
			cv, _ := valsAt(vals, "a", 0, ta.Name)
			if unknownMapToOptDyn(cv, childIn(inT, "a", 0, ta.Name), ta.T) {
				return true
			}
		}
	}
	return false
}

// errorCause classifies a conversion error that the property forbids (a safe
// conversion failing, an abstract input failing where its concretisation
// converts) by root cause.
func errorCause(err error, in cty.Value, target spec.T) string {
	if err == nil {
		return ""
	}
	msg := err.Error()
	if !strings.Contains(msg, "types must all match") && !strings.Contains(msg, "cannot find a common base type") {
		return ""
	}
	it := spec.FromCty(in.Type())
	vals := []cty.Value{in}
	switch {
	case setToListElemChange(vals, &it, target):
		return causeUnknownSetToList
	case unknownMapToOptDyn(vals, &it, target):
		return causeUnknownMapOptDyn
	case !in.IsWhollyKnown() && shapeMismatch(&it, target):
		return causeShapeMismatch
	case !in.IsWhollyKnown() && emptyToNestedPlaceholder(vals, &it, target):
		return causeEmptyCollection
	}
	return ""
}

// emptyToNestedPlaceholder: somewhere a known empty collection is converted
// to a collection type whose element type contains a nested placeholder: the
// library keeps that placeholder for the empty collection but resolves it
// from the input type for an unknown or null sibling, so the siblings of an
// enclosing collection end up with different types.
func emptyToNestedPlaceholder(vals []cty.Value, inT *spec.T, tgt spec.T) bool {
	if inT == nil {
		return false
	}
	if inT.IsColl() && tgt.IsColl() && tgt.E.K != spec.KDynamic && tgt.E.HasDynamic() {
		for _, v := range vals {
			v, _ = v.Unmark()
			if v.IsKnown() && !v.IsNull() && v.Type().IsCollectionType() && v.LengthInt() == 0 {
				return true
			}
		}
	}
	switch tgt.K {
	case spec.KList, spec.KSet, spec.KMap:
		cv, _ := valsAt(vals, "e", 0, "")
		switch inT.K {
		case spec.KList, spec.KSet, spec.KMap:
			return emptyToNestedPlaceholder(cv, inT.E, *tgt.E)
		case spec.KTuple:
			for i := range inT.Elems {
				if emptyToNestedPlaceholder(cv, &inT.Elems[i], *tgt.E) {
					return true
				}
			}
		case spec.KObject:
			for i := range inT.Attrs {
				if emptyToNestedPlaceholder(cv, &inT.Attrs[i].T, *tgt.E) {
					return true
				}
			}
		}
	case spec.KTuple:
		for i := range tgt.Elems {
			cv, _ := valsAt(vals, "i", i, "")
			if emptyToNestedPlaceholder(cv, childIn(inT, "i", i, ""), tgt.Elems[i]) {
				return true
			}
		}
	case spec.KObject:
		for _, ta := range tgt.Attrs {
			cv, _ := valsAt(vals, "a", 0, ta.Name)
			if emptyToNestedPlaceholder(cv, childIn(inT, "a", 0, ta.Name), ta.T) {
				return true
			}
		}
	}
	return false
}

// childIns is childIn over several input types at once; stepping into the
// members of a collection result also descends into the members of tuples and
// the attributes of objects (structural inputs converted to collections).
func childIns(ins []spec.T, kind string, idx int, name string) []spec.T {
	var out []spec.T
	for i := range ins {
		in := &ins[i]
		if kind == "e" {
			switch in.K {
			case spec.KTuple:
				out = append(out, in.Elems...)
				continue
			case spec.KObject:
				for _, a := range in.Attrs {
					out = append(out, a.T)
				}
				continue
			}
		}
		if c := childIn(in, kind, idx, name); c != nil {
			out = append(out, *c)
		}
	}
	return out
}

// typeDiffExplained: the abstract result type ar and the concrete result type
// cr differ only below attributes that the target declares optional with a
// type containing a placeholder and that are filled from a map: for an
// unknown map the library predicts the attribute's type from the map's element
// type, while a concrete map lacking the key yields a null of the target's
// (placeholder) type. ins are the input types corresponding to this position.
func typeDiffExplained(ins []spec.T, tgt *spec.T, ar, cr spec.T) bool {
	if ar.Equal(cr) {
		return true
	}
	if ar.K != cr.K {
		return false
	}
	switch ar.K {
	case spec.KList, spec.KSet, spec.KMap:
		return typeDiffExplained(childIns(ins, "e", 0, ""), childTgt(tgt, "e", 0, ""), *ar.E, *cr.E)
	case spec.KTuple:
		if len(ar.Elems) != len(cr.Elems) {
			return false
		}
		for i := range ar.Elems {
			if !typeDiffExplained(childIns(ins, "i", i, ""), childTgt(tgt, "i", i, ""), ar.Elems[i], cr.Elems[i]) {
				return false
			}
		}
		return true
	case spec.KObject:
		if len(ar.Attrs) != len(cr.Attrs) {
			return false
		}
		fromMap := false
		for _, in := range ins {
			if in.K == spec.KMap {
				fromMap = true
			}
		}
		for _, aa := range ar.Attrs {
			ca := attrOf(&cr, aa.Name)
			if ca == nil {
				return false
			}
			if ta := attrOf(tgt, aa.Name); ta != nil && ta.Opt && ta.T.HasDynamic() && fromMap {
				continue
			}
			if !typeDiffExplained(childIns(ins, "a", 0, aa.Name), childTgt(tgt, "a", 0, aa.Name), aa.T, ca.T) {
				return false
			}
		}
		return true
	}
	return false
}
