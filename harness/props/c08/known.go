package c08

import (
	"encoding/json"
	"math/big"

	"verif/harness/facet"
	"verif/harness/spec"
)

// Known-finding predicates. Each recognises one root cause through the
// "cause" the check attached after analysing the failing case (causes.go), or
// by recomputing the cause from the input.

func causeIs(kind, cause string) facet.KnownPredicate {
	return func(facetName string, raw json.RawMessage, f *facet.Failure) bool {
		return f != nil && f.Kind == kind && f.Data["cause"] == cause
	}
}

func init() {
	facet.RegisterKnown("c08MapObjectDefaultKeepsOptional", causeIs("optional-left", causeMapObjectDefault))
	facet.RegisterKnown("c08UnknownSetToListElementType", func(facetName string, raw json.RawMessage, f *facet.Failure) bool {
		return f != nil && (f.Kind == "nonconformant" || f.Kind == "abstract-fails" || f.Kind == "safe-fails") && f.Data["cause"] == causeUnknownSetToList
	})
	facet.RegisterKnown("c08EmptyCollectionNestedPlaceholder", func(facetName string, raw json.RawMessage, f *facet.Failure) bool {
		return f != nil && (f.Kind == "dynamic-leak" || f.Kind == "admits/type") && f.Data["cause"] == causeEmptyCollection
	})
	facet.RegisterKnown("c08NullMemberMarksDropped", causeIs("idempotent-changed", causeNullMemberMarks))
	facet.RegisterKnown("c08UnknownMapOptionalPlaceholder", func(facetName string, raw json.RawMessage, f *facet.Failure) bool {
		return f != nil && (f.Kind == "admits/type" || f.Kind == "abstract-fails") && f.Data["cause"] == causeUnknownMapOptDyn
	})
	facet.RegisterKnown("c08DynamicReplaceShapeMismatch", func(facetName string, raw json.RawMessage, f *facet.Failure) bool {
		return f != nil && (f.Kind == "panic" || f.Kind == "nonconformant") && f.Data["cause"] == causeShapeMismatch
	})
	// number -> string uses the shortest decimal text that identifies the
	// number at its own precision; for a whole number held at low precision
	// (float64-derived >= 2^53, or a low-precision big.Float) that text
	// denotes a different integer, and whole numbers are compared exactly.
	facet.RegisterKnown("c08WholeNumberShortestText", func(facetName string, raw json.RawMessage, f *facet.Failure) bool {
		if f == nil || f.Kind != "roundtrip-number" || facetName != "roundtrip/number-string" {
			return false
		}
		var n spec.Num
		if json.Unmarshal(raw, &n) != nil {
			return false
		}
		x := n.Float()
		if x.IsInf() || !x.IsInt() {
			return false
		}
		back, _, err := big.ParseFloat(x.Text('f', -1), 10, 512, big.ToNearestEven)
		return err == nil && back.IsInt() && back.Cmp(x) != 0
	})
}
