package c08

import (
	"encoding/json"
	"math/big"

	"verif/harness/facet"
	"verif/harness/spec"
)

// Known-finding predicates. Each recognises one root cause through the
// "cause" the check attached after analysing the failing case (causes.go), or
// by recomputing the cause from the input.

func causeIs(kind, cause string) facet.KnownPredicate {
	return func(facetName string, raw json.RawMessage, f *facet.Failure) bool {
		return f != nil && f.Kind == kind && f.Data["cause"] == cause
	}
}

func init() {
	facet.RegisterKnown("c08MapObjectDefaultKeepsOptional", causeIs("optional-left", causeMapObjectDefault))
	facet.RegisterKnown("c08UnknownSetToListElementType", func(facetName string, raw json.RawMessage, f *facet.Failure) bool {
		return f != nil && (f.Kind == "nonconformant" || f.Kind == "abstract-fails" || f.Kind == "safe-fails") && f.Data["cause"] == causeUnknownSetToList
	})
	facet.RegisterKnown("c08EmptyCollectionNestedPlaceholder", func(facetName string, raw json.RawMessage, f *facet.Failure) bool {
		return f != nil && (f.Kind == "dynamic-leak" || f.Kind == "admits/type" || f.Kind == "abstract-fails") && f.Data["cause"] == causeEmptyCollection
	})
	facet.RegisterKnown("c08FanInTypePrediction", causeIs("admits/type", causeFanInPrediction))
	facet.RegisterKnown("c08NegativeZeroString", causeIs("admits/known-differs", causeNegZeroString))
	facet.RegisterKnown("c08NullMemberMarksDropped", causeIs("idempotent-changed", causeNullMemberMarks))
	facet.RegisterKnown("c08UnknownMapOptionalPlaceholder", func(facetName string, raw json.RawMessage, f *facet.Failure) bool {
		return f != nil && (f.Kind == "admits/type" || f.Kind == "abstract-fails") && f.Data["cause"] == causeUnknownMapOptDyn
	})
	facet.RegisterKnown("c08DynamicReplaceShapeMismatch", func(facetName string, raw json.RawMessage, f *facet.Failure) bool {
		return f != nil && (f.Kind == "panic" || f.Kind == "nonconformant" || f.Kind == "abstract-fails" || f.Kind == "safe-fails") && f.Data["cause"] == causeShapeMismatch
	})
	// In unsafe mode the unification behind "convert a tuple/object to a
	// collection of placeholder element type" resolves nested placeholders
	// optimistically to a neighbour's type and can then fail where the safe
	// unification (which keeps the placeholder) succeeds, so a conversion is
	// offered by GetConversion but not by GetConversionUnsafe.
	facet.RegisterKnown("c08SafeNotUnsafePlaceholderUnification", func(facetName string, raw json.RawMessage, f *facet.Failure) bool {
		if f == nil || f.Kind != "safe-not-unsafe" || facetName != "safe-implies-unsafe" {
			return false
		}
		var p TypePair
		if json.Unmarshal(raw, &p) != nil {
			return false
		}
		return p.S.HasDynamic() && hasDynamicCollectionElement(p.T) && structuralToDynamicCollection(p.S, p.T)
	})
	// number -> string uses the shortest decimal text that identifies the
	// number at its own precision; for a whole number held at low precision
	// (float64-derived >= 2^53, or a low-precision big.Float) that text
	// denotes a different integer, and whole numbers are compared exactly.
	facet.RegisterKnown("c08WholeNumberShortestText", func(facetName string, raw json.RawMessage, f *facet.Failure) bool {
		if f == nil || f.Kind != "roundtrip-number" || facetName != "roundtrip/number-string" {
			return false
		}
		var n spec.Num
		if json.Unmarshal(raw, &n) != nil {
			return false
		}
		x := n.Float()
		if x.IsInf() || !x.IsInt() {
			return false
		}
		back, _, err := big.ParseFloat(x.Text('f', -1), 10, 512, big.ToNearestEven)
		return err == nil && back.IsInt() && back.Cmp(x) != 0
	})
}

// hasDynamicCollectionElement: some list/set/map in t has the placeholder as
// its element type.
func hasDynamicCollectionElement(t spec.T) bool {
	switch t.K {
	case spec.KList, spec.KSet, spec.KMap:
		return t.E.K == spec.KDynamic || hasDynamicCollectionElement(*t.E)
	case spec.KTuple:
		for _, e := range t.Elems {
			if hasDynamicCollectionElement(e) {
				return true
			}
		}
	case spec.KObject:
		for _, a := range t.Attrs {
			if hasDynamicCollectionElement(a.T) {
				return true
			}
		}
	}
	return false
}

// structuralToDynamicCollection: somewhere a tuple or object of the source,
// with a placeholder nested inside it, is converted to a collection whose
// element type is the placeholder (the conversion that unifies member types).
func structuralToDynamicCollection(s, t spec.T) bool {
	switch t.K {
	case spec.KList, spec.KSet:
		if s.K == spec.KTuple && t.E.K == spec.KDynamic && s.HasDynamic() {
			return true
		}
		switch s.K {
		case spec.KList, spec.KSet:
			return structuralToDynamicCollection(*s.E, *t.E)
		case spec.KTuple:
			for _, e := range s.Elems {
				if structuralToDynamicCollection(e, *t.E) {
					return true
				}
			}
		}
	case spec.KMap:
		if s.K == spec.KObject && t.E.K == spec.KDynamic && s.HasDynamic() {
			return true
		}
		switch s.K {
		case spec.KMap:
			return structuralToDynamicCollection(*s.E, *t.E)
		case spec.KObject:
			for _, a := range s.Attrs {
				if structuralToDynamicCollection(a.T, *t.E) {
					return true
				}
			}
		}
	case spec.KTuple:
		if s.K == spec.KTuple && len(s.Elems) == len(t.Elems) {
			for i := range t.Elems {
				if structuralToDynamicCollection(s.Elems[i], t.Elems[i]) {
					return true
				}
			}
		}
	case spec.KObject:
		for _, ta := range t.Attrs {
			switch s.K {
			case spec.KObject:
				for _, sa := range s.Attrs {
					if spec.NFC(sa.Name) == spec.NFC(ta.Name) && structuralToDynamicCollection(sa.T, ta.T) {
						return true
					}
				}
			case spec.KMap:
				if structuralToDynamicCollection(*s.E, ta.T) {
					return true
				}
			}
		}
	}
	return false
}
