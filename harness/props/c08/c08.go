// Package c08: type conversion is conformant, total where safe, idempotent,
// never panics (DESIGN.md section 5, C08).
package c08

import (
	"fmt"
	"hash/fnv"
	"strings"

	"github.com/zclconf/go-cty/cty"
	"github.com/zclconf/go-cty/cty/convert"
	"pgregory.net/rapid"

	"verif/harness/convgen"
	"verif/harness/convgen/cause"
	"verif/harness/facet"
	"verif/harness/gen"
	"verif/harness/model"
	"verif/harness/spec"
	"verif/harness/wf"
)

// ---------------------------------------------------------------- calling the library

type outcome struct {
	v   cty.Value
	err error
	pan string // non-empty when the call panicked
}

func guarded(f func() (cty.Value, error)) (o outcome) {
	defer func() {
		if r := recover(); r != nil {
			o.pan = fmt.Sprint(r)
		}
	}()
	o.v, o.err = f()
	return
}

func doConvert(in cty.Value, ty cty.Type) outcome {
	return guarded(func() (cty.Value, error) { return convert.Convert(in, ty) })
}

// getConv looks a conversion up (safe or unsafe); pan is non-empty when the
// lookup itself panicked.
func getConv(in, out cty.Type, unsafe bool) (conv convert.Conversion, pan string) {
	// For half of the type pairs (chosen by a hash of the pair: a pure function
	// of the input) the OTHER mode is looked up first and discarded: what one
	// mode offers must not depend on what was asked before.
	h := fnv.New32a()
	h.Write([]byte(in.GoString()))
	h.Write([]byte{0})
	h.Write([]byte(out.GoString()))
	if h.Sum32()&1 == 1 {
		func() {
			defer func() { _ = recover() }()
			if unsafe {
				convert.GetConversion(in, out)
			} else {
				convert.GetConversionUnsafe(in, out)
			}
		}()
	}
	defer func() {
		if r := recover(); r != nil {
			pan = fmt.Sprint(r)
		}
	}()
	if unsafe {
		return convert.GetConversionUnsafe(in, out), ""
	}
	return convert.GetConversion(in, out), ""
}

func panicFailure(what string, o outcome, c convgen.Case) *facet.Failure {
	f := facet.Failf("panic", "%s panicked: %s (value type %s, target %s)", what, o.pan, c.V.T, c.Target).With("call", what)
	vt := c.V.T
	if (strings.Contains(o.pan, "TupleElementType on non-tuple Type") || strings.Contains(o.pan, "index out of range")) && shapeMismatch(&vt, c.Target) {
		f.With("cause", causeShapeMismatch)
	}
	return f
}

// build builds the case; ok=false means the value specification is
// inconsistent (a weakening produced a list with mixed member types): the
// case is vacuous.
func build(c convgen.Case) (in cty.Value, target cty.Type, ok bool) {
	v, err := spec.Build(c.V)
	if err != nil {
		return cty.NilVal, cty.NilType, false
	}
	return v, c.Target.Cty(), true
}

// ---------------------------------------------------------------- result oracle

// dynLeak returns the path of a dynamic placeholder in the result type res
// that the input had already resolved, or "". ins are the input types that
// correspond to the current result position (several when a tuple/object was
// turned into a collection); ok=false means "no information" (the input has a
// placeholder itself, or no counterpart, at this position). A placeholder is
// reported only if every corresponding input position exists, is resolved,
// and all of them are resolved to the same type.
// vals are the input values at this position; the second result reports
// whether the placeholder sits below a collection that is known and empty in
// the input (used for root-cause classification only).
func dynLeak(vals []cty.Value, ins []spec.T, ok bool, tgt *spec.T, res spec.T, path string, under bool) (string, bool) {
	if res.K == spec.KDynamic {
		if !ok || len(ins) == 0 {
			return "", false
		}
		for _, in := range ins {
			if in.K == spec.KDynamic {
				return "", false
			}
			// several input positions feed this one (tuple/object turned into a
			// collection): only when they agree is there one type the input
			// has resolved the placeholder to
			if !in.Equal(ins[0]) {
				return "", false
			}
		}
		if path == "" {
			return "(root)", under
		}
		return path, under
	}
	var next []spec.T
	switch res.K {
	case spec.KList, spec.KSet, spec.KMap:
		for _, v := range vals {
			v, _ = v.Unmark()
			if v.IsKnown() && !v.IsNull() && v.Type().IsCollectionType() && v.LengthInt() == 0 {
				under = true
			}
		}
		for _, in := range ins {
			switch {
			case res.K != spec.KMap && (in.K == spec.KList || in.K == spec.KSet):
				next = append(next, *in.E)
			case res.K != spec.KMap && in.K == spec.KTuple:
				next = append(next, in.Elems...)
			case res.K == spec.KMap && in.K == spec.KMap:
				next = append(next, *in.E)
			case res.K == spec.KMap && in.K == spec.KObject:
				for _, a := range in.Attrs {
					next = append(next, a.T)
				}
			default:
				ok = false
			}
		}
		var te *spec.T
		if tgt != nil && tgt.K == res.K {
			te = tgt.E
		}
		cv, _ := valsAt(vals, "e", 0, "")
		seg := "[]"
		if res.K == spec.KMap {
			seg = "{}"
		}
		return dynLeak(cv, next, ok, te, *res.E, path+seg, under)
	case spec.KTuple:
		for i, re := range res.Elems {
			var nx []spec.T
			nok := ok
			for _, in := range ins {
				if in.K == spec.KTuple && len(in.Elems) == len(res.Elems) {
					nx = append(nx, in.Elems[i])
				} else {
					nok = false
				}
			}
			var te *spec.T
			if tgt != nil && tgt.K == spec.KTuple && len(tgt.Elems) == len(res.Elems) {
				te = &tgt.Elems[i]
			}
			cv, _ := valsAt(vals, "i", i, "")
			if p, u := dynLeak(cv, nx, nok, te, re, fmt.Sprintf("%s[%d]", path, i), under); p != "" {
				return p, u
			}
		}
	case spec.KObject:
		for _, ra := range res.Attrs {
			var nx []spec.T
			nok := ok
			ta := attrOf(tgt, ra.Name)
			for _, in := range ins {
				switch in.K {
				case spec.KObject:
					if ia := attrOf(&in, ra.Name); ia != nil {
						nx = append(nx, ia.T)
					} else {
						nok = false // defaulted optional attribute: nothing resolved it
					}
				case spec.KMap:
					// a required attribute is always taken from a map element;
					// an optional one may have been defaulted
					if ta != nil && !ta.Opt {
						nx = append(nx, *in.E)
					} else {
						nok = false
					}
				default:
					nok = false
				}
			}
			var te *spec.T
			if ta != nil {
				te = &ta.T
			}
			cv, _ := valsAt(vals, "a", 0, ra.Name)
			if p, u := dynLeak(cv, nx, nok, te, ra.T, path+"."+ra.Name, under); p != "" {
				return p, u
			}
		}
	}
	return "", false
}

// checkResult is oracle (2): the successful result res of converting in to
// target conforms to target, carries no optional-attribute annotations, has a
// placeholder only where the input was dynamically typed, and is well-formed.
func checkResult(in cty.Value, target spec.T, res cty.Value) *facet.Failure {
	if res == cty.NilVal {
		return facet.Failf("nil-result", "conversion reported success but returned NilVal (target %s)", target)
	}
	rt := spec.FromCty(res.Type())
	it := spec.FromCty(in.Type())
	tg := target
	vals := []cty.Value{in}
	if rt.HasOptional() {
		f := facet.Failf("optional-left", "result type %s carries optional-attribute annotations (input %#v, target %s)", rt, in, target).
			With("restype", rt.String())
		if optionalExplained(vals, &it, &tg, rt, false) {
			f.With("cause", causeMapObjectDefault)
		}
		return f
	}
	if !rt.Conforms(target) {
		f := facet.Failf("nonconformant", "result type %s does not conform to target %s (input %#v)", rt, target, in)
		switch {
		case nonconfExplained(vals, &it, &tg, rt), setToListElemChange(vals, &it, target):
			f.With("cause", causeUnknownSetToList)
		case shapeMismatch(&it, target):
			f.With("cause", causeShapeMismatch)
		}
		return f
	}
	if p, under := dynLeak(vals, []spec.T{it}, true, &tg, rt, "", false); p != "" {
		f := facet.Failf("dynamic-leak", "result type %s has a placeholder at %s although the input type %s is resolved there (input %#v, target %s)", rt, p, it, in, target).
			With("path", p)
		if under {
			f.With("cause", causeEmptyCollection)
		}
		return f
	}
	if f := wf.Check(res); f != nil {
		return f
	}
	return nil
}

// root causes of findings on the unchanged tree (see known.go)
const (
	causeMapObjectDefault = "map-to-object: defaulted optional attribute keeps the annotations of its type"
	causeUnknownSetToList = cause.UnknownSetToList
	causeShapeMismatch    = "null/unknown map to object with an optional attribute of incompatible shape"
	causeEmptyCollection  = "empty collection: nested placeholder of the target element type kept"
	causeNullMemberMarks  = "collection/object conversion drops the marks of a null member"
	causeFanInPrediction  = "unknown/null tuple or object to collection with nested placeholder: element type predicted by whole-member unsafe unification"
	causeNegZeroString    = "number to string renders negative zero as -0"
	causeUnknownMapOptDyn = "unknown map to object: type of an optional placeholder attribute predicted from the element type"
)

// ---------------------------------------------------------------- classification

func flavour(v spec.V) string {
	switch {
	case v.St == spec.Null:
		return "root-null"
	case v.St == spec.Unknown && v.T.K == spec.KDynamic:
		return "root-dynamicval"
	case v.St == spec.Unknown && v.Ref != nil:
		return "root-unknown-refined"
	case v.St == spec.Unknown:
		return "root-unknown"
	case !v.WhollyKnown():
		return "nested-unknown"
	case v.HasNullInside():
		return "nested-null"
	}
	return "known"
}

func hasEmptyColl(v spec.V) bool {
	if v.St == spec.Known && v.T.IsColl() && len(v.Elems) == 0 {
		return true
	}
	for _, e := range v.Elems {
		if hasEmptyColl(e) {
			return true
		}
	}
	return false
}

func classify(c *facet.Ctx, cs convgen.Case, converted bool) {
	for _, e := range cs.Edits {
		c.Label("edit=" + e)
	}
	c.Label("value=" + flavour(cs.V))
	if cs.V.HasMarks() {
		c.Label("marked")
	}
	if hasEmptyColl(cs.V) {
		c.Label("empty-collection")
	}
	if cs.Target.HasOptional() {
		c.Label("target-optional")
	}
	if cs.Target.HasDynamic() {
		c.Label("target-dynamic")
	}
	if converted {
		c.Label("outcome=converted")
		if !cs.V.T.Equal(cs.Target) {
			c.NonTrivial()
		}
	} else {
		c.Label("outcome=error")
	}
}

const ntRule = "target differs from the value's type in at least one position and the conversion succeeds; distinct = hash of the JSON of (value spec, target spec)"

var (
	fullVals = gen.ValOpts{Null: true, Unknown: true, Marks: true, Long: 24, ExtremeNums: true}
	baseOpts = convgen.Opts{Type: gen.TypeOpts{Depth: 2, Dynamic: true, Long: 12}, Val: fullVals}
	capsOpts = convgen.Opts{Type: gen.TypeOpts{Depth: 2, Dynamic: true, Capsule: true, Long: 12}, Val: fullVals}
)

func genCase(o convgen.Opts) func(t *rapid.T) convgen.Case {
	return func(t *rapid.T) convgen.Case { return convgen.Pair(o).Draw(t, "case") }
}

// ---------------------------------------------------------------- inputs of the special facets

// SoundIn is the input of unknown-null/sound: a wholly-known concrete case and
// an abstract value that admits the concrete one.
type SoundIn struct {
	C     convgen.Case `json:"c"`
	A     spec.V       `json:"a"`
	Kinds []string     `json:"kinds"`
}

// TotalIn is the input of safe/total: a case plus further values of the same type.
type TotalIn struct {
	C    convgen.Case `json:"c"`
	More []spec.V     `json:"more"`
}

// TypePair is a pair of types.
type TypePair struct {
	S   spec.T   `json:"s"`
	T   spec.T   `json:"t"`
	Rel []string `json:"rel"`
}

// RTIn is the input of the structural round-trip facets: a value and the
// intermediate type; the way back targets the value's own type.
type RTIn struct {
	V   spec.V `json:"v"`
	Mid spec.T `json:"mid"`
}

func init() {
	// ------------------------------------------------------------ nopanic
	facet.Register(facet.F[convgen.Case]{
		Prop: "C08", Name: "nopanic",
		Rule:  ntRule + "; capsule types included; every call (Convert, GetConversion, GetConversionUnsafe and the returned functions) runs under recover",
		Quick: 120000, Thorough: 500000,
		Gen: genCase(capsOpts),
		Check: func(c *facet.Ctx, cs convgen.Case) error {
			in, target, ok := build(cs)
			if !ok {
				c.Skip()
				return nil
			}
			o := doConvert(in, target)
			if o.pan != "" {
				return panicFailure("Convert", o, cs)
			}
			for _, unsafe := range []bool{false, true} {
				name := "GetConversion"
				if unsafe {
					name = "GetConversionUnsafe"
				}
				conv, pan := getConv(in.Type(), target, unsafe)
				if pan != "" {
					return panicFailure(name, outcome{pan: pan}, cs)
				}
				if conv == nil {
					continue
				}
				c.Label("offered:" + name)
				r := guarded(func() (cty.Value, error) { return conv(in) })
				if r.pan != "" {
					return panicFailure("conversion returned by "+name, r, cs)
				}
			}
			classify(c, cs, o.err == nil)
			return nil
		},
	})

	// ------------------------------------------------------------ conformant
	facet.Register(facet.F[convgen.Case]{
		Prop: "C08", Name: "conformant", Rule: ntRule,
		Quick: 120000, Thorough: 500000,
		Gen: genCase(baseOpts),
		Check: func(c *facet.Ctx, cs convgen.Case) error {
			in, target, ok := build(cs)
			if !ok {
				c.Skip()
				return nil
			}
			o := doConvert(in, target)
			if o.pan != "" {
				return panicFailure("Convert", o, cs)
			}
			classify(c, cs, o.err == nil)
			if o.err != nil {
				return nil
			}
			if f := checkResult(in, cs.Target, o.v); f != nil {
				return f
			}
			// the same for the safe conversion, when offered
			if conv, pan := getConv(in.Type(), target, false); pan == "" && conv != nil {
				r := guarded(func() (cty.Value, error) { return conv(in) })
				if r.pan == "" && r.err == nil {
					c.Label("safe-checked")
					if f := checkResult(in, cs.Target, r.v); f != nil {
						return f.With("mode", "safe")
					}
				}
			}
			return nil
		},
	})

	// ------------------------------------------------------------ identity
	idOpts := baseOpts
	idOpts.SameShare = 100
	facet.Register(facet.F[convgen.Case]{
		Prop: "C08", Name: "identity",
		Rule:  "target = the value's own type, half of the time with optional markers put on existing attributes; non-trivial when the value is compound, null, unknown or marked; distinct = hash of the case JSON",
		Quick: 80000, Thorough: 300000,
		Gen: genCase(idOpts),
		Check: func(c *facet.Ctx, cs convgen.Case) error {
			in, target, ok := build(cs)
			if !ok {
				c.Skip()
				return nil
			}
			if !spec.FromCty(in.Type()).Equal(cs.Target.StripOptional()) {
				c.Skip() // spec type and built type disagree: not an identity request
				return nil
			}
			c.Label("value=" + flavour(cs.V))
			if cs.Target.HasOptional() {
				c.Label("target-optional")
			}
			if cs.V.T.Depth() >= 1 || cs.V.St != spec.Known || cs.V.HasMarks() {
				c.NonTrivial()
			}
			o := doConvert(in, target)
			if o.pan != "" {
				return panicFailure("Convert", o, cs)
			}
			if o.err != nil {
				return facet.Failf("identity-error", "converting a value of type %s to its own type %s failed: %v", cs.V.T, cs.Target, o.err)
			}
			if !o.v.RawEquals(in) || !o.v.Type().Equals(in.Type()) {
				return facet.Failf("identity-changed", "converting %#v to its own type %s gave %#v", in, cs.Target, o.v)
			}
			if cty.VerifFingerprint(o.v) != cty.VerifFingerprint(in) {
				return facet.Failf("identity-changed", "converting %#v to its own type changed its representation: %s vs %s", in, cty.VerifFingerprint(in), cty.VerifFingerprint(o.v))
			}
			return nil
		},
	})

	// ------------------------------------------------------------ idempotent
	facet.Register(facet.F[convgen.Case]{
		Prop: "C08", Name: "idempotent", Rule: ntRule,
		Quick: 120000, Thorough: 500000,
		Gen: genCase(baseOpts),
		Check: func(c *facet.Ctx, cs convgen.Case) error {
			in, target, ok := build(cs)
			if !ok {
				c.Skip()
				return nil
			}
			o := doConvert(in, target)
			if o.pan != "" {
				return panicFailure("Convert", o, cs)
			}
			classify(c, cs, o.err == nil)
			if o.err != nil {
				return nil
			}
			if f := checkResult(in, cs.Target, o.v); f != nil {
				return f
			}
			o2 := doConvert(o.v, target)
			if o2.pan != "" {
				return panicFailure("second Convert", o2, cs)
			}
			if o2.err != nil {
				return facet.Failf("idempotent-error", "Convert(Convert(v,T),T) failed: %v; first result %#v, target %s", o2.err, o.v, cs.Target)
			}
			if !o2.v.RawEquals(o.v) && !sameValue(o2.v, o.v) {
				f := facet.Failf("idempotent-changed", "Convert(Convert(v,T),T) = %#v differs from Convert(v,T) = %#v (target %s)", o2.v, o.v, cs.Target)
				if !o.v.IsNull() && sameExceptNullMarks(o2.v, o.v) {
					f.With("cause", causeNullMemberMarks)
				}
				return f
			}
			return nil
		},
	})

	// ------------------------------------------------------------ unknown-null/sound
	soundOpts := convgen.Opts{Type: gen.TypeOpts{Depth: 2, Dynamic: true, Long: 12}, Val: gen.ValOpts{Null: true, Simple: true, Long: 24}}
	soundOptsFull := convgen.Opts{Type: gen.TypeOpts{Depth: 2, Dynamic: true}, Val: gen.ValOpts{Null: true}}
	facet.Register(facet.F[SoundIn]{
		Prop: "C08", Name: "unknown-null/sound",
		Rule:  "a wholly-known concrete value c (nulls at any depth) and an abstract value a obtained by weakening sub-values of c to unknowns that admit them (unrefined, not-null, numeric bounds, string prefixes, length bounds, DynamicVal when the target is placeholder-free); non-trivial when something was weakened, the target differs from c's type and Convert(c) succeeds; then Convert(a) must succeed and Admits(Convert(a), Convert(c))",
		Quick: 100000, Thorough: 400000,
		Gen: func(t *rapid.T) SoundIn {
			switch rapid.IntRange(0, 15).Draw(t, "dupmode") {
			case 14, 15:
				return genSoundDup(t)
			case 13:
				return genSoundMerge(t)
			}
			o := soundOpts
			if rapid.IntRange(0, 3).Draw(t, "fullvalues") == 0 {
				o = soundOptsFull
			}
			cs := convgen.Pair(o).Draw(t, "case")
			a, kinds := gen.Weaken(t, cs.V, !cs.Target.HasDynamic())
			return SoundIn{C: cs, A: a, Kinds: kinds}
		},
		Check: func(c *facet.Ctx, in SoundIn) error {
			conc, target, ok := build(in.C)
			abs, err := spec.Build(in.A)
			if !ok || err != nil {
				c.Skip()
				return nil
			}
			if !conc.IsWhollyKnown() {
				c.Skip()
				return nil
			}
			// the abstract input must admit the concrete one to begin with
			if f := model.Admits(abs, conc); f != nil {
				c.Skip()
				return nil
			}
			oc := doConvert(conc, target)
			if oc.pan != "" {
				return panicFailure("Convert(concrete)", oc, in.C)
			}
			oa := doConvert(abs, target)
			if oa.pan != "" {
				return panicFailure("Convert(abstract)", oa, convgen.Case{V: in.A, Target: in.C.Target})
			}
			for _, k := range in.Kinds {
				c.Label("weaken=" + k)
			}
			for _, e := range in.C.Edits {
				c.Label("edit=" + e)
			}
			c.Label("abstract=" + flavour(in.A))
			if oc.err != nil {
				c.Label("outcome=concrete-fails")
				if oa.err == nil {
					c.Label("abstract-converts-anyway")
					if f := checkResult(abs, in.C.Target, oa.v); f != nil {
						return f
					}
				}
				return nil
			}
			c.Label("outcome=concrete-converts")
			if f := checkResult(conc, in.C.Target, oc.v); f != nil {
				return f.With("of", "concrete")
			}
			if len(in.Kinds) > 0 && !in.C.V.T.Equal(in.C.Target) {
				c.NonTrivial()
			}
			if oa.err != nil {
				f := facet.Failf("abstract-fails", "Convert(c) succeeds but Convert(a) fails for an abstract a admitting c: %v (a=%#v, c=%#v, target %s)", oa.err, abs, conc, in.C.Target)
				if cause := errorCause(oa.err, abs, in.C.Target); cause != "" {
					f.With("cause", cause)
				}
				return f
			}
			if f := checkResult(abs, in.C.Target, oa.v); f != nil {
				return f
			}
			if in.A.St == spec.Null && !oa.v.IsNull() {
				return facet.Failf("null-not-null", "a null converted to the non-null %#v (target %s)", oa.v, in.C.Target)
			}
			if f := model.Admits(oa.v, oc.v); f != nil {
				if f.Kind == "admits/type" {
					at, tg := spec.FromCty(abs.Type()), in.C.Target
					art, crt := spec.FromCty(oa.v.Type()), spec.FromCty(oc.v.Type())
					switch {
					case typeDiffExplained([]spec.T{at}, &tg, art, crt):
						f.With("cause", causeUnknownMapOptDyn)
					case typeDiffUnderEmpty([]cty.Value{conc}, art, crt, false):
						f.With("cause", causeEmptyCollection)
					case typeDiffFanIn([]spec.T{at}, &tg, art, crt):
						f.With("cause", causeFanInPrediction)
					}
				}
				if f.Kind == "admits/known-differs" && containsNegZero(conc) && containsString(oc.v, "-0") {
					f.With("cause", causeNegZeroString)
				}
				f.Msg = fmt.Sprintf("Convert(a)=%#v does not admit Convert(c)=%#v (a=%#v, c=%#v, target %s): %s", oa.v, oc.v, abs, conc, in.C.Target, f.Msg)
				return f
			}
			return nil
		},
	})

	// ------------------------------------------------------------ safe/total
	totalOpts := convgen.Opts{Type: gen.TypeOpts{Depth: 2, Dynamic: true, Long: 12}, Val: fullVals, NoDynamic: true, SafeBias: true, NoUnrelated: true, SameShare: 2}
	facet.Register(facet.F[TotalIn]{
		Prop: "C08", Name: "safe/total",
		Rule:  "source type S = type of a generated value, target = S edited with a bias to edits that have a safe conversion and without introducing placeholders; 1+3 values of exactly type S (known, null, unknown, marked, nested); non-trivial when GetConversion(S,T) is offered, T is placeholder-free and differs from S; then it must succeed on every value",
		Quick: 100000, Thorough: 400000,
		Gen: func(t *rapid.T) TotalIn {
			cs := convgen.Pair(totalOpts).Draw(t, "case")
			in := TotalIn{C: cs}
			for i := 0; i < 3; i++ {
				in.More = append(in.More, convgen.ExactValue(cs.V.T, fullVals).Draw(t, "more"))
			}
			return in
		},
		Check: func(c *facet.Ctx, in TotalIn) error {
			first, target, ok := build(in.C)
			if !ok {
				c.Skip()
				return nil
			}
			src := first.Type()
			conv, pan := getConv(src, target, false)
			if pan != "" {
				return panicFailure("GetConversion", outcome{pan: pan}, in.C)
			}
			for _, e := range in.C.Edits {
				c.Label("edit=" + e)
			}
			if conv == nil {
				c.Label("safe=not-offered")
				return nil
			}
			c.Label("safe=offered")
			if in.C.Target.HasDynamic() {
				c.Label("target-dynamic(no totality claim)")
			} else if !in.C.V.T.Equal(in.C.Target) {
				c.NonTrivial()
			}
			vals := []cty.Value{first}
			for _, m := range in.More {
				v, err := spec.Build(m)
				if err != nil || !v.Type().Equals(src) {
					c.Label("extra-value-dropped")
					continue
				}
				vals = append(vals, v)
			}
			for _, v := range vals {
				r := guarded(func() (cty.Value, error) { return conv(v) })
				if r.pan != "" {
					return panicFailure("safe conversion", r, in.C)
				}
				if r.err != nil {
					if in.C.Target.HasDynamic() {
						continue
					}
					f := facet.Failf("safe-fails", "GetConversion(%s, %s) is offered as safe but fails on %#v: %v", spec.FromCty(src), in.C.Target, v, r.err)
					if cause := errorCause(r.err, v, in.C.Target); cause != "" {
						f.With("cause", cause)
					}
					return f
				}
				if f := checkResult(v, in.C.Target, r.v); f != nil {
					return f.With("mode", "safe")
				}
			}
			return nil
		},
	})

	// ------------------------------------------------------------ safe-implies-unsafe
	facet.Register(facet.F[TypePair]{
		Prop: "C08", Name: "safe-implies-unsafe",
		Rule:  "pair of types (source with placeholders and capsules allowed; target = source edited, or unrelated, optional attributes and placeholders allowed); non-trivial when a safe conversion is offered and the types differ",
		Quick: 120000, Thorough: 500000,
		Gen: func(t *rapid.T) TypePair {
			s := gen.Type(gen.TypeOpts{Depth: 3, Dynamic: true, Capsule: true}).Draw(t, "s")
			if rapid.IntRange(0, 9).Draw(t, "unrelated") == 0 {
				return TypePair{S: s, T: gen.Type(gen.TypeOpts{Depth: 2, Dynamic: true, Optional: true, Capsule: true}).Draw(t, "t"), Rel: []string{"unrelated"}}
			}
			o := convgen.Opts{SafeBias: rapid.Bool().Draw(t, "safebias")}
			tt, labels := convgen.EditType(t, s, nil, o)
			return TypePair{S: s, T: tt, Rel: labels}
		},
		Check: func(c *facet.Ctx, p TypePair) error {
			s, t := p.S.Cty(), p.T.Cty()
			cs := convgen.Case{V: spec.V{T: p.S}, Target: p.T}
			safe, pan := getConv(s, t, false)
			if pan != "" {
				return panicFailure("GetConversion", outcome{pan: pan}, cs)
			}
			unsafe, pan := getConv(s, t, true)
			if pan != "" {
				return panicFailure("GetConversionUnsafe", outcome{pan: pan}, cs)
			}
			for _, e := range p.Rel {
				c.Label("edit=" + e)
			}
			switch {
			case safe != nil:
				c.Label("safe+unsafe")
				if !p.S.Equal(p.T) {
					c.NonTrivial()
				}
			case unsafe != nil:
				c.Label("unsafe-only")
			default:
				c.Label("none")
			}
			if safe != nil && unsafe == nil {
				return facet.Failf("safe-not-unsafe", "GetConversion(%s, %s) is offered but GetConversionUnsafe is not", p.S, p.T)
			}
			return nil
		},
	})

	registerRoundTrips()
}

// genSoundDup draws the cases that decide whether length refinements survive
// element coalescing: a list or tuple holding 2..3 copies of one member,
// converted to a set, with the abstract input an unknown list with length
// bounds around the true length (an unknown tuple, respectively).
func genSoundDup(t *rapid.T) SoundIn {
	et := gen.Type(gen.TypeOpts{Depth: 1}).Draw(t, "elemtype")
	e := gen.Value(et, gen.ValOpts{Simple: true, RootKnown: true}).Draw(t, "elem")
	k := rapid.IntRange(2, 3).Draw(t, "copies")
	c := spec.V{St: spec.Known}
	for i := 0; i < k; i++ {
		c.Elems = append(c.Elems, e.Clone())
	}
	tupleForm := rapid.Bool().Draw(t, "tupleform")
	edit := "list>set"
	if tupleForm {
		c.T = spec.Tuple()
		edit = "tuple>set"
	} else {
		c.T = spec.List(e.T)
	}
	c = c.Retype()
	target := spec.Set(e.T)
	if e.T.IsPrim() && rapid.Bool().Draw(t, "viastring") {
		target = spec.Set(spec.String)
	}
	a := spec.UnknownOf(c.T)
	kinds := []string{"dup"}
	r := &spec.Ref{}
	if rapid.Bool().Draw(t, "notnull") {
		r.Null = "notnull"
		kinds = append(kinds, "notnull")
	}
	if !tupleForm {
		lo := rapid.IntRange(0, k).Draw(t, "minlen")
		hi := k + rapid.IntRange(0, 1).Draw(t, "maxlenextra")
		r.MinLen, r.MaxLen = &lo, &hi
		kinds = append(kinds, "minlen", "maxlen")
	}
	if *r != (spec.Ref{}) {
		a.Ref = r
	}
	return SoundIn{C: convgen.Case{V: c, Target: target, Edits: []string{edit}}, A: a, Kinds: kinds}
}

// genSoundMerge draws a set (or list) of DISTINCT members that the element
// conversion of the target merges (the strings "1", "1.0", "1e0" are one
// number; objects that differ only in an attribute the target drops), and an
// unknown collection of the source type that admits it through length bounds:
// the converted set is shorter than its source.
func genSoundMerge(t *rapid.T) SoundIn {
	var members []spec.V
	var srcE, dstE spec.T
	switch rapid.IntRange(0, 3).Draw(t, "mergekind") {
	case 0:
		srcE, dstE = spec.String, spec.Number
		for _, s := range []string{"1", "1.0", "1e0", "01", "1.00"} {
			members = append(members, spec.KnownStr(s))
		}
	case 1:
		srcE, dstE = spec.String, spec.Bool
		for _, s := range []string{"true", "1"} {
			members = append(members, spec.KnownStr(s))
		}
	case 2:
		srcE = spec.Object(spec.Attr{Name: "a", T: spec.String}, spec.Attr{Name: "b", T: spec.Number})
		dstE = spec.Object(spec.Attr{Name: "a", T: spec.String})
		for i := 0; i < 4; i++ {
			members = append(members, spec.V{T: srcE, St: spec.Known, Keys: []string{"a", "b"}, Elems: []spec.V{spec.KnownStr("x"), spec.KnownNum(spec.NInt(int64(i)))}})
		}
	default:
		srcE, dstE = spec.Tuple(spec.String), spec.List(spec.Number)
		for _, s := range []string{"2", "2.0", "2e0"} {
			members = append(members, spec.V{T: srcE, St: spec.Known, Elems: []spec.V{spec.KnownStr(s)}})
		}
	}
	k := rapid.IntRange(2, len(members)).Draw(t, "members")
	members = members[:k]
	if rapid.Bool().Draw(t, "extra") && srcE.K == spec.KString && dstE.K == spec.KNumber {
		members = append(members, spec.KnownStr("7"))
	}
	c := spec.V{St: spec.Known, Elems: members}
	edit := "set>set/merge"
	if rapid.IntRange(0, 3).Draw(t, "fromlist") == 0 {
		c.T = spec.List(srcE)
		edit = "list>set/merge"
	} else {
		c.T = spec.Set(srcE)
	}
	a := spec.UnknownOf(c.T)
	kinds := []string{"merge"}
	r := &spec.Ref{}
	if rapid.IntRange(0, 3).Draw(t, "notnull") != 0 {
		r.Null = "notnull"
		kinds = append(kinds, "notnull")
	}
	lo := rapid.IntRange(0, len(members)).Draw(t, "minlen")
	lo = len(members) - lo // rapid favours small draws: favour the tight bound
	hi := len(members) + rapid.IntRange(0, 1).Draw(t, "maxlenextra")
	r.MinLen, r.MaxLen = &lo, &hi
	kinds = append(kinds, "minlen", "maxlen")
	a.Ref = r
	return SoundIn{C: convgen.Case{V: c, Target: spec.Set(dstE), Edits: []string{edit}}, A: a, Kinds: kinds}
}

// ---------------------------------------------------------------- round trips

func registerRoundTrips() {
	facet.Register(facet.F[spec.Num]{
		Prop: "C08", Name: "roundtrip/number-string",
		Rule:  "a number drawn by class (small, width boundaries, float64-derived, 512-bit decimals, low precision, zero/-0, infinities) converted number->string->number; every case counts except small integers; distinct = hash of the number spec",
		Quick: 120000, Thorough: 500000,
		Gen: func(t *rapid.T) spec.Num { return gen.Num(gen.NumOpts{}).Draw(t, "n") },
		Check: func(c *facet.Ctx, n spec.Num) error {
			v := n.Cty()
			f := v.AsBigFloat()
			c.Label("route=" + n.Route)
			if !(f.IsInt() && f.MantExp(nil) < 20) {
				c.NonTrivial()
			}
			cs := convgen.Case{V: spec.KnownNum(n), Target: spec.String}
			s := doConvert(v, cty.String)
			if s.pan != "" {
				return panicFailure("Convert(number,string)", s, cs)
			}
			if s.err != nil {
				return facet.Failf("safe-fails", "number->string failed on %s: %v", n, s.err)
			}
			if s.v.Type() != cty.String || !s.v.IsKnown() || s.v.IsNull() {
				return facet.Failf("nonconformant", "number->string of %s gave %#v", n, s.v)
			}
			back := doConvert(s.v, cty.Number)
			if back.pan != "" {
				return panicFailure("Convert(string,number)", back, cs)
			}
			if back.err != nil {
				return facet.Failf("roundtrip-back-fails", "%s -> %q does not convert back: %v", n, s.v.AsString(), back.err).
					With("whole", fmt.Sprint(f.IsInt()))
			}
			bf := back.v.AsBigFloat()
			eq := back.v.Equals(v)
			if !model.NumEqDoc(f, bf) || !eq.IsKnown() || eq.False() {
				fl := facet.Failf("roundtrip-number", "%s -> %q -> %s is not equal to the original %s", n, s.v.AsString(), model.NumText(bf), f.Text('g', 60)).
					With("whole", fmt.Sprint(f.IsInt())).With("text", s.v.AsString())
				fl.Margin = model.RelDist(f, bf)
				return fl
			}
			return nil
		},
	})

	facet.Register(facet.F[bool]{
		Prop: "C08", Name: "roundtrip/bool-string",
		Rule:       "both booleans, bool->string->bool",
		Exhaustive: func() []bool { return []bool{false, true} },
		Check: func(c *facet.Ctx, b bool) error {
			c.NonTrivial()
			v := cty.BoolVal(b)
			s := doConvert(v, cty.String)
			if s.pan != "" || s.err != nil {
				return facet.Failf("safe-fails", "bool->string failed: %v %s", s.err, s.pan)
			}
			if s.v.Type() != cty.String || s.v.AsString() != fmt.Sprint(b) {
				return facet.Failf("roundtrip-bool", "bool->string of %t gave %#v", b, s.v)
			}
			back := doConvert(s.v, cty.Bool)
			if back.pan != "" || back.err != nil {
				return facet.Failf("roundtrip-back-fails", "%q does not convert back: %v %s", s.v.AsString(), back.err, back.pan)
			}
			if back.v.Type() != cty.Bool || back.v.True() != b {
				return facet.Failf("roundtrip-bool", "%t -> %q -> %#v", b, s.v.AsString(), back.v)
			}
			return nil
		},
	})

	rtVals := gen.ValOpts{Null: true, Simple: true, RootKnown: true}
	elemType := func(t *rapid.T) spec.T {
		return gen.Type(gen.TypeOpts{Depth: 1}).Draw(t, "elem")
	}
	// primType draws a primitive; generalised says whether the intermediate
	// element type is string instead of the primitive itself.
	register := func(name, rule string, quick int, g func(t *rapid.T) RTIn) {
		facet.Register(facet.F[RTIn]{
			Prop: "C08", Name: "roundtrip/" + name, Rule: rule,
			Quick: quick, Thorough: quick * 8,
			Gen:   g,
			Check: checkRoundTrip,
		})
	}
	register("set-list-set", "a wholly-known set value (nested nulls allowed, element types to depth 1, friendly numbers) converted set(E)->list(E')->set(E) with E' = E or, for primitive E, string; non-trivial when the set is not empty", 30000,
		func(t *rapid.T) RTIn {
			e := elemType(t)
			v := gen.Value(spec.Set(e), rtVals).Draw(t, "v")
			mid := spec.List(e)
			if e.IsPrim() && rapid.IntRange(0, 3).Draw(t, "viastring") == 0 {
				mid = spec.List(spec.String)
			}
			return RTIn{V: v, Mid: mid}
		})
	register("tuple-list-tuple", "a wholly-known tuple value with 0..3 members of one element type (or of mixed primitive types, then via list(string)) converted tuple->list->tuple; skipped (label no-inverse) when the library offers no way back (the unchanged tree offers no list->tuple conversion at all, so this facet is a sentinel with a small budget)", 1000,
		func(t *rapid.T) RTIn {
			n := rapid.IntRange(0, 3).Draw(t, "n")
			var ty spec.T
			var mid spec.T
			if rapid.IntRange(0, 3).Draw(t, "mixed") == 0 {
				es := make([]spec.T, n)
				for i := range es {
					es[i] = rapid.SampledFrom([]spec.T{spec.Bool, spec.Number, spec.String}).Draw(t, "prim")
				}
				ty, mid = spec.Tuple(es...), spec.List(spec.String)
			} else {
				e := elemType(t)
				es := make([]spec.T, n)
				for i := range es {
					es[i] = e
				}
				ty, mid = spec.Tuple(es...), spec.List(e)
			}
			return RTIn{V: gen.Value(ty, rtVals).Draw(t, "v"), Mid: mid}
		})
	register("object-map-object", "a wholly-known object value with 0..3 attributes of one type (or of mixed primitive types, then via map(string)) converted object->map->object; non-trivial when the object has attributes", 30000,
		func(t *rapid.T) RTIn {
			names := rapid.SampledFrom([][]string{{}, {"a"}, {"a", "b"}, {"a", "b", "c"}, {"é", "x"}, {"é"}}).Draw(t, "names")
			var as []spec.Attr
			var mid spec.T
			if rapid.IntRange(0, 3).Draw(t, "mixed") == 0 {
				for _, n := range names {
					as = append(as, spec.Attr{Name: n, T: rapid.SampledFrom([]spec.T{spec.Bool, spec.Number, spec.String}).Draw(t, "prim")})
				}
				mid = spec.Map(spec.String)
			} else {
				e := elemType(t)
				for _, n := range names {
					as = append(as, spec.Attr{Name: n, T: e})
				}
				mid = spec.Map(e)
			}
			return RTIn{V: gen.Value(spec.Object(as...), rtVals).Draw(t, "v"), Mid: mid}
		})
}

func checkRoundTrip(c *facet.Ctx, in RTIn) error {
	v, err := spec.Build(in.V)
	if err != nil || !v.IsWhollyKnown() || v.IsNull() {
		c.Skip()
		return nil
	}
	src := v.Type()
	cs := convgen.Case{V: in.V, Target: in.Mid}
	fwd := doConvert(v, in.Mid.Cty())
	if fwd.pan != "" {
		return panicFailure("Convert (forward)", fwd, cs)
	}
	if fwd.err != nil {
		// every forward direction used here is documented as safe
		if conv, _ := getConv(src, in.Mid.Cty(), false); conv != nil {
			return facet.Failf("safe-fails", "forward conversion %s -> %s is offered as safe but fails on %#v: %v", in.V.T, in.Mid, v, fwd.err)
		}
		c.Label("forward-not-offered")
		c.Skip()
		return nil
	}
	if f := checkResult(v, in.Mid, fwd.v); f != nil {
		return f
	}
	if inv, pan := getConv(fwd.v.Type(), src, true); pan != "" {
		return panicFailure("GetConversionUnsafe (inverse)", outcome{pan: pan}, cs)
	} else if inv == nil && !fwd.v.Type().Equals(src) {
		c.Label("no-inverse")
		c.Skip()
		return nil
	}
	back := doConvert(fwd.v, src)
	if back.pan != "" {
		return panicFailure("Convert (back)", back, cs)
	}
	if len(in.V.Elems) > 0 {
		c.NonTrivial()
	}
	if in.V.HasNullInside() {
		c.Label("nested-null")
	}
	if !in.V.T.Equal(in.Mid) && in.Mid.E != nil && in.Mid.E.K == spec.KString {
		c.Label("via-string")
	}
	if back.err != nil {
		return facet.Failf("roundtrip-back-fails", "%#v -> %#v does not convert back to %s: %v", v, fwd.v, in.V.T, back.err)
	}
	if !back.v.Type().Equals(src) {
		return facet.Failf("roundtrip-type", "round trip of %#v through %s came back with type %s", v, in.Mid, spec.FromCty(back.v.Type()))
	}
	if !model.RefEq(model.Strip(v), model.Strip(back.v), model.NumEqDoc) {
		return facet.Failf("roundtrip-differs", "round trip of %#v through %s gave %#v", v, in.Mid, back.v)
	}
	if eq := back.v.Equals(v); eq.IsKnown() && eq.False() && !in.V.HasNullInside() {
		return facet.Failf("roundtrip-differs", "round trip of %#v through %s gave %#v, which Equals reports as different", v, in.Mid, back.v)
	}
	return nil
}

var _ = strings.Contains
