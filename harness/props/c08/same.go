package c08

import (
	"github.com/zclconf/go-cty/cty"

	"verif/harness/model"
	"verif/harness/spec"
)

// sameValue reports whether two values carry the same information: same type,
// same marks at the same places, same nullness, same known content (numbers
// numerically identical), and for unknown parts the same range (not-null flag,
// numeric bounds with inclusiveness, string prefix, length bounds). Unlike
// RawEquals it does not distinguish an unknown value without refinements from
// one that carries only vacuous refinements (length 0..MaxInt).
func sameValue(a, b cty.Value) bool { return sameVal(a, b, false) }

// sameExceptNullMarks is sameValue disregarding the marks carried by null
// members (root excluded).
func sameExceptNullMarks(a, b cty.Value) bool { return sameVal(a, b, true) }

func sameVal(a, b cty.Value, ignoreNullMarks bool) bool {
	if !spec.FromCty(a.Type()).Equal(spec.FromCty(b.Type())) {
		return false
	}
	a, am := a.Unmark()
	b, bm := b.Unmark()
	if a.IsNull() || b.IsNull() {
		return a.IsNull() && b.IsNull() && (ignoreNullMarks || am.Equal(bm))
	}
	if !am.Equal(bm) {
		return false
	}
	if !a.IsKnown() || !b.IsKnown() {
		if a.IsKnown() || b.IsKnown() {
			return false
		}
		ty := a.Type()
		if ty == cty.DynamicPseudoType {
			return true
		}
		ra, rb := a.Range(), b.Range()
		if ra.DefinitelyNotNull() != rb.DefinitelyNotNull() {
			return false
		}
		switch {
		case ty == cty.Number:
			al, ai := ra.NumberLowerBound()
			bl, bi := rb.NumberLowerBound()
			ah, aj := ra.NumberUpperBound()
			bh, bj := rb.NumberUpperBound()
			return ai == bi && aj == bj && al.RawEquals(bl) && ah.RawEquals(bh)
		case ty == cty.String:
			return ra.StringPrefix() == rb.StringPrefix()
		case ty.IsCollectionType():
			return ra.LengthLowerBound() == rb.LengthLowerBound() && ra.LengthUpperBound() == rb.LengthUpperBound()
		}
		return true
	}
	ty := a.Type()
	switch {
	case ty == cty.Bool:
		return a.True() == b.True()
	case ty == cty.Number:
		return a.AsBigFloat().Cmp(b.AsBigFloat()) == 0
	case ty == cty.String:
		return a.AsString() == b.AsString()
	case ty.IsCapsuleType():
		return a.RawEquals(b)
	case ty.IsSetType():
		_, av := model.Members(a)
		_, bv := model.Members(b)
		if len(av) != len(bv) {
			return false
		}
		used := make([]bool, len(bv))
	outer:
		for _, x := range av {
			for j, y := range bv {
				if !used[j] && sameVal(x, y, ignoreNullMarks) {
					used[j] = true
					continue outer
				}
			}
			return false
		}
		return true
	default:
		ak, av := model.Members(a)
		bk, bv := model.Members(b)
		if len(av) != len(bv) {
			return false
		}
		for i := range av {
			if !ak[i].RawEquals(bk[i]) || !sameVal(av[i], bv[i], ignoreNullMarks) {
				return false
			}
		}
		return true
	}
}
