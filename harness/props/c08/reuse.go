package c08

import (
	"fmt"

	"github.com/zclconf/go-cty/cty"
	"pgregory.net/rapid"

	"verif/harness/convgen"
	"verif/harness/facet"
	"verif/harness/gen"
	"verif/harness/spec"
	"verif/harness/wf"
)

// ReuseIn is the input of conversion/reuse: one conversion looked up for a
// source constraint S (usually with placeholders, so that values of several
// concrete types conform to it) and a target T, applied to a sequence of values.
type ReuseIn struct {
	S    spec.T   `json:"s"`
	T    spec.T   `json:"t"`
	Vals []spec.V `json:"vals"`
}

func genReuse(t *rapid.T) ReuseIn {
	var in ReuseIn
	switch rapid.IntRange(0, 3).Draw(t, "srckind") {
	case 0:
		in.S = spec.Dynamic
	default:
		in.S = gen.Type(gen.TypeOpts{Depth: 2, Dynamic: true}).Draw(t, "src")
	}
	switch rapid.IntRange(0, 3).Draw(t, "tgtkind") {
	case 0:
		in.T = rapid.SampledFrom([]spec.T{
			spec.List(spec.Dynamic), spec.Set(spec.Dynamic), spec.Map(spec.Dynamic), spec.Tuple(spec.Dynamic),
			spec.Object(spec.Attr{Name: "a", T: spec.Dynamic}), spec.List(spec.Object(spec.Attr{Name: "a", T: spec.Dynamic})),
			spec.Map(spec.List(spec.Dynamic)), spec.Object(spec.Attr{Name: "a", T: spec.Dynamic, Opt: true}, spec.Attr{Name: "b", T: spec.String}),
		}).Draw(t, "tgt")
	case 1:
		in.T = gen.Type(gen.TypeOpts{Depth: 2, Dynamic: true, Optional: true}).Draw(t, "tgt")
	default:
		if in.S.K == spec.KDynamic {
			in.T = gen.Type(gen.TypeOpts{Depth: 2, Dynamic: true}).Draw(t, "tgt")
		} else {
			in.T, _ = convgen.EditType(t, in.S, nil, convgen.Opts{})
		}
	}
	n := rapid.IntRange(2, 4).Draw(t, "nvals")
	for i := 0; i < n; i++ {
		// values conforming to S: placeholders are instantiated per value, so
		// the concrete types differ from value to value
		in.Vals = append(in.Vals, gen.Value(in.S, gen.ValOpts{Null: true, Unknown: true, MaxElems: 2}).Draw(t, "val"))
	}
	if in.S.K == spec.KDynamic && rapid.IntRange(0, 2).Draw(t, "identity") == 0 {
		// the target is exactly the type one of the values already has
		in.T = in.Vals[rapid.IntRange(0, n-1).Draw(t, "idof")].T
	}
	return in
}

// checkReuse: a Conversion is a function of its argument only. Applying one
// looked-up conversion to several values one after another must give, for
// every value, what a freshly looked-up conversion gives for that value alone
// - whatever was converted before.
func checkReuse(c *facet.Ctx, in ReuseIn) error {
	src, tgt := in.S.Cty(), in.T.Cty()
	var vals []cty.Value
	types := map[string]bool{}
	for _, sv := range in.Vals {
		v, err := spec.Build(sv)
		if err != nil {
			c.Skip()
			return nil
		}
		if errs := v.Type().TestConformance(src); len(errs) > 0 {
			c.Skip()
			return nil
		}
		vals = append(vals, v)
		types[in.S.String()+"|"+spec.FromCty(v.Type()).String()] = true
	}
	cs := convgen.Case{V: in.Vals[0], Target: in.T, Edits: []string{"reuse"}}
	offered := false
	for _, unsafe := range []bool{false, true} {
		name := "GetConversion"
		if unsafe {
			name = "GetConversionUnsafe"
		}
		shared, pan := getConv(src, tgt, unsafe)
		if pan != "" {
			return panicFailure(name, outcome{pan: pan}, cs)
		}
		if shared == nil {
			continue
		}
		offered = true
		c.Label("offered:" + name)
		// two passes over the values with the shared object: forwards, then backwards
		order := make([]int, 0, 2*len(vals))
		for i := range vals {
			order = append(order, i)
		}
		for i := len(vals) - 1; i >= 0; i-- {
			order = append(order, i)
		}
		for step, i := range order {
			v := vals[i]
			fresh, pan := getConv(src, tgt, unsafe)
			if pan != "" || fresh == nil {
				return facet.Failf("lookup-unstable", "%s(%s, %s) was offered once and then not (%s)", name, in.S, in.T, pan)
			}
			want := guarded(func() (cty.Value, error) { return fresh(v) })
			got := guarded(func() (cty.Value, error) { return shared(v) })
			if got.pan != "" {
				return panicFailure("conversion returned by "+name, got, cs)
			}
			if (got.err == nil) != (want.err == nil) {
				return facet.Failf("reuse-outcome", "%s(%s, %s) applied to %#v as call %d on one conversion object: %s; a fresh conversion object: %s", name, in.S, in.T, v, step+1, describe(got), describe(want))
			}
			if in.S.K == spec.KDynamic {
				// A conversion looked up for the placeholder source can only
				// decide once it sees the value, so it must do what Convert does
				// for that value (in particular: nothing, for a value that
				// already has the target type).
				direct := doConvert(v, tgt)
				if direct.pan == "" && (direct.err == nil) != (got.err == nil) {
					return facet.Failf("dynamic-source-vs-convert", "%s(dynamic, %s) applied to %#v: %s; Convert of the same value to the same type: %s", name, in.T, v, describe(got), describe(direct))
				}
				if direct.pan == "" && direct.err == nil && !got.v.RawEquals(direct.v) {
					return facet.Failf("dynamic-source-vs-convert", "%s(dynamic, %s) applied to %#v gives %#v; Convert gives %#v", name, in.T, v, got.v, direct.v)
				}
				c.Label("dynamic-source-vs-convert")
			}
			if got.err == nil {
				if f := wf.Check(got.v); f != nil {
					return f
				}
				if !got.v.RawEquals(want.v) {
					return facet.Failf("reuse-differs", "%s(%s, %s) applied to %#v as call %d on one conversion object gives %#v; a fresh conversion object gives %#v (earlier arguments: %s)",
						name, in.S, in.T, v, step+1, got.v, want.v, earlier(vals, order[:step]))
				}
			}
		}
	}
	if !offered {
		c.Label("not-offered")
		return nil
	}
	if len(types) >= 2 && in.T.HasDynamic() {
		c.NonTrivial()
	}
	if in.S.K == spec.KDynamic {
		c.Label("source=dynamic")
	}
	return nil
}

func describe(o outcome) string {
	if o.err != nil {
		return "error " + o.err.Error()
	}
	return fmt.Sprintf("%#v", o.v)
}

func earlier(vals []cty.Value, idx []int) string {
	s := ""
	for _, i := range idx {
		s += fmt.Sprintf("%#v; ", vals[i])
	}
	return s
}

func init() {
	facet.Register(facet.F[ReuseIn]{
		Prop: "C08", Name: "conversion/reuse",
		Rule:  "a conversion looked up once (safe and unsafe) for a source constraint S (the placeholder itself in a quarter of the cases, otherwise a type to depth 2 with placeholders) and a target T (placeholder-bearing shapes, a random type with placeholders/optional attributes, or S edited) is applied to 2-4 values conforming to S (placeholders instantiated per value; known, null, unknown) forwards and backwards; every result must RawEqual what a freshly looked-up conversion gives for that value alone (no panic, same error/success). Non-trivial when the values have at least two different concrete types and T holds a placeholder. Distinct = hash of the input JSON",
		Quick: 60000, Thorough: 300000,
		Gen:   genReuse,
		Check: checkReuse,
	})
}
