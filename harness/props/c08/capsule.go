package c08

import (
	"fmt"

	"github.com/zclconf/go-cty/cty"
	"pgregory.net/rapid"

	"verif/harness/convgen"
	"verif/harness/facet"
	"verif/harness/spec"
	"verif/harness/wf"
)

// capsule/conversions: conversions that go through a capsule type's own
// conversion operations (spec.CapC: to string, failing for odd payloads; to
// number, total; from number, failing outside 0..3). Such conversions can fail
// depending on the encapsulated value, which the type does not show, so they
// are offered in unsafe mode only; whatever is offered as safe must be total.

// CapIn is a (source type, target type) pair with the payload indexes to try.
type CapIn struct {
	S     spec.T `json:"s"`
	T     spec.T `json:"t"`
	Shape string `json:"shape"`
}

func wrapBoth(shape string, s, t spec.T) (spec.T, spec.T) {
	switch shape {
	case "list":
		return spec.List(s), spec.List(t)
	case "set>list":
		return spec.Set(s), spec.List(t)
	case "tuple":
		return spec.Tuple(s, spec.Bool), spec.Tuple(t, spec.Bool)
	case "tuple>list":
		return spec.Tuple(s, s), spec.List(t)
	case "object":
		return spec.Object(spec.Attr{Name: "c", T: s}), spec.Object(spec.Attr{Name: "c", T: t})
	case "object>map":
		return spec.Object(spec.Attr{Name: "c", T: s}, spec.Attr{Name: "d", T: s}), spec.Map(t)
	case "map":
		return spec.Map(s), spec.Map(t)
	}
	return s, t
}

// capValue builds a value of type ty in which every capsule / number leaf is
// derived from payload index k.
func capValue(ty spec.T, k int) spec.V {
	switch ty.K {
	case spec.KCapsule:
		return spec.V{T: ty, St: spec.Known, Cap: k}
	case spec.KNumber:
		return spec.KnownNum(spec.NInt(int64(k)))
	case spec.KString:
		return spec.KnownStr(fmt.Sprintf("c%d", k))
	case spec.KBool:
		return spec.KnownBool(k%2 == 0)
	case spec.KList, spec.KSet:
		return spec.V{T: ty, St: spec.Known, Elems: []spec.V{capValue(*ty.E, k)}}
	case spec.KMap:
		return spec.V{T: ty, St: spec.Known, Keys: []string{"k"}, Elems: []spec.V{capValue(*ty.E, k)}}
	case spec.KTuple:
		v := spec.V{T: ty, St: spec.Known}
		for _, e := range ty.Elems {
			v.Elems = append(v.Elems, capValue(e, k))
		}
		return v
	case spec.KObject:
		v := spec.V{T: ty, St: spec.Known}
		for _, a := range ty.Attrs {
			v.Keys = append(v.Keys, a.Name)
			v.Elems = append(v.Elems, capValue(a.T, k))
		}
		return v
	}
	return spec.NullOf(ty)
}

func init() {
	facet.Register(facet.F[CapIn]{
		Prop: "C08", Name: "capsule/conversions",
		Rule:  "source and target are a capsule type with conversion operations (to string: fails for odd payloads; to number: total; from number: fails outside 0..3), a capsule type without operations, string, number or bool, in either direction, at the root or as the element / member type of list, set, map, tuple, object on both sides (also tuple>list, set>list, object>map); the conversion is looked up in both modes and applied to values built from every payload index 0..7: no panic; whatever GetConversion offers for a placeholder-free target succeeds on ALL of them (safe => total); safe offered => unsafe offered; results conform to the target and are well-formed; enumerated exhaustively; non-trivial when a conversion is offered in either mode",
		Exhaustive: func() []CapIn {
			leaves := []spec.T{spec.CapsuleT("C"), spec.CapsuleT("B"), spec.CapsuleT("A"), spec.String, spec.Number, spec.Bool}
			var out []CapIn
			for _, shape := range []string{"root", "list", "set>list", "tuple", "tuple>list", "object", "object>map", "map"} {
				for _, s := range leaves {
					for _, t := range leaves {
						if s.K != spec.KCapsule && t.K != spec.KCapsule {
							continue
						}
						ws, wt := wrapBoth(shape, s, t)
						out = append(out, CapIn{S: ws, T: wt, Shape: shape})
					}
				}
			}
			return out
		},
		Check: func(c *facet.Ctx, in CapIn) error {
			src, tgt := in.S.Cty(), in.T.Cty()
			c.Label("shape=" + in.Shape)
			cs := convgen.Case{V: capValue(in.S, 0), Target: in.T, Edits: []string{"capsule"}}
			safe, pan := getConv(src, tgt, false)
			if pan != "" {
				return panicFailure("GetConversion", outcome{pan: pan}, cs)
			}
			unsafe, pan := getConv(src, tgt, true)
			if pan != "" {
				return panicFailure("GetConversionUnsafe", outcome{pan: pan}, cs)
			}
			if safe != nil && unsafe == nil {
				return facet.Failf("safe-not-unsafe", "GetConversion(%s, %s) is offered but GetConversionUnsafe is not", in.S, in.T)
			}
			if safe != nil || unsafe != nil {
				c.NonTrivial()
			}
			for k := 0; k < 8; k++ {
				sv := capValue(in.S, k)
				v, err := spec.Build(sv)
				if err != nil || !v.Type().Equals(src) {
					continue
				}
				for _, m := range []struct {
					name string
					conv func(cty.Value) (cty.Value, error)
				}{{"GetConversion", safe}, {"GetConversionUnsafe", unsafe}} {
					if m.conv == nil {
						continue
					}
					conv := m.conv
					r := guarded(func() (cty.Value, error) { return conv(v) })
					if r.pan != "" {
						return panicFailure("conversion returned by "+m.name, r, convgen.Case{V: sv, Target: in.T})
					}
					if r.err != nil {
						if m.name == "GetConversion" {
							return facet.Failf("safe-fails", "GetConversion(%s, %s) is offered as safe but fails on %#v: %v", in.S, in.T, v, r.err)
						}
						c.Label("unsafe-conversion-failed")
						continue
					}
					if f := wf.Check(r.v); f != nil {
						return f
					}
					if !spec.FromCty(r.v.Type()).Conforms(in.T) {
						return facet.Failf("nonconforming", "%s(%s, %s) applied to %#v returned %#v", m.name, in.S, in.T, v, r.v)
					}
				}
				d := doConvert(v, tgt)
				if d.pan != "" {
					return panicFailure("Convert", d, convgen.Case{V: sv, Target: in.T})
				}
			}
			return nil
		},
	})
	_ = rapid.Bool
}
