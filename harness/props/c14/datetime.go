package c14

import (
	"fmt"
	"math/big"
	"strconv"
	"strings"
	"time"

	"github.com/zclconf/go-cty/cty"
	"github.com/zclconf/go-cty/cty/function/stdlib"
	"pgregory.net/rapid"

	"verif/harness/facet"
)

// TS is a timestamp given by its RFC 3339 components.
type TS struct {
	Y    int    `json:"y"`
	Mo   int    `json:"mo"`
	D    int    `json:"d"`
	H    int    `json:"h"`
	Mi   int    `json:"mi"`
	S    int    `json:"s"`
	Frac string `json:"frac,omitempty"` // digits after the decimal point
	Zone string `json:"zone"`           // "Z" or "+hh:mm" / "-hh:mm"
	Bad  string `json:"bad,omitempty"`  // name of an invalidating mutation
}

func (t TS) valid() string {
	s := fmt.Sprintf("%04d-%02d-%02dT%02d:%02d:%02d", t.Y, t.Mo, t.D, t.H, t.Mi, t.S)
	if t.Frac != "" {
		s += "." + t.Frac
	}
	return s + t.Zone
}

// text returns the timestamp text, with the invalidating mutation applied.
func (t TS) text() string {
	s := t.valid()
	switch t.Bad {
	case "":
		return s
	case "hour-one-digit":
		return s[:11] + strconv.Itoa(t.H%10) + s[13:]
	case "comma-fraction":
		base := fmt.Sprintf("%04d-%02d-%02dT%02d:%02d:%02d", t.Y, t.Mo, t.D, t.H, t.Mi, t.S)
		return base + ",5" + t.Zone
	case "zone-hour-24":
		return strings.TrimSuffix(s, t.Zone) + "+24:00"
	case "zone-minute-60":
		return strings.TrimSuffix(s, t.Zone) + "-01:60"
	case "space-for-T":
		return s[:10] + " " + s[11:]
	case "month-13":
		return s[:5] + "13" + s[7:]
	case "day-32":
		return s[:8] + "32" + s[10:]
	case "feb-30":
		return s[:5] + "02-30" + s[10:]
	case "feb-29-nonleap":
		return "2023-02-29" + s[10:]
	case "hour-24":
		return s[:11] + "24" + s[13:]
	case "minute-60":
		return s[:14] + "60" + s[16:]
	case "no-zone":
		return strings.TrimSuffix(s, t.Zone)
	case "date-only":
		return s[:10]
	case "trailing-garbage":
		return s + " "
	case "two-digit-year":
		return s[2:]
	case "no-seconds":
		return s[:16] + t.Zone
	case "zone-no-colon":
		return strings.TrimSuffix(s, t.Zone) + "+0100"
	case "empty":
		return ""
	}
	panic("unknown TS mutation " + t.Bad)
}

var badTS = []string{"hour-one-digit", "comma-fraction", "zone-hour-24", "zone-minute-60", "space-for-T", "month-13", "day-32", "feb-30", "feb-29-nonleap", "hour-24", "minute-60",
	"no-zone", "date-only", "trailing-garbage", "two-digit-year", "no-seconds", "zone-no-colon", "empty"}

func isLeapYear(y int) bool { return y%4 == 0 && (y%100 != 0 || y%400 == 0) }

func daysInMonth(y, m int) int {
	switch m {
	case 2:
		if isLeapYear(y) {
			return 29
		}
		return 28
	case 4, 6, 9, 11:
		return 30
	}
	return 31
}

func genTS(t *rapid.T, yLo, yHi int) TS {
	var ts TS
	switch rapid.IntRange(0, 3).Draw(t, "yearclass") {
	case 0:
		ys := []int{}
		for _, y := range []int{0, 1, 99, 999, 1000, 1582, 1900, 1969, 1970, 2000, 2023, 2024, 2038, 2100, 9999} {
			if y >= yLo && y <= yHi {
				ys = append(ys, y)
			}
		}
		ts.Y = rapid.SampledFrom(ys).Draw(t, "ypool")
	default:
		ts.Y = rapid.IntRange(yLo, yHi).Draw(t, "year")
	}
	ts.Mo = rapid.IntRange(1, 12).Draw(t, "month")
	dim := daysInMonth(ts.Y, ts.Mo)
	switch rapid.IntRange(0, 3).Draw(t, "dayclass") {
	case 0:
		ts.D = dim
	case 1:
		ts.D = 1
	default:
		ts.D = rapid.IntRange(1, dim).Draw(t, "day")
	}
	ts.H = rapid.SampledFrom([]int{0, 1, 9, 10, 11, 12, 13, 15, 21, 23}).Draw(t, "hour")
	ts.Mi = rapid.SampledFrom([]int{0, 1, 5, 9, 10, 30, 59}).Draw(t, "minute")
	ts.S = rapid.SampledFrom([]int{0, 1, 5, 9, 10, 30, 59}).Draw(t, "second")
	if rapid.IntRange(0, 2).Draw(t, "hasfrac") == 0 {
		ts.Frac = rapid.SampledFrom([]string{"5", "0", "25", "123", "999", "000001", "123456789", "999999999", "1234567891234"}).Draw(t, "frac")
	}
	ts.Zone = rapid.SampledFrom([]string{"Z", "Z", "+00:00", "-00:00", "+01:00", "-08:00", "+05:30", "+05:45", "-03:30", "+14:00", "-12:00", "+23:59", "-23:59", "+00:01"}).Draw(t, "zone")
	return ts
}

// DateTok is one token of a formatdate format string.
type DateTok struct {
	K string `json:"k"` // verb, quoted, bare, openquote
	V string `json:"v"`
}

// DurPart is one number+unit pair of a duration string.
type DurPart struct {
	N string `json:"n"`
	U string `json:"u"`
}

// DateCase is the input of the date facet.
type DateCase struct {
	Fn     string    `json:"fn"`
	TS     TS        `json:"ts"`
	Toks   []DateTok `json:"toks,omitempty"`
	Sign   string    `json:"sign,omitempty"`
	Dur    []DurPart `json:"dur,omitempty"`
	BadDur string    `json:"baddur,omitempty"`
}

func (d DateCase) format() string {
	var b strings.Builder
	for _, t := range d.Toks {
		switch t.K {
		case "quoted":
			b.WriteString("'" + t.V + "'")
		case "openquote":
			b.WriteString("'" + t.V)
		default:
			b.WriteString(t.V)
		}
	}
	return b.String()
}

func (d DateCase) duration() string {
	if d.BadDur != "" {
		return d.BadDur
	}
	var b strings.Builder
	b.WriteString(d.Sign)
	for _, p := range d.Dur {
		b.WriteString(p.N + p.U)
	}
	return b.String()
}

func (d DateCase) String() string {
	if d.Fn == "formatdate" {
		return fmt.Sprintf("%+q, %q", d.format(), d.TS.text())
	}
	return fmt.Sprintf("%q, %+q", d.TS.text(), d.duration())
}

// documented mnemonics -> Go layout (or a function of the time)
var dateVerbs = map[string]string{
	"YY": "06", "YYYY": "2006", "M": "1", "MM": "01", "MMM": "Jan", "MMMM": "January", "D": "2", "DD": "02",
	"EEE": "Mon", "EEEE": "Monday", "hh": "15", "H": "3", "HH": "03", "AA": "PM", "aa": "pm", "m": "4", "mm": "04",
	"s": "5", "ss": "05", "ZZZZ": "-0700", "ZZZZZ": "-07:00", "Z": "Z07:00",
	"h": "", "ZZZ": "", // handled specially
}
var dateVerbNames = []string{"YY", "YYYY", "M", "MM", "MMM", "MMMM", "D", "DD", "EEE", "EEEE", "h", "hh", "H", "HH", "AA", "aa", "m", "mm", "s", "ss", "ZZZZ", "ZZZZZ", "Z", "ZZZ"}
var badDateVerbs = []string{"Y", "YYY", "YYYYY", "MMMMM", "DDD", "E", "EE", "EEEEE", "hhh", "HHH", "A", "AAA", "a", "aaa", "mmm", "sss", "ZZ", "ZZZZZZ", "x", "T", "b", "GMT", "yyyy", "dd"}
var bareLits = []string{"-", ":", " ", "/", ".", ", ", "0", "12", "+", "(", ")", "\U0001F600", "_", "#", "@", "%", "\n"}
var quotedLits = []string{"T", "at", "UTC", "Z", "Week", "h m s", "YYYY", "o clock", "x-1", "\u65e5\u672c", "a"}

func genDateToks(t *rapid.T) []DateTok {
	n := rapid.IntRange(0, 8).Draw(t, "ntoks")
	var out []DateTok
	bad := rapid.IntRange(0, 9).Draw(t, "badfmt") == 6
	badAt := -1
	if bad && n > 0 {
		badAt = rapid.IntRange(0, n-1).Draw(t, "badat")
	}
	for i := 0; i < n; i++ {
		var tok DateTok
		if i == badAt {
			if rapid.IntRange(0, 3).Draw(t, "badkind") == 0 && i == n-1 {
				tok = DateTok{K: "openquote", V: rapid.SampledFrom([]string{"", "T", "abc "}).Draw(t, "openv")}
			} else {
				tok = DateTok{K: "verb", V: rapid.SampledFrom(badDateVerbs).Draw(t, "badverb")}
			}
		} else {
			switch rapid.IntRange(0, 5).Draw(t, "tokkind") {
			case 0:
				tok = DateTok{K: "quoted", V: rapid.SampledFrom(quotedLits).Draw(t, "qlit")}
			case 1, 2:
				tok = DateTok{K: "bare", V: rapid.SampledFrom(bareLits).Draw(t, "blit")}
			default:
				tok = DateTok{K: "verb", V: rapid.SampledFrom(dateVerbNames).Draw(t, "verb")}
			}
		}
		// adjacency rules: two verbs of the same letter would merge, two quoted
		// literals would read as an escaped quote: separate them
		if len(out) > 0 {
			prev := out[len(out)-1]
			if (prev.K == "verb" && tok.K == "verb" && prev.V[0] == tok.V[0]) || (prev.K == "quoted" && (tok.K == "quoted" || tok.K == "openquote")) {
				out = append(out, DateTok{K: "bare", V: "-"})
			}
		}
		out = append(out, tok)
	}
	return out
}

var durUnits = map[string]int64{"ns": 1, "us": 1e3, "\u00b5s": 1e3, "\u03bcs": 1e3, "ms": 1e6, "s": 1e9, "m": 60e9, "h": 3600e9}
var durUnitNames = []string{"ns", "us", "\u00b5s", "\u03bcs", "ms", "s", "m", "h"}

func genDate(t *rapid.T) DateCase {
	fn := rapid.SampledFrom([]string{"formatdate", "timeadd"}).Draw(t, "fn")
	if fn == "formatdate" {
		c := DateCase{Fn: fn, TS: genTS(t, 0, 9999), Toks: genDateToks(t)}
		if rapid.IntRange(0, 9).Draw(t, "badts") == 4 {
			c.TS.Bad = rapid.SampledFrom(badTS).Draw(t, "badtsv")
		}
		return c
	}
	c := DateCase{Fn: fn, TS: genTS(t, 1000, 9000)}
	if rapid.IntRange(0, 9).Draw(t, "badts") == 4 {
		c.TS.Bad = rapid.SampledFrom(badTS).Draw(t, "badtsv")
	}
	c.Sign = rapid.SampledFrom([]string{"", "", "-", "-", "+"}).Draw(t, "sign")
	n := rapid.IntRange(1, 3).Draw(t, "nparts")
	for i := 0; i < n; i++ {
		u := rapid.SampledFrom(durUnitNames).Draw(t, "unit")
		var num string
		switch u {
		case "h":
			num = rapid.SampledFrom([]string{"0", "1", "2", "24", "1.5", "0.25", "100", "8760", "87600", "12", "23", "0.5"}).Draw(t, "hn")
		case "m":
			num = rapid.SampledFrom([]string{"0", "1", "30", "59", "60", "90", "1.5", "1440", "0.5"}).Draw(t, "mn")
		case "s":
			num = rapid.SampledFrom([]string{"0", "1", "59", "60", "61", "0.5", "1.000000001", "3600", "86400", "0.999999999"}).Draw(t, "sn")
		case "ns":
			num = rapid.SampledFrom([]string{"0", "1", "999999999", "1000000000", "500000000"}).Draw(t, "nsn")
		default:
			num = rapid.SampledFrom([]string{"0", "1", "1.5", "500", "1000", "999", "2.5", "1000000"}).Draw(t, "subn")
		}
		c.Dur = append(c.Dur, DurPart{N: num, U: u})
	}
	if rapid.IntRange(0, 9).Draw(t, "baddur") == 2 {
		c.BadDur = rapid.SampledFrom([]string{"", "1", "1x", "h", "1.5", " 1h", "1h ", "1 h", "--1h", "1h-30m", "one hour", "1d", "1H", "1.h.", "+-1s"}).Draw(t, "baddurv")
	}
	return c
}

func checkDate(c *facet.Ctx, in DateCase) *facet.Failure {
	c.Label("fn=" + in.Fn)
	tsText := in.TS.text()
	var ref time.Time
	if in.TS.Bad == "" {
		var err error
		// Go's own RFC 3339 parser is the reference (the implementation carries an inlined strict parser)
		ref, err = time.Parse(time.RFC3339, tsText)
		if err != nil {
			return facet.Failf("harness", "reference parser rejects generated timestamp %q: %v", tsText, err)
		}
		// and the components the generator chose must be what it denotes
		if ref.Year() != in.TS.Y || int(ref.Month()) != in.TS.Mo || ref.Day() != in.TS.D || ref.Hour() != in.TS.H || ref.Minute() != in.TS.Mi || ref.Second() != in.TS.S {
			return facet.Failf("harness", "reference parser disagrees with the generated components for %q", tsText)
		}
	}
	if in.Fn == "formatdate" {
		fs := in.format()
		if nfc(fs) != fs {
			c.Skip()
			return nil
		}
		o := call(stdlib.FormatDateFunc, cty.StringVal(fs), cty.StringVal(tsText))
		if in.TS.Bad != "" {
			c.Label("invalid-timestamp:" + in.TS.Bad)
			c.NonTrivial()
			return mustFail(in.Fn, o, in, "the timestamp is not valid RFC 3339 ("+in.TS.Bad+")")
		}
		var b strings.Builder
		for _, tok := range in.Toks {
			switch tok.K {
			case "openquote":
				c.Label("invalid-format:unterminated-quote")
				c.NonTrivial()
				return mustFail(in.Fn, o, in, "the format string has an unterminated quote")
			case "quoted":
				if tok.V == "" {
					// '' is the (undocumented) spelling of a literal quote
					c.Label("ref_abstains")
					return nil
				}
				b.WriteString(tok.V)
			case "bare":
				b.WriteString(tok.V)
			case "verb":
				layout, ok := dateVerbs[tok.V]
				if !ok {
					c.Label("invalid-format:unknown-mnemonic")
					c.NonTrivial()
					return mustFail(in.Fn, o, in, "the format string uses the undocumented mnemonic "+strconv.Quote(tok.V))
				}
				c.Label("verb=" + tok.V)
				switch tok.V {
				case "h":
					b.WriteString(strconv.Itoa(ref.Hour()))
				case "ZZZ":
					z := ref.Format("-0700")
					if z == "+0000" {
						z = "UTC"
					}
					b.WriteString(z)
				default:
					b.WriteString(ref.Format(layout))
				}
			}
		}
		got, fl := strResult(in.Fn, o, in)
		if fl != nil {
			return fl
		}
		want := nfc(b.String())
		if len(in.Toks) >= 3 {
			c.NonTrivial()
		}
		if got != want {
			return mismatch(in.Fn, in, strconv.QuoteToASCII(got), strconv.QuoteToASCII(want))
		}
		return nil
	}
	// timeadd
	durText := in.duration()
	o := call(stdlib.TimeAddFunc, cty.StringVal(tsText), cty.StringVal(durText))
	if in.TS.Bad != "" {
		c.Label("invalid-timestamp:" + in.TS.Bad)
		c.NonTrivial()
		return mustFail(in.Fn, o, in, "the timestamp is not valid RFC 3339 ("+in.TS.Bad+")")
	}
	if in.BadDur != "" || len(in.Dur) == 0 {
		c.Label("invalid-duration")
		c.NonTrivial()
		return mustFail(in.Fn, o, in, "the duration is not a sequence of number and unit pairs")
	}
	// the duration from its parts, exactly
	total := new(big.Rat)
	for _, p := range in.Dur {
		n, ok := new(big.Rat).SetString(p.N)
		if !ok {
			return facet.Failf("harness", "bad duration number %q", p.N)
		}
		total.Add(total, n.Mul(n, new(big.Rat).SetInt64(durUnits[p.U])))
		c.Label("unit=" + p.U)
	}
	if !total.IsInt() || !total.Num().IsInt64() {
		c.Label("ref_abstains")
		return nil
	}
	d := time.Duration(total.Num().Int64())
	if in.Sign == "-" {
		d = -d
	}
	if in.Sign != "" {
		c.Label("sign=" + in.Sign)
	}
	wantT := ref.Add(d)
	if wantT.Year() < 1 || wantT.Year() > 9999 {
		c.Label("ref_abstains")
		return nil
	}
	// TimeAdd: "The result is a string, also in RFC 3339 format"; the time
	// package's RFC 3339 layout is the reference (whole seconds, zone kept).
	want := wantT.Format(time.RFC3339)
	got, fl := strResult(in.Fn, o, in)
	if fl != nil {
		return fl
	}
	if in.TS.Zone != "Z" || in.TS.Frac != "" || len(in.Dur) > 1 {
		c.NonTrivial()
	}
	if got != want {
		return mismatch(in.Fn, in, strconv.Quote(got), strconv.Quote(want))
	}
	return nil
}

var _ = cty.StringVal

func init() {
	facet.Register(facet.F[DateCase]{
		Prop: "C14", Name: "ref/datetime", Rule: "timestamps from components: years 0..9999 (pool of boundary years incl. leap/non-leap centuries), last/first/random day of the month, boundary hours (0, 11, 12, 13, 23), optional fractional seconds of 1-13 digits, zones Z, +-00:00, half/quarter-hour and extreme offsets; 1/10 invalidated by one of 18 mutations (one-digit hour, comma fraction, zone hour 24, missing T, month 13, Feb 30, no zone, ...). formatdate: 0-8 tokens = documented mnemonics, quoted literals, bare non-letter literals, 1/10 with an undocumented mnemonic or an unterminated quote; reference = time.Parse(RFC3339) + Time.Format with the Go layout equivalent of each mnemonic. timeadd: 1-3 number+unit pairs (ns us \u00b5s ms s m h, fractions, optional sign), 1/10 malformed; reference = exact sum of the parts, Time.Add, Format(time.RFC3339). Invalid inputs must fail. Non-trivial = >= 3 tokens, a non-UTC zone / fraction / compound duration, or a documented error",
		Quick: 100000, Thorough: 400000, Gen: genDate, Check: wrap(checkDate),
	})
}
