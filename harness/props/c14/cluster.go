package c14

import (
	"strings"
	"unicode"

	"pgregory.net/rapid"
)

// An own, simplified UAX #29 extended-grapheme-cluster segmenter restricted to
// the classes the generator's alphabet (and its NFC closure) can produce. It
// is the reference for every position counted "in characters"; it does not use
// the segmentation library the implementation uses.

type gcClass int

const (
	gcOther gcClass = iota
	gcCR
	gcLF
	gcControl
	gcExtend
	gcZWJ
	gcRI
	gcPrepend
	gcSpacingMark
	gcL
	gcV
	gcT
	gcLV
	gcLVT
	gcExtPict
)

// extended pictographic code points used by the alphabet
var extPict = map[rune]bool{
	0x1F600: true, 0x1F44D: true, 0x1F469: true, 0x1F4BB: true, 0x2764: true, 0x1F483: true, 0x1F468: true, 0x1F467: true, 0x1F638: true, 0x1F63E: true, 0x2620: true,
}

func classOf(r rune) gcClass {
	switch {
	case r == '\r':
		return gcCR
	case r == '\n':
		return gcLF
	case r == 0x200D:
		return gcZWJ
	case r == 0x200C:
		return gcExtend
	case r < 0x20 || (r >= 0x7f && r <= 0x9f):
		return gcControl
	case r >= 0x1F1E6 && r <= 0x1F1FF:
		return gcRI
	case r >= 0x1F3FB && r <= 0x1F3FF: // emoji modifiers (Extend since Unicode 11)
		return gcExtend
	case r == 0x0600: // ARABIC NUMBER SIGN
		return gcPrepend
	case r == 0x0903 || r == 0x093E: // DEVANAGARI SIGN VISARGA / VOWEL SIGN AA
		return gcSpacingMark
	case r >= 0x1100 && r <= 0x115F:
		return gcL
	case r >= 0x1160 && r <= 0x11A7:
		return gcV
	case r >= 0x11A8 && r <= 0x11FF:
		return gcT
	case r >= 0xAC00 && r <= 0xD7A3:
		if (r-0xAC00)%28 == 0 {
			return gcLV
		}
		return gcLVT
	case extPict[r]:
		return gcExtPict
	case unicode.Is(unicode.Mn, r) || unicode.Is(unicode.Me, r):
		return gcExtend
	}
	return gcOther
}

// segment splits s (valid UTF-8) into extended grapheme clusters.
func segment(s string) []string {
	rs := []rune(s)
	if len(rs) == 0 {
		return nil
	}
	var out []string
	start := 0
	riRun := 0        // regional indicators in the current run before position i
	pictZWJ := false  // left context matches ExtPict Extend* ZWJ
	pictOpen := false // left context matches ExtPict Extend*
	for i := 0; i < len(rs); i++ {
		cur := classOf(rs[i])
		if i > 0 {
			prev := classOf(rs[i-1])
			brk := true
			switch {
			case prev == gcCR && cur == gcLF: // GB3
				brk = false
			case prev == gcCR || prev == gcLF || prev == gcControl: // GB4
				brk = true
			case cur == gcCR || cur == gcLF || cur == gcControl: // GB5
				brk = true
			case prev == gcL && (cur == gcL || cur == gcV || cur == gcLV || cur == gcLVT): // GB6
				brk = false
			case (prev == gcLV || prev == gcV) && (cur == gcV || cur == gcT): // GB7
				brk = false
			case (prev == gcLVT || prev == gcT) && cur == gcT: // GB8
				brk = false
			case cur == gcExtend || cur == gcZWJ: // GB9
				brk = false
			case cur == gcSpacingMark: // GB9a
				brk = false
			case prev == gcPrepend: // GB9b
				brk = false
			case pictZWJ && cur == gcExtPict: // GB11
				brk = false
			case prev == gcRI && cur == gcRI && riRun%2 == 1: // GB12, GB13
				brk = false
			}
			if brk {
				out = append(out, string(rs[start:i]))
				start = i
			}
		}
		// update left-context state with rs[i]
		if cur == gcRI {
			riRun++
		} else {
			riRun = 0
		}
		switch {
		case cur == gcExtPict:
			pictOpen, pictZWJ = true, false
		case cur == gcExtend && pictOpen:
			pictZWJ = false
		case cur == gcZWJ && pictOpen:
			pictZWJ = true
			pictOpen = false
		default:
			pictOpen, pictZWJ = false, false
		}
	}
	out = append(out, string(rs[start:]))
	return out
}

// clusterPool: small strings that are each exactly one grapheme cluster.
var clusterPool = []string{
	"a", "b", "z", "A", "0", "9", " ", "-", "_", ".", ",", "%", "\"", "'", "\\", "<", "&",
	"\t", "\n", "\r", "\r\n",
	"e\u0301", "\u00e9", "o\u0323\u0308", "A\u030a", "\u212b", "c\u0327", "\u1e9b\u0323", "a\u0308\u0301", "\u0f40\u0f71\u0f72",
	"\u1100", "\u1161", "\u11a8", "\uac00", "\uac01", "\u1100\u1161", "\u1100\u1161\u11a8", "\uac00\u11a8", "\u1100\uac00",
	"\U0001F600", "\U0001F44D\U0001F3FD", "\U0001F483\U0001F3FF", "\U0001F469\u200d\U0001F4BB", "\u2764\ufe0f", "\U0001F468\u200d\U0001F469\u200d\U0001F467", "\U0001F469\U0001F3FD\u200d\U0001F4BB",
	"\U0001F1E9\U0001F1EA", "\U0001F1FA\U0001F1F8", "\U0001F1E9",
	"\u65e5", "\u672c", "\u00df", "\u01c6", "\ufb01", "\u0130", "\u0131", "\u0915\u0903", "\u06001", "\u200d", "\u0301",
	"a\u200d", "x\u0301\u0301\u0301",
}

var plainPool = []string{"a", "b", "c", "d", "e", "h", "l", "o", "x", "y", "z", "A", "B", "Z", "0", "1", "7", " ", "-", "_", ".", ",", ":", "/"}

// genClusterString draws a string as a concatenation of pool clusters.
// maxLen bounds the number of drawn pieces (adjacent pieces may merge into
// one cluster; the model is always the own re-segmentation of the NFC form).
func genClusterString(t *rapid.T, label string, maxLen int) string {
	n := rapid.IntRange(0, maxLen).Draw(t, label+"len")
	var b strings.Builder
	plain := rapid.IntRange(0, 3).Draw(t, label+"plain") == 0
	for i := 0; i < n; i++ {
		if plain || rapid.IntRange(0, 2).Draw(t, label+"p") == 0 {
			b.WriteString(rapid.SampledFrom(plainPool).Draw(t, label+"pc"))
		} else {
			b.WriteString(rapid.SampledFrom(clusterPool).Draw(t, label+"cc"))
		}
	}
	return b.String()
}

func hasMultiRuneCluster(cs []string) bool {
	for _, c := range cs {
		n := 0
		for range c {
			n++
		}
		if n > 1 {
			return true
		}
	}
	return false
}

func multiRune(c string) bool {
	n := 0
	for range c {
		n++
	}
	return n > 1
}

// zwjPictAfterHangulOrRI reports whether s contains the one place where the
// segmentation library the implementation uses (go-textseg v15) is known to
// deviate from UAX #29: inside a cluster whose base is a Hangul, a
// Regional_Indicator or an Extended_Pictographic sequence it always attaches
// ZWJ + Extended_Pictographic, whereas rule GB11 attaches the pictographic
// only when the ZWJ is directly preceded by "Extended_Pictographic Extend*"
// (known finding C14-textseg-zwj-pictographic). Detected on the own
// segmentation: a cluster that ends in ZWJ, has such a base, and is followed
// by a cluster that starts with a pictographic. Used only to tag failures.
func zwjPictAfterHangulOrRI(s string) bool {
	cl := segment(s)
	for k := 0; k+1 < len(cl); k++ {
		rs := []rune(cl[k])
		if classOf(rs[len(rs)-1]) != gcZWJ {
			continue
		}
		next := []rune(cl[k+1])
		if classOf(next[0]) != gcExtPict {
			continue
		}
		j := 0
		for j < len(rs)-1 && classOf(rs[j]) == gcPrepend {
			j++
		}
		switch classOf(rs[j]) {
		case gcL, gcV, gcT, gcLV, gcLVT, gcRI, gcExtPict:
			return true
		}
	}
	return false
}
