package c14

import (
	"fmt"
	"math/big"

	"github.com/zclconf/go-cty/cty"

	"verif/harness/facet"
	"verif/harness/model"
	"verif/harness/spec"
)

// xnum is the reference view of a number: an exact rational (or a signed
// infinity) plus the binary precision the cty number carries.
type xnum struct {
	inf  int // -1, 0, +1
	r    *big.Rat
	prec uint
	f    *big.Float // the big.Float the constructor is documented to build
}

func xOf(n spec.Num) xnum {
	f := n.Float()
	x := xnum{prec: f.Prec(), f: f}
	if f.IsInf() {
		x.inf = f.Sign()
		return x
	}
	x.r, _ = f.Rat(nil)
	return x
}

func (x xnum) isInt() bool { return x.inf == 0 && x.r.IsInt() }
func (x xnum) sign() int {
	if x.inf != 0 {
		return x.inf
	}
	return x.r.Sign()
}

func (x xnum) String() string {
	if x.inf > 0 {
		return "+Inf"
	}
	if x.inf < 0 {
		return "-Inf"
	}
	return model.NumText(x.f)
}

func cmpX(a, b xnum) int {
	switch {
	case a.inf != 0 || b.inf != 0:
		switch {
		case a.inf == b.inf:
			return 0
		case a.inf < b.inf:
			return -1
		default:
			return 1
		}
	}
	return a.r.Cmp(b.r)
}

var two = big.NewInt(2)

// representable reports whether r is exactly representable with a p-bit mantissa.
func representable(r *big.Rat, p uint) bool {
	if r.Sign() == 0 {
		return true
	}
	// denominator must be a power of two
	d := r.Denom()
	if new(big.Int).And(d, new(big.Int).Sub(d, big.NewInt(1))).Sign() != 0 {
		return false
	}
	n := new(big.Int).Abs(r.Num())
	tz := n.TrailingZeroBits()
	return uint(n.BitLen())-tz <= p
}

func maxPrec(xs ...xnum) uint {
	var p uint
	for _, x := range xs {
		if x.prec > p {
			p = x.prec
		}
	}
	if p > 512 {
		p = 512
	}
	if p == 0 {
		p = 64
	}
	return p
}

// numResult extracts a known non-null number from an in-domain outcome.
func numResult(fn string, o outcome, args any) (*big.Float, *facet.Failure) {
	if f := inDomain(fn, o, args); f != nil {
		return nil, f
	}
	if o.val.Type() != cty.Number || o.val.IsNull() {
		return nil, facet.Failf("result-type", "%s(%v) returned %#v, want a non-null number", fn, args, o.val).With("fn", fn)
	}
	return o.val.AsBigFloat(), nil
}

// checkExact demands got == want exactly (want finite).
func checkExact(fn string, args any, got *big.Float, want *big.Rat) *facet.Failure {
	if got.IsInf() {
		return mismatch(fn, args, model.NumText(got), want.RatString()).With("class", "inf-for-finite")
	}
	gr, _ := got.Rat(nil)
	if gr.Cmp(want) != 0 {
		f := mismatch(fn, args, model.NumText(got), ratText(want)).With("class", "exact")
		f.Margin = relErr(gr, want)
		return f
	}
	return nil
}

// checkTol is the ratarith tolerance rule (DESIGN.md 2.4): exact whenever the
// exact result fits in p bits, else relative error <= 2^-(p-1).
func checkTol(fn string, args any, got *big.Float, want *big.Rat, p uint) *facet.Failure {
	if got.IsInf() {
		return mismatch(fn, args, model.NumText(got), ratText(want)).With("class", "inf-for-finite")
	}
	gr, _ := got.Rat(nil)
	if gr.Cmp(want) == 0 {
		return nil
	}
	if representable(want, p) {
		f := mismatch(fn, args, model.NumText(got), ratText(want)+fmt.Sprintf(" (exactly representable in %d bits)", p)).With("class", "representable-not-exact")
		f.Margin = relErr(gr, want)
		return f
	}
	// |got-want| <= |want| * 2^-(p-1)
	d := new(big.Rat).Sub(gr, want)
	d.Abs(d)
	lim := new(big.Rat).Abs(want)
	lim.Quo(lim, new(big.Rat).SetInt(new(big.Int).Lsh(big.NewInt(1), p-1)))
	if d.Cmp(lim) > 0 {
		f := mismatch(fn, args, model.NumText(got), ratText(want)+fmt.Sprintf(" within 2^-%d relative", p-1)).With("class", "tolerance")
		f.Margin = relErr(gr, want)
		return f
	}
	return nil
}

func relErr(a, b *big.Rat) float64 {
	d := new(big.Rat).Sub(a, b)
	d.Abs(d)
	m := new(big.Rat).Abs(b)
	if m.Sign() == 0 {
		m.Abs(a)
	}
	if m.Sign() == 0 {
		return 0
	}
	q, _ := new(big.Rat).Quo(d, m).Float64()
	return q
}

func ratText(r *big.Rat) string {
	if r.IsInt() {
		s := r.Num().String()
		if len(s) > 80 {
			return s[:40] + "..." + s[len(s)-20:] + fmt.Sprintf(" (%d digits)", len(s))
		}
		return s
	}
	f := new(big.Float).SetPrec(600).SetRat(r)
	return f.Text('g', 40)
}

func checkInf(fn string, args any, got *big.Float, sign int) *facet.Failure {
	if !got.IsInf() || got.Sign() != sign {
		return mismatch(fn, args, model.NumText(got), fmt.Sprintf("infinity with sign %+d", sign)).With("class", "inf")
	}
	return nil
}

func truncRat(r *big.Rat) *big.Int {
	// big.Int.Quo truncates toward zero
	return new(big.Int).Quo(r.Num(), r.Denom())
}

func floorRat(r *big.Rat) *big.Int {
	q, m := new(big.Int).DivMod(r.Num(), r.Denom(), new(big.Int))
	_ = m
	return q // DivMod is Euclidean: for a positive denominator q = floor
}

func ceilRat(r *big.Rat) *big.Int {
	f := floorRat(r)
	if r.IsInt() {
		return f
	}
	return f.Add(f, big.NewInt(1))
}
