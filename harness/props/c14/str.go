package c14

import (
	"fmt"
	"regexp"
	"sort"
	"strconv"
	"strings"
	"unicode"

	"github.com/apparentlymart/go-textseg/v15/textseg"
	"github.com/zclconf/go-cty/cty"
	"github.com/zclconf/go-cty/cty/function"
	"github.com/zclconf/go-cty/cty/function/stdlib"
	"pgregory.net/rapid"

	"verif/harness/facet"
	"verif/harness/gen"
	"verif/harness/spec"
	"verif/harness/wf"
)

// StrCase is the input of the string facets.
type StrCase struct {
	Fn string     `json:"fn"`
	S  []string   `json:"s,omitempty"` // string arguments, as given to cty.StringVal (which normalises them)
	N  []spec.Num `json:"n,omitempty"` // numeric arguments
	L  [][]string `json:"l,omitempty"` // list-of-string arguments (join)
}

func (s StrCase) String() string {
	var parts []string
	for _, x := range s.S {
		parts = append(parts, strconv.QuoteToASCII(x))
	}
	for _, n := range s.N {
		parts = append(parts, n.String())
	}
	for _, l := range s.L {
		parts = append(parts, fmt.Sprintf("%q", l))
	}
	return strings.Join(parts, ", ")
}

var nfc = spec.NFC

// intOf returns the Go int a number denotes, when gocty's conversion to int accepts it.
func intOf(n spec.Num) (int, bool) {
	x := xOf(n)
	if x.inf != 0 || !x.r.IsInt() || !x.r.Num().IsInt64() {
		return 0, false
	}
	return int(x.r.Num().Int64()), true
}

func genIntArg(t *rapid.T, label string, lo, hi int) spec.Num {
	if rapid.IntRange(0, 24).Draw(t, label+"odd") == 17 {
		return rapid.SampledFrom([]spec.Num{spec.NParse("1.5"), spec.NParse("-0.5"), spec.NParse("1e30"), spec.NFloat(2.25)}).Draw(t, label+"oddv")
	}
	n := gen.SmallInt(lo, hi).Draw(t, label)
	return n
}

func strVals(ss []string) []cty.Value {
	out := make([]cty.Value, len(ss))
	for i, s := range ss {
		out[i] = cty.StringVal(s)
	}
	return out
}

func labelStringShape(c *facet.Ctx, ss ...string) (multi bool) {
	for _, s := range ss {
		n := nfc(s)
		if n != s {
			c.Label("input-not-nfc")
		}
		if hasMultiRuneCluster(segment(n)) {
			multi = true
		}
	}
	if multi {
		c.Label("multi-rune-cluster")
	}
	return multi
}

// ------------------------------------------------------------------ ref/case-trim

var caseTrimFns = map[string]function.Function{
	"upper": stdlib.UpperFunc, "lower": stdlib.LowerFunc, "title": stdlib.TitleFunc, "trim": stdlib.TrimFunc,
	"trimprefix": stdlib.TrimPrefixFunc, "trimsuffix": stdlib.TrimSuffixFunc, "trimspace": stdlib.TrimSpaceFunc, "chomp": stdlib.ChompFunc,
}
var caseTrimNames = []string{"upper", "lower", "title", "trim", "trimprefix", "trimsuffix", "trimspace", "chomp"}

var spacePool = []string{" ", "\t", "\n", "\r", "\v", "\f", "\u00a0", "\u0085", "\u2003", "\u3000", "\u1680", "\u2028", "\u200b", "\ufeff"}
var wordPool = []string{"hello", "world", "foo bar", "snake_case", "x-ray", "o'neil", "\u01c6ungla", "\u00e9cole", "e\u0301cole", "\u00dfa", "\ufb01sh", "i\u0307", "\u0131\u0130", "1st", "a1b", "\u65e5\u672c", "\u03c3\u03c2"}

func genTextish(t *rapid.T, label string) string {
	switch rapid.IntRange(0, 3).Draw(t, label+"kind") {
	case 0:
		n := rapid.IntRange(0, 4).Draw(t, label+"nw")
		var b strings.Builder
		for i := 0; i < n; i++ {
			b.WriteString(rapid.SampledFrom(wordPool).Draw(t, label+"w"))
			if rapid.Bool().Draw(t, label+"sep") {
				b.WriteString(rapid.SampledFrom([]string{" ", "-", "_", ".", "\n", "\t", "\u00a0", "\u0301", "\U0001F600", "1", "/"}).Draw(t, label+"sepc"))
			}
		}
		return b.String()
	default:
		return genClusterString(t, label, 8)
	}
}

func genCaseTrim(t *rapid.T) StrCase {
	fn := rapid.SampledFrom(caseTrimNames).Draw(t, "fn")
	pad := func(l string) string {
		n := rapid.IntRange(0, 3).Draw(t, l+"n")
		var b strings.Builder
		for i := 0; i < n; i++ {
			b.WriteString(rapid.SampledFrom(spacePool).Draw(t, l))
		}
		return b.String()
	}
	s := genTextish(t, "s")
	switch fn {
	case "trimspace":
		s = pad("lead") + s + pad("trail")
		return StrCase{Fn: fn, S: []string{s}}
	case "chomp":
		n := rapid.IntRange(0, 3).Draw(t, "nnl")
		for i := 0; i < n; i++ {
			s += rapid.SampledFrom([]string{"\n", "\r\n", "\r", "\n\n", " ", "\u0301"}).Draw(t, "nl")
		}
		if rapid.IntRange(0, 3).Draw(t, "inner") == 0 {
			s = "a\r\nb\n" + s
		}
		return StrCase{Fn: fn, S: []string{s}}
	case "trim":
		// cutset from the runes at the ends of the string plus noise
		rs := []rune(nfc(s))
		var cut strings.Builder
		k := rapid.IntRange(0, 4).Draw(t, "ncut")
		for i := 0; i < k; i++ {
			if len(rs) > 0 && rapid.IntRange(0, 3).Draw(t, "fromstr") != 0 {
				idx := rapid.SampledFrom([]int{0, len(rs) - 1, len(rs) / 2, 1 % len(rs)}).Draw(t, "cutidx")
				cut.WriteRune(rs[idx])
			} else {
				cut.WriteString(rapid.SampledFrom([]string{" ", "a", "\u0301", "\u00e9", "\U0001F3FD", "\u200d", "-", "\n"}).Draw(t, "cutc"))
			}
		}
		return StrCase{Fn: fn, S: []string{s, cut.String()}}
	case "trimprefix", "trimsuffix":
		n := nfc(s)
		var cuts []int
		for i := range n {
			cuts = append(cuts, i)
		}
		cuts = append(cuts, len(n))
		c := rapid.SampledFrom(cuts).Draw(t, "cut")
		var p string
		if fn == "trimprefix" {
			p = n[:c]
		} else {
			p = n[c:]
		}
		switch rapid.IntRange(0, 5).Draw(t, "pmode") {
		case 0:
			p = genClusterString(t, "p", 3)
		case 1:
			p += "x"
		}
		return StrCase{Fn: fn, S: []string{s, p}}
	}
	return StrCase{Fn: fn, S: []string{s}}
}

func checkCaseTrim(c *facet.Ctx, in StrCase) *facet.Failure {
	c.Label("fn=" + in.Fn)
	multi := labelStringShape(c, in.S...)
	o := call(caseTrimFns[in.Fn], strVals(in.S)...)
	got, fl := strResult(in.Fn, o, in)
	if fl != nil {
		return fl
	}
	s := nfc(in.S[0])
	var want string
	switch in.Fn {
	case "upper":
		want = strings.ToUpper(s)
	case "lower":
		want = strings.ToLower(s)
	case "title":
		want = strings.Title(s) //nolint: the property names Go's standard library as the reference
	case "trim":
		want = strings.Trim(s, nfc(in.S[1]))
	case "trimprefix":
		want = strings.TrimPrefix(s, nfc(in.S[1]))
	case "trimsuffix":
		want = strings.TrimSuffix(s, nfc(in.S[1]))
	case "trimspace":
		want = strings.TrimFunc(s, unicode.IsSpace)
	case "chomp":
		want = strings.TrimRight(s, "\r\n")
	}
	want = nfc(want)
	if want != s {
		c.Label("changes-string")
		if multi || !isASCII(s) {
			c.NonTrivial()
		}
	}
	if got != want {
		return mismatch(in.Fn, in, strconv.QuoteToASCII(got), strconv.QuoteToASCII(want))
	}
	return nil
}

func isASCII(s string) bool {
	for i := 0; i < len(s); i++ {
		if s[i] >= 0x80 {
			return false
		}
	}
	return true
}

// ------------------------------------------------------------------ ref/indent-replace-split-join

var irsjNames = []string{"indent", "replace", "split", "join"}

func genIRSJ(t *rapid.T) StrCase {
	fn := rapid.SampledFrom(irsjNames).Draw(t, "fn")
	switch fn {
	case "indent":
		var b strings.Builder
		n := rapid.IntRange(0, 5).Draw(t, "nlines")
		for i := 0; i < n; i++ {
			b.WriteString(genClusterString(t, "line", 3))
			if i < n-1 || rapid.Bool().Draw(t, "trailnl") {
				b.WriteString(rapid.SampledFrom([]string{"\n", "\n", "\r\n", "\n\n"}).Draw(t, "nl"))
			}
		}
		return StrCase{Fn: fn, S: []string{b.String()}, N: []spec.Num{genIntArg(t, "spaces", 0, 9)}}
	case "replace":
		s := genTextish(t, "s")
		n := nfc(s)
		var sub string
		if len(n) > 0 && rapid.IntRange(0, 3).Draw(t, "subfrom") != 0 {
			var cuts []int
			for i := range n {
				cuts = append(cuts, i)
			}
			cuts = append(cuts, len(n))
			a := rapid.SampledFrom(cuts).Draw(t, "a")
			b := rapid.SampledFrom(cuts).Draw(t, "b")
			if a > b {
				a, b = b, a
			}
			if b-a > 6 {
				b = a
				for b < len(n) && b-a < 3 {
					b++
					for b < len(n) && !isRuneStart(n[b]) {
						b++
					}
				}
			}
			sub = n[a:b]
		} else {
			sub = rapid.SampledFrom([]string{"", "a", "l", "o", " ", "\u0301", "\u00e9", "e\u0301", "ll", "\n", "\U0001F3FD", "\u200d"}).Draw(t, "sub")
		}
		rep := rapid.SampledFrom([]string{"", "X", "--", "\u0301", "$1", sub + sub, "\U0001F600", "e", "\u1161"}).Draw(t, "rep")
		return StrCase{Fn: fn, S: []string{s, sub, rep}}
	case "split":
		sep := rapid.SampledFrom([]string{",", ", ", " ", "", "\n", "\u0301", "ab", "\u200d", "\U0001F3FD", "\u00e9", "e\u0301", "-", "::"}).Draw(t, "sep")
		var b strings.Builder
		n := rapid.IntRange(0, 5).Draw(t, "nparts")
		for i := 0; i < n; i++ {
			b.WriteString(genClusterString(t, "part", 3))
			if i < n-1 || rapid.IntRange(0, 3).Draw(t, "trailsep") == 0 {
				b.WriteString(sep)
			}
		}
		return StrCase{Fn: fn, S: []string{sep, b.String()}}
	default: // join
		sep := rapid.SampledFrom([]string{",", ", ", "", "\u0301", "-", "\n", "\u200d", "\u1161"}).Draw(t, "sep")
		nl := rapid.IntRange(1, 3).Draw(t, "nlists")
		ls := make([][]string, nl)
		for i := range ls {
			k := rapid.IntRange(0, 4).Draw(t, "nelems")
			ls[i] = make([]string, k)
			for j := range ls[i] {
				ls[i][j] = genClusterString(t, "elem", 3)
			}
		}
		return StrCase{Fn: fn, S: []string{sep}, L: ls}
	}
}

func isRuneStart(b byte) bool { return b&0xC0 != 0x80 }

func checkIRSJ(c *facet.Ctx, in StrCase) *facet.Failure {
	c.Label("fn=" + in.Fn)
	all := append([]string(nil), in.S...)
	for _, l := range in.L {
		all = append(all, l...)
	}
	multi := labelStringShape(c, all...)
	switch in.Fn {
	case "indent":
		n, ok := intOf(in.N[0])
		if !ok || n < 0 {
			c.Label("out-of-domain:spaces")
			return nil
		}
		o := call(stdlib.IndentFunc, in.N[0].Cty(), cty.StringVal(in.S[0]))
		got, fl := strResult(in.Fn, o, in)
		if fl != nil {
			return fl
		}
		// "Adds a given number of spaces after each newline character"
		s := nfc(in.S[0])
		var b strings.Builder
		for _, r := range s {
			b.WriteRune(r)
			if r == '\n' {
				for i := 0; i < n; i++ {
					b.WriteByte(' ')
				}
			}
		}
		want := nfc(b.String())
		if strings.Contains(s, "\n") && n > 0 {
			c.NonTrivial()
		}
		if got != want {
			return mismatch(in.Fn, in, strconv.QuoteToASCII(got), strconv.QuoteToASCII(want))
		}
		return nil
	case "replace":
		o := call(stdlib.ReplaceFunc, strVals(in.S)...)
		got, fl := strResult(in.Fn, o, in)
		if fl != nil {
			return fl
		}
		s, sub, rep := nfc(in.S[0]), nfc(in.S[1]), nfc(in.S[2])
		if sub == "" {
			c.Label("empty-substr")
		}
		want := nfc(strings.ReplaceAll(s, sub, rep))
		if want != s {
			c.Label("changes-string")
			if multi || !isASCII(s) {
				c.NonTrivial()
			}
		}
		if got != want {
			return mismatch(in.Fn, in, strconv.QuoteToASCII(got), strconv.QuoteToASCII(want))
		}
		return nil
	case "split":
		o := call(stdlib.SplitFunc, strVals(in.S)...)
		if fl := inDomain(in.Fn, o, in); fl != nil {
			return fl
		}
		sep, s := nfc(in.S[0]), nfc(in.S[1])
		parts := strings.Split(s, sep)
		want := make([]string, len(parts))
		for i, p := range parts {
			want[i] = nfc(p)
		}
		if sep == "" {
			c.Label("empty-separator")
		}
		if len(want) > 1 && (multi || !isASCII(s)) {
			c.NonTrivial()
		}
		return expectStringList(in.Fn, in, o.val, want)
	default: // join
		args := []cty.Value{cty.StringVal(in.S[0])}
		var flat []string
		for _, l := range in.L {
			if len(l) == 0 {
				args = append(args, cty.ListValEmpty(cty.String))
			} else {
				args = append(args, cty.ListVal(strVals(l)))
			}
			for _, e := range l {
				flat = append(flat, nfc(e))
			}
		}
		o := call(stdlib.JoinFunc, args...)
		got, fl := strResult(in.Fn, o, in)
		if fl != nil {
			return fl
		}
		want := nfc(strings.Join(flat, nfc(in.S[0])))
		if len(flat) > 1 && (multi || !isASCII(want)) {
			c.NonTrivial()
		}
		if got != want {
			return mismatch(in.Fn, in, strconv.QuoteToASCII(got), strconv.QuoteToASCII(want))
		}
		return nil
	}
}

func expectStringList(fn string, args any, got cty.Value, want []string) *facet.Failure {
	if !got.Type().Equals(cty.List(cty.String)) || got.IsNull() {
		return facet.Failf("result-type", "%s(%v) returned %#v, want a non-null list of string", fn, args, got).With("fn", fn)
	}
	var gs []string
	for it := got.ElementIterator(); it.Next(); {
		_, e := it.Element()
		if e.IsNull() {
			return facet.Failf("result-type", "%s(%v) returned a null element: %#v", fn, args, got).With("fn", fn)
		}
		gs = append(gs, e.AsString())
	}
	if len(gs) != len(want) {
		return mismatch(fn, args, fmt.Sprintf("%q", gs), fmt.Sprintf("%q", want))
	}
	for i := range gs {
		if gs[i] != want[i] {
			return mismatch(fn, args, fmt.Sprintf("%+q", gs), fmt.Sprintf("%+q", want))
		}
	}
	return nil
}

// ------------------------------------------------------------------ ref/regex

var regexNames = []string{"regex", "regexall", "regex_replace"}

type reShape struct {
	pat     string
	named   int
	unnamed int
}

var reAtoms = []string{"a", "b", "l", "o", "[a-c]", "[^a]", ".", `\d`, `\w`, `\s`, `\pL`, "e\u0301", "\u00e9", `\x{301}`, "-", " ", "[0-9]", "ll", "\U0001F600"}

// genPattern draws a syntactically valid RE2 pattern from a small grammar.
func genPattern(t *rapid.T, groups string) reShape {
	var sh reShape
	var b strings.Builder
	if rapid.IntRange(0, 7).Draw(t, "anchorL") == 0 {
		b.WriteString("^")
	}
	nitems := rapid.IntRange(1, 4).Draw(t, "nitems")
	piece := func() string {
		a := rapid.SampledFrom(reAtoms).Draw(t, "atom")
		q := rapid.SampledFrom([]string{"", "", "", "*", "+", "?", "{1,2}", "*?"}).Draw(t, "quant")
		if q != "" && len([]rune(a)) > 1 && !strings.HasPrefix(a, "[") && !strings.HasPrefix(a, `\`) {
			a = "(?:" + a + ")"
		}
		return a + q
	}
	for i := 0; i < nitems; i++ {
		kind := rapid.IntRange(0, 3).Draw(t, "itemkind")
		if kind == 0 || groups == "none" {
			b.WriteString(piece())
			continue
		}
		inner := piece()
		if rapid.IntRange(0, 3).Draw(t, "alt") == 0 {
			inner += "|" + piece()
		}
		named := groups == "named" || (groups == "mixed" && i%2 == 0)
		if groups == "mixed" && sh.named > 0 && sh.unnamed == 0 {
			named = false
		}
		if named {
			sh.named++
			b.WriteString(fmt.Sprintf("(?P<g%d>%s)", sh.named, inner))
		} else {
			sh.unnamed++
			b.WriteString("(" + inner + ")")
		}
		if rapid.IntRange(0, 3).Draw(t, "optgroup") == 0 {
			b.WriteString("?")
		}
	}
	if rapid.IntRange(0, 7).Draw(t, "anchorR") == 0 {
		b.WriteString("$")
	}
	sh.pat = b.String()
	return sh
}

func genRegex(t *rapid.T) StrCase {
	fn := rapid.SampledFrom(regexNames).Draw(t, "fn")
	groups := rapid.SampledFrom([]string{"none", "unnamed", "unnamed", "named", "named", "mixed"}).Draw(t, "groups")
	if fn == "regex_replace" && groups == "mixed" {
		groups = "unnamed"
	}
	sh := genPattern(t, groups)
	pat := sh.pat
	if rapid.IntRange(0, 19).Draw(t, "invalid") == 13 {
		pat = rapid.SampledFrom([]string{"(", "[a", "*a", "a{2,1}", `\`, "(?P<n>a", "a)"}).Draw(t, "badpat")
	}
	var s string
	switch rapid.IntRange(0, 2).Draw(t, "skind") {
	case 0:
		s = rapid.SampledFrom([]string{"hello world", "abcabc", "a1b22c333", "e\u0301le\u0301phant", "ball all lol", "\U0001F600a\U0001F600", "", "aaa", "x-y z"}).Draw(t, "sfixed")
	default:
		s = genTextish(t, "s")
	}
	if fn == "regex_replace" {
		rep := rapid.SampledFrom([]string{"", "X", "$0", "$1", "${1}x", "$2$1", "${g1}", "$g1", "$$", "<$1>", "\u0301", "$9"}).Draw(t, "rep")
		return StrCase{Fn: fn, S: []string{s, pat, rep}}
	}
	return StrCase{Fn: fn, S: []string{pat, s}}
}

func checkRegex(c *facet.Ctx, in StrCase) *facet.Failure {
	c.Label("fn=" + in.Fn)
	var pat, s string
	if in.Fn == "regex_replace" {
		s, pat = nfc(in.S[0]), nfc(in.S[1])
	} else {
		pat, s = nfc(in.S[0]), nfc(in.S[1])
	}
	re, err := regexp.Compile(pat)
	var o outcome
	switch in.Fn {
	case "regex":
		o = call(stdlib.RegexFunc, strVals(in.S)...)
	case "regexall":
		o = call(stdlib.RegexAllFunc, strVals(in.S)...)
	default:
		o = call(stdlib.RegexReplaceFunc, strVals(in.S)...)
	}
	if err != nil {
		c.Label("invalid-pattern")
		c.NonTrivial()
		return mustFail(in.Fn, o, in, "the pattern is not a valid regular expression")
	}
	labelStringShape(c, s)
	if in.Fn == "regex_replace" {
		got, fl := strResult(in.Fn, o, in)
		if fl != nil {
			return fl
		}
		want := nfc(re.ReplaceAllString(s, nfc(in.S[2])))
		if want != s {
			c.Label("changes-string")
			c.NonTrivial()
		}
		if got != want {
			return mismatch(in.Fn, in, strconv.QuoteToASCII(got), strconv.QuoteToASCII(want))
		}
		return nil
	}
	names := re.SubexpNames()[1:]
	named, unnamed := 0, 0
	for _, n := range names {
		if n == "" {
			unnamed++
		} else {
			named++
		}
	}
	if named > 0 && unnamed > 0 {
		c.Label("mixed-groups")
		c.NonTrivial()
		return mustFail(in.Fn, o, in, "the pattern mixes named and unnamed capture groups (doc comment of Regex: \"It is invalid to use both\")")
	}
	shape := "string"
	var ety spec.T = spec.String
	switch {
	case named > 0:
		shape = "object"
		as := make([]spec.Attr, 0, named)
		seen := map[string]bool{}
		for _, n := range names {
			if !seen[n] {
				as = append(as, spec.Attr{Name: n, T: spec.String})
				seen[n] = true
			}
		}
		ety = spec.Object(as...)
	case unnamed > 0:
		shape = "tuple"
		es := make([]spec.T, unnamed)
		for i := range es {
			es[i] = spec.String
		}
		ety = spec.Tuple(es...)
	}
	c.Label("shape=" + shape)
	// expected value of one match
	matchVal := func(idx []int) (cty.Value, string) {
		sub := func(i int) cty.Value {
			if idx[2*i] < 0 {
				return cty.NullVal(cty.String)
			}
			return cty.StringVal(s[idx[2*i]:idx[2*i+1]])
		}
		switch shape {
		case "string":
			return sub(0), ""
		case "tuple":
			vs := make([]cty.Value, unnamed)
			null := ""
			for i := range vs {
				vs[i] = sub(i + 1)
				if vs[i].IsNull() {
					null = "null-submatch"
				}
			}
			return cty.TupleVal(vs), null
		default:
			m := map[string]cty.Value{}
			null := ""
			for i, n := range names {
				m[n] = sub(i + 1)
				if m[n].IsNull() {
					null = "null-submatch"
				}
			}
			return cty.ObjectVal(m), null
		}
	}
	if in.Fn == "regex" {
		idx := re.FindStringSubmatchIndex(s)
		if idx == nil {
			c.Label("no-match")
			return mustFail(in.Fn, o, in, "the pattern does not match (doc comment: \"If the pattern doesn't match, this function returns an error\")")
		}
		if fl := inDomain(in.Fn, o, in); fl != nil {
			return fl
		}
		want, lbl := matchVal(idx)
		if lbl != "" {
			c.Label(lbl)
		}
		if shape != "string" {
			c.NonTrivial()
		}
		if !spec.FromCty(o.val.Type()).Equal(ety) {
			return facet.Failf("result-type", "regex(%v) returned type %#v, documented %s", in, o.val.Type(), ety).With("fn", in.Fn)
		}
		if !o.val.RawEquals(want) {
			return mismatch(in.Fn, in, fmt.Sprintf("%#v", o.val), fmt.Sprintf("%#v", want))
		}
		return nil
	}
	// regexall
	if fl := inDomain(in.Fn, o, in); fl != nil {
		return fl
	}
	all := re.FindAllStringSubmatchIndex(s, -1)
	c.Labelf("matches=%s", bucket(len(all)))
	if !spec.FromCty(o.val.Type()).Equal(spec.List(ety)) {
		return facet.Failf("result-type", "regexall(%v) returned type %#v, documented list of %s", in, o.val.Type(), ety).With("fn", in.Fn)
	}
	if o.val.IsNull() {
		return facet.Failf("result-type", "regexall(%v) returned null", in).With("fn", in.Fn)
	}
	if o.val.LengthInt() != len(all) {
		return mismatch(in.Fn, in, fmt.Sprintf("%#v", o.val), fmt.Sprintf("%d matches", len(all)))
	}
	if len(all) > 1 || shape != "string" {
		c.NonTrivial()
	}
	i := 0
	for it := o.val.ElementIterator(); it.Next(); i++ {
		_, e := it.Element()
		want, lbl := matchVal(all[i])
		if lbl != "" {
			c.Label(lbl)
		}
		if !e.RawEquals(want) {
			return mismatch(in.Fn, in, fmt.Sprintf("match %d = %#v", i, e), fmt.Sprintf("%#v", want))
		}
	}
	return nil
}

func bucket(n int) string {
	switch {
	case n == 0:
		return "0"
	case n == 1:
		return "1"
	case n <= 3:
		return "2-3"
	default:
		return "4+"
	}
}

// ------------------------------------------------------------------ ref/cluster and cluster/no-split

var clusterNames = []string{"substr", "strlen", "reverse"}

func genCluster(t *rapid.T) StrCase {
	fn := rapid.SampledFrom(clusterNames).Draw(t, "fn")
	n := rapid.IntRange(0, 8).Draw(t, "len")
	var b strings.Builder
	for i := 0; i < n; i++ {
		if rapid.IntRange(0, 3).Draw(t, "plain") == 3 {
			b.WriteString(rapid.SampledFrom(plainPool).Draw(t, "pc"))
		} else {
			b.WriteString(rapid.SampledFrom(clusterPool).Draw(t, "cc"))
		}
	}
	s := b.String()
	if fn != "substr" {
		return StrCase{Fn: fn, S: []string{s}}
	}
	// offsets and lengths around the string's own size (pieces may merge, so
	// the piece count is only an estimate of the cluster count)
	k := len(segment(nfc(s)))
	if k == 0 {
		k = 1
	}
	var off, ln spec.Num
	switch rapid.IntRange(0, 9).Draw(t, "offkind") {
	case 0, 1, 2:
		off = genIntArg(t, "offneg", -k, -1)
	case 3:
		off = genIntArg(t, "offfar", k+1, k+3)
		if rapid.Bool().Draw(t, "farneg") {
			off = genIntArg(t, "offfarneg", -k-3, -k-1)
		}
	default:
		off = genIntArg(t, "off", 0, k)
	}
	switch rapid.IntRange(0, 9).Draw(t, "lenkind") {
	case 0:
		ln = genIntArg(t, "lenrest", -1, -1)
	case 1:
		ln = genIntArg(t, "lenzero", 0, 0)
	case 2:
		ln = genIntArg(t, "lenneg", -4, -2)
	default:
		ln = genIntArg(t, "lenpos", 1, k+1)
	}
	return StrCase{Fn: fn, S: []string{s}, N: []spec.Num{off, ln}}
}

// textsegCount is used ONLY as a sanity cross-check of the own segmenter (a
// disagreement is reported as a harness-level failure so that it is looked at).
func textsegCount(s string) int {
	n, _ := textseg.TokenCount([]byte(s), textseg.ScanGraphemeClusters)
	return n
}

func checkCluster(c *facet.Ctx, in StrCase) *facet.Failure {
	fl := checkCluster1(c, in)
	if fl != nil && zwjPictAfterHangulOrRI(nfc(in.S[0])) {
		fl.With("zwj-pict-after", "hangul-or-ri")
	}
	return fl
}

func checkCluster1(c *facet.Ctx, in StrCase) *facet.Failure {
	c.Label("fn=" + in.Fn)
	s := nfc(in.S[0])
	cl := segment(s)
	multi := hasMultiRuneCluster(cl)
	if multi {
		c.Label("multi-rune-cluster")
	}
	if strings.Join(cl, "") != s {
		return facet.Failf("harness-segmenter", "own segmenter lost text for %+q", s)
	}
	if n := textsegCount(s); n != len(cl) {
		return facet.Failf("segmenter-disagreement", "own UAX#29 segmenter finds %d clusters %+q in %+q, the textseg library %d", len(cl), cl, s, n)
	}
	c.Label("sanity:textseg-agrees")
	switch in.Fn {
	case "strlen":
		o := call(stdlib.StrlenFunc, cty.StringVal(in.S[0]))
		got, fl := numResult(in.Fn, o, in)
		if fl != nil {
			return fl
		}
		if multi {
			c.NonTrivial()
		}
		g, acc := got.Int64()
		if acc != 0 || int(g) != len(cl) {
			return mismatch(in.Fn, in, got.String(), len(cl))
		}
		return nil
	case "reverse":
		o := call(stdlib.ReverseFunc, cty.StringVal(in.S[0]))
		got, fl := strResult(in.Fn, o, in)
		if fl != nil {
			return fl
		}
		if multi && len(cl) > 1 {
			c.NonTrivial()
		}
		var b strings.Builder
		for i := len(cl) - 1; i >= 0; i-- {
			b.WriteString(cl[i])
		}
		want := nfc(b.String())
		if got != want {
			return mismatch(in.Fn, in, strconv.QuoteToASCII(got), strconv.QuoteToASCII(want))
		}
		return nil
	}
	// substr
	off, ok1 := intOf(in.N[0])
	length, ok2 := intOf(in.N[1])
	if !ok1 || !ok2 {
		c.Label("out-of-domain:not-int")
		return nil
	}
	o := call(stdlib.SubstrFunc, cty.StringVal(in.S[0]), in.N[0].Cty(), in.N[1].Cty())
	got, fl := strResult(in.Fn, o, in)
	if fl != nil {
		return fl
	}
	// never split a cluster, whatever the offsets mean
	if fl := contiguousRun(in, cl, got); fl != nil {
		return fl
	}
	n := len(cl)
	start := off
	if off < 0 {
		// "The offset index may be negative, in which case it is relative to the end of the given string."
		start = n + off
		if start < 0 {
			c.Label("ref_abstains")
			c.Label("ref_abstains:negative-offset-before-start")
			return nil
		}
	}
	if length < -1 {
		// shipped row: "not documented, but <0 is the same as -1"
		c.Label("ref_abstains")
		c.Label("ref_abstains:length-below-minus-one")
		return nil
	}
	if start > n {
		start = n
	}
	end := n
	if length >= 0 && start+length < n {
		end = start + length
	}
	want := strings.Join(cl[start:end], "")
	// boundary clusters
	if (start > 0 && start <= n && multiRune(cl[start-1])) || (start < n && multiRune(cl[start])) || (end > 0 && end <= n && multiRune(cl[end-1])) || (end < n && multiRune(cl[end])) {
		c.Label("multi-rune-at-boundary")
		c.NonTrivial()
	}
	if off < 0 {
		c.Label("negative-offset")
	}
	if length == 0 {
		c.Label("zero-length")
	}
	if got != want {
		return mismatch(in.Fn, in, strconv.QuoteToASCII(got), strconv.QuoteToASCII(want)).With("offset-negative", strconv.FormatBool(off < 0)).With("length", strconv.Itoa(length))
	}
	return nil
}

// contiguousRun checks that got is the concatenation of a contiguous run of
// the input's clusters (possibly empty).
func contiguousRun(in StrCase, cl []string, got string) *facet.Failure {
	if got == "" {
		return nil
	}
	for i := range cl {
		if !strings.HasPrefix(got, cl[i]) {
			continue
		}
		rest := got
		j := i
		for j < len(cl) && strings.HasPrefix(rest, cl[j]) {
			rest = rest[len(cl[j]):]
			j++
			if rest == "" {
				return nil
			}
		}
	}
	return facet.Failf("cluster-split", "%s(%v) = %+q is not a run of whole grapheme clusters of the input %+q", in.Fn, in, got, cl).With("fn", in.Fn)
}

func genNoSplit(t *rapid.T) StrCase {
	// strings made mostly of multi-code-point clusters, arbitrary integer offsets
	n := rapid.IntRange(1, 8).Draw(t, "len")
	var b strings.Builder
	for i := 0; i < n; i++ {
		b.WriteString(rapid.SampledFrom(clusterPool[17:]).Draw(t, "c"))
	}
	return StrCase{Fn: "substr", S: []string{b.String()}, N: []spec.Num{gen.SmallInt(-12, 12).Draw(t, "offset"), gen.SmallInt(-5, 12).Draw(t, "length")}}
}

func checkNoSplit(c *facet.Ctx, in StrCase) *facet.Failure {
	fl := checkNoSplit1(c, in)
	if fl != nil && zwjPictAfterHangulOrRI(nfc(in.S[0])) {
		fl.With("zwj-pict-after", "hangul-or-ri")
	}
	return fl
}

func checkNoSplit1(c *facet.Ctx, in StrCase) *facet.Failure {
	c.Label("fn=" + in.Fn)
	s := nfc(in.S[0])
	cl := segment(s)
	if n := textsegCount(s); n != len(cl) {
		return facet.Failf("segmenter-disagreement", "own UAX#29 segmenter finds %d clusters %+q in %+q, the textseg library %d", len(cl), cl, s, n)
	}
	o := call(stdlib.SubstrFunc, cty.StringVal(in.S[0]), in.N[0].Cty(), in.N[1].Cty())
	got, fl := strResult(in.Fn, o, in)
	if fl != nil {
		return fl
	}
	if hasMultiRuneCluster(cl) && got != "" && got != s {
		c.NonTrivial()
	}
	if fl := wf.Check(o.val); fl != nil {
		return fl
	}
	return contiguousRun(in, cl, got)
}

// ------------------------------------------------------------------ cluster/no-split/format and /reverse

func genNoSplitFmt(t *rapid.T) StrCase {
	fn := rapid.SampledFrom([]string{"format", "reverse"}).Draw(t, "fn")
	n := rapid.IntRange(1, 8).Draw(t, "len")
	var b strings.Builder
	for i := 0; i < n; i++ {
		b.WriteString(rapid.SampledFrom(clusterPool[21:]).Draw(t, "c"))
	}
	if fn == "reverse" {
		return StrCase{Fn: fn, S: []string{b.String()}}
	}
	w := rapid.IntRange(-1, 12).Draw(t, "width")
	pr := rapid.IntRange(-1, 9).Draw(t, "prec")
	if pr == 0 {
		pr = 1 // precision zero: known finding C14-format-string-precision-zero, covered by ref/format
	}
	flag := rapid.SampledFrom([]string{"", "", "-"}).Draw(t, "flag")
	return StrCase{Fn: fn, S: []string{b.String(), flag}, N: []spec.Num{spec.NInt(int64(w)), spec.NInt(int64(pr))}}
}

func checkNoSplitFmt(c *facet.Ctx, in StrCase) *facet.Failure {
	fl := checkNoSplitFmt1(c, in)
	if fl != nil && zwjPictAfterHangulOrRI(nfc(in.S[0])) {
		fl.With("zwj-pict-after", "hangul-or-ri")
	}
	return fl
}

func checkNoSplitFmt1(c *facet.Ctx, in StrCase) *facet.Failure {
	c.Label("fn=" + in.Fn)
	s := nfc(in.S[0])
	cl := segment(s)
	if n := textsegCount(s); n != len(cl) {
		return facet.Failf("segmenter-disagreement", "own UAX#29 segmenter finds %d clusters %+q in %+q, the textseg library %d", len(cl), cl, s, n)
	}
	if in.Fn == "reverse" {
		o := call(stdlib.ReverseFunc, cty.StringVal(in.S[0]))
		got, fl := strResult(in.Fn, o, in)
		if fl != nil {
			return fl
		}
		if hasMultiRuneCluster(cl) && len(cl) > 1 {
			c.NonTrivial()
		}
		// every cluster of the input must survive intact, in reverse order
		// (the result is normalised again: a cluster that starts with a
		// combining mark, only possible after a control character, may fuse
		// with its new left neighbour; compare on the normalised join)
		rest := got
		var b strings.Builder
		for i := len(cl) - 1; i >= 0; i-- {
			b.WriteString(cl[i])
		}
		if rest != nfc(b.String()) {
			return facet.Failf("cluster-split", "reverse(%+q) = %+q does not consist of the input's clusters %+q in reverse order", s, got, cl).With("fn", in.Fn)
		}
		return nil
	}
	w, _ := intOf(in.N[0])
	pr, _ := intOf(in.N[1])
	v := Verb{Flags: in.S[1], Width: w, Prec: pr, Mode: "s"}
	o := call(stdlib.FormatFunc, cty.StringVal(v.text(false)), cty.StringVal(in.S[0]))
	got, fl := strResult(in.Fn, o, in)
	if fl != nil {
		return fl
	}
	keep := len(cl)
	if pr >= 0 && pr < keep {
		keep = pr
	}
	body := strings.Join(cl[:keep], "")
	pad := 0
	if w > keep {
		pad = w - keep
	}
	if hasMultiRuneCluster(cl) && (pr >= 0 && pr < len(cl) || pad > 0) {
		c.NonTrivial()
	}
	want := strings.Repeat(" ", pad) + body
	if in.S[1] == "-" {
		want = body + strings.Repeat(" ", pad)
	}
	want = nfc(want)
	if got != want {
		// distinguish a split cluster from a miscounted width
		trimmed := strings.Trim(got, " ")
		if !strings.HasPrefix(s, trimmed) || !atClusterBoundary(cl, len(trimmed)) {
			return facet.Failf("cluster-split", "format(%q, %+q) = %+q cuts the input inside a grapheme cluster (clusters %+q)", v.text(false), s, got, cl).With("fn", in.Fn)
		}
		return mismatch(in.Fn, fmt.Sprintf("%q, %+q", v.text(false), s), strconv.QuoteToASCII(got), strconv.QuoteToASCII(want))
	}
	return nil
}

func atClusterBoundary(cl []string, n int) bool {
	pos := 0
	for _, c := range cl {
		if pos == n {
			return true
		}
		pos += len(c)
	}
	return pos == n
}

var _ = sort.Strings

func init() {
	const strRule = "strings are concatenations of pieces from a cluster pool (ASCII, CR/LF/CRLF, combining sequences precomposed and decomposed, Hangul jamo and syllables, emoji with modifiers / ZWJ sequences / VS16, regional-indicator pairs, Prepend and SpacingMark samples, lone ZWJ and lone combining mark) or from word pools with case-mapping specials; every string is NFC-normalised by the reference exactly as cty.StringVal documents; "
	facet.Register(facet.F[StrCase]{
		Prop: "C14", Name: "ref/case-trim", Rule: strRule + "reference = strings.ToUpper/ToLower/Title/Trim/TrimPrefix/TrimSuffix, TrimFunc(unicode.IsSpace), TrimRight(\"\\r\\n\"); non-trivial = the function changes a string that has a multi-code-point cluster or non-ASCII text",
		Quick: 100000, Thorough: 300000, Gen: genCaseTrim, Check: wrap(checkCaseTrim),
	})
	facet.Register(facet.F[StrCase]{
		Prop: "C14", Name: "ref/indent-replace-split-join", Rule: strRule + "indent counts 0..9 (non-int and negative counts are out of domain); reference = own rune loop for indent, strings.ReplaceAll / Split / Join; non-trivial = result differs / has several parts and the text has a multi-code-point cluster or is non-ASCII; indent: has a newline and count > 0",
		Quick: 80000, Thorough: 300000, Gen: genIRSJ, Check: wrap(checkIRSJ),
	})
	facet.Register(facet.F[StrCase]{
		Prop: "C14", Name: "ref/regex", Rule: strRule + "patterns from a small RE2 grammar (atoms, classes, quantifiers, alternation, anchors; no / unnamed / named / mixed capture groups; 5% invalid patterns); reference = regexp (FindStringSubmatchIndex, FindAllStringSubmatchIndex, ReplaceAllString) mapped to the documented result shape (string / tuple / object, null for unmatched groups, error on no match / mixed groups / invalid pattern); non-trivial = capture groups, several matches, replacement changes the string, or a documented error",
		Quick: 60000, Thorough: 300000, Gen: genRegex, Check: wrap(checkRegex),
	})
	facet.Register(facet.F[StrCase]{
		Prop: "C14", Name: "ref/cluster", Rule: strRule + "substr offsets -10..10 and lengths -3..10 through int/float/parsed routes; reference = own UAX#29 segmenter restricted to the alphabet (cross-checked against go-textseg's count as a sanity check only): strlen = cluster count, reverse = clusters reversed, substr = clusters[offset:offset+length] with negative offset relative to the end and length -1 = rest; substr results must be runs of whole clusters; non-trivial = a multi-code-point cluster at the offset / end boundary (substr) or anywhere (strlen, reverse)",
		Quick: 100000, Thorough: 300000, Gen: genCluster, Check: wrap(checkCluster),
	})
	facet.Register(facet.F[StrCase]{
		Prop: "C14", Name: "cluster/no-split/substr", Rule: "strings of 1..8 multi-code-point clusters, any integer offset -12..12 and length -5..12 (also where the offset semantics are undocumented); asserted: the result is the concatenation of a contiguous run of the input's clusters; non-trivial = non-empty proper part of a string with a multi-code-point cluster",
		Quick: 60000, Thorough: 300000, Gen: genNoSplit, Check: wrap(checkNoSplit),
	})
	facet.Register(facet.F[StrCase]{
		Prop: "C14", Name: "cluster/no-split/format-reverse", Rule: "strings of 1..8 multi-code-point clusters; format with %<w>.<p>s (width -1..12, precision -1..9 except 0, optional '-') must output a prefix of whole clusters padded to the width counted in clusters; reverse must output the same clusters in reverse order; non-trivial = a multi-code-point cluster and truncation or padding (format), more than one cluster (reverse)",
		Quick: 60000, Thorough: 300000, Gen: genNoSplitFmt, Check: wrap(checkNoSplitFmt),
	})
}
