package c14

import (
	"fmt"
	"math"
	"math/big"
	"strconv"
	"strings"

	"github.com/zclconf/go-cty/cty"
	"github.com/zclconf/go-cty/cty/function"
	"github.com/zclconf/go-cty/cty/function/stdlib"
	"pgregory.net/rapid"

	"verif/harness/facet"
	"verif/harness/gen"
	"verif/harness/model"
	"verif/harness/spec"
)

// NumCase is the input of the numeric facets.
type NumCase struct {
	Fn string     `json:"fn"`
	A  []spec.Num `json:"a"`
	S  string     `json:"s,omitempty"` // parseint: the digit string
}

func (n NumCase) String() string {
	parts := make([]string, 0, len(n.A)+1)
	if n.Fn == "parseint" {
		parts = append(parts, strconv.Quote(n.S))
	}
	for _, a := range n.A {
		parts = append(parts, a.String())
	}
	return strings.Join(parts, ", ")
}

func (n NumCase) ctyArgs() []cty.Value {
	out := make([]cty.Value, len(n.A))
	for i, a := range n.A {
		out[i] = a.Cty()
	}
	return out
}

// ------------------------------------------------------------------ generators

var fracTails = []string{".5", ".25", ".75", ".1", ".9", ".000001", ".999999999999999999999999", ".000000000000000000000000000001", ".49999999999999999999", ".50000000000000000001"}

var bigInts = []string{"9007199254740992", "9007199254740993", "9223372036854775807", "9223372036854775808", "18446744073709551615", "18446744073709551616",
	"1180591620717411303424", "10000000000000000000000000000000000000000", "123456789012345678901234567890", "340282366920938463463374607431768211455"}

// c14Num draws a number by class: the shared class table plus the classes this
// property's risks live in (negative non-integers, integer +- a tiny fraction,
// fractions on top of integers beyond 2^53 / 2^63 / 2^64).
func c14Num(noInf bool) *rapid.Generator[spec.Num] {
	return rapid.Custom(func(t *rapid.T) spec.Num {
		switch rapid.IntRange(0, 9).Draw(t, "c14numclass") {
		case 0, 1:
			// small integer plus a fraction, either sign, parsed or float64-derived
			i := rapid.IntRange(0, 20).Draw(t, "ip")
			txt := strconv.Itoa(i) + rapid.SampledFrom(fracTails).Draw(t, "tail")
			if rapid.Bool().Draw(t, "neg") {
				txt = "-" + txt
			}
			if rapid.IntRange(0, 2).Draw(t, "viafloat") == 0 {
				f, _ := strconv.ParseFloat(txt, 64)
				return spec.NFloat(f)
			}
			return spec.NParse(txt)
		case 2:
			// big integer plus optional fraction, either sign
			txt := rapid.SampledFrom(bigInts).Draw(t, "big")
			if rapid.Bool().Draw(t, "frac") {
				txt += rapid.SampledFrom(fracTails).Draw(t, "tail")
			}
			if rapid.Bool().Draw(t, "neg") {
				txt = "-" + txt
			}
			return spec.NParse(txt)
		case 3:
			// low-precision big.Float with a fraction
			i := rapid.IntRange(-300, 300).Draw(t, "i8")
			q := rapid.SampledFrom([]string{"", ".5", ".25", ".125"}).Draw(t, "q")
			return spec.Num{Route: "big", Text: strconv.Itoa(i) + q, Prec: uint(rapid.SampledFrom([]int{12, 16, 24, 53, 64, 200}).Draw(t, "prec"))}
		default:
			return gen.Num(gen.NumOpts{NoInf: noInf}).Draw(t, "n")
		}
	})
}

// related draws a number related to a: the same real through another route,
// its negation, a clone, or a +- something tiny.
func related(t *rapid.T, a spec.Num) spec.Num {
	x := xOf(a)
	if x.inf != 0 {
		return a
	}
	switch rapid.IntRange(0, 5).Draw(t, "rel") {
	case 0:
		return a
	case 1:
		// same real, parsed at 512 bits from its exact decimal expansion (when short enough)
		txt := x.f.Text('f', -1)
		if len(txt) < 400 {
			return spec.NParse(txt)
		}
		return a
	case 2:
		// negation
		txt := x.f.Text('g', -1)
		if strings.HasPrefix(txt, "-") {
			txt = txt[1:]
		} else {
			txt = "-" + txt
		}
		if a.Route == "big" {
			return spec.Num{Route: "big", Text: txt, Prec: a.Prec}
		}
		if a.Route == "float" {
			return spec.Num{Route: "float", Text: txt}
		}
		return spec.NParse(txt)
	case 3:
		// float64 rounding of the same real
		f, _ := x.f.Float64()
		if math.IsInf(f, 0) {
			return a
		}
		return spec.NFloat(f)
	default:
		// a +- one unit far below
		f := new(big.Float).SetPrec(512).Set(x.f)
		d := new(big.Float).SetPrec(512).SetMantExp(big.NewFloat(1), -rapid.IntRange(1, 120).Draw(t, "tiny"))
		if x.r.Sign() != 0 {
			d.Mul(d, new(big.Float).SetPrec(512).Abs(x.f))
		}
		if rapid.Bool().Draw(t, "up") {
			f.Add(f, d)
		} else {
			f.Sub(f, d)
		}
		return spec.Num{Route: "big", Text: f.Text('g', 170), Prec: 512}
	}
}

func nonTrivialNum(c *facet.Ctx, as []spec.Num) {
	mixed := false
	var p0 uint
	two53 := new(big.Rat).SetInt(new(big.Int).Lsh(big.NewInt(1), 53))
	for i, a := range as {
		x := xOf(a)
		if i == 0 {
			p0 = x.prec
		} else if x.prec != p0 {
			mixed = true
		}
		if x.inf != 0 {
			c.Label("has-inf")
			continue
		}
		if !x.r.IsInt() && x.r.Sign() < 0 {
			c.Label("neg-nonint")
			c.NonTrivial()
		}
		if new(big.Rat).Abs(x.r).Cmp(two53) > 0 {
			c.Label("beyond-2^53")
			c.NonTrivial()
		}
	}
	if mixed {
		c.Label("mixed-precision")
		c.NonTrivial()
	}
}

const numRule = "function drawn uniformly from the family; operands from the number class table (small ints, width boundaries +-1, 2^53+-1, > 2^64, float64-derived incl. low-precision whole numbers, 512-bit decimals, negative fractions, integer +- tiny fraction, low-precision big.Float, zeros, infinities) and operands related to the first (same real via another route, negation, float64 rounding, +- tiny); non-trivial = some operand is a negative non-integer or beyond 2^53 in magnitude, or operand precisions differ; distinct = hash of the input JSON"

// ------------------------------------------------------------------ ref/arith

var arithFns = map[string]function.Function{
	"add": stdlib.AddFunc, "subtract": stdlib.SubtractFunc, "multiply": stdlib.MultiplyFunc,
	"divide": stdlib.DivideFunc, "modulo": stdlib.ModuloFunc, "negate": stdlib.NegateFunc,
}
var arithNames = []string{"add", "subtract", "multiply", "divide", "modulo", "negate"}

func genArith(t *rapid.T) NumCase {
	fn := rapid.SampledFrom(arithNames).Draw(t, "fn")
	a := c14Num(false).Draw(t, "a")
	if fn == "negate" {
		return NumCase{Fn: fn, A: []spec.Num{a}}
	}
	var b spec.Num
	if rapid.IntRange(0, 3).Draw(t, "related") == 0 {
		b = related(t, a)
	} else if fn == "modulo" && rapid.Bool().Draw(t, "smalldiv") {
		b = gen.SmallInt(-7, 12).Draw(t, "b")
	} else {
		b = c14Num(false).Draw(t, "b")
	}
	return NumCase{Fn: fn, A: []spec.Num{a, b}}
}

func checkArith(c *facet.Ctx, in NumCase) *facet.Failure {
	c.Label("fn=" + in.Fn)
	nonTrivialNum(c, in.A)
	f := arithFns[in.Fn]
	o := call(f, in.ctyArgs()...)
	a := xOf(in.A[0])
	if in.Fn == "negate" {
		got, fl := numResult(in.Fn, o, in)
		if fl != nil {
			return fl
		}
		if a.inf != 0 {
			return checkInf(in.Fn, in, got, -a.inf)
		}
		return checkExact(in.Fn, in, got, new(big.Rat).Neg(a.r))
	}
	b := xOf(in.A[1])
	p := maxPrec(a, b)
	ood := func(why string) *facet.Failure {
		c.Label("out-of-domain:" + why)
		return nil
	}
	abstain := func(why string) *facet.Failure {
		c.Label("ref_abstains")
		c.Label("ref_abstains:" + why)
		return nil
	}
	negzeroDivisor := b.inf == 0 && b.r.Sign() == 0 && b.f.Signbit()
	switch in.Fn {
	case "add", "subtract":
		bs := b
		if in.Fn == "subtract" {
			bs.inf = -b.inf
			if b.inf == 0 {
				bs.r = new(big.Rat).Neg(b.r)
			}
		}
		if a.inf != 0 || bs.inf != 0 {
			if a.inf != 0 && bs.inf != 0 && a.inf != bs.inf {
				return ood("opposing-infinities")
			}
			got, fl := numResult(in.Fn, o, in)
			if fl != nil {
				return fl
			}
			s := a.inf
			if s == 0 {
				s = bs.inf
			}
			return checkInf(in.Fn, in, got, s)
		}
		got, fl := numResult(in.Fn, o, in)
		if fl != nil {
			return fl
		}
		return checkTol(in.Fn, in, got, new(big.Rat).Add(a.r, bs.r), p)
	case "multiply":
		if a.inf != 0 || b.inf != 0 {
			if a.sign() == 0 || b.sign() == 0 {
				return ood("zero-times-infinity")
			}
			got, fl := numResult(in.Fn, o, in)
			if fl != nil {
				return fl
			}
			return checkInf(in.Fn, in, got, a.sign()*b.sign())
		}
		got, fl := numResult(in.Fn, o, in)
		if fl != nil {
			return fl
		}
		return checkTol(in.Fn, in, got, new(big.Rat).Mul(a.r, b.r), p)
	case "divide":
		switch {
		case a.inf != 0 && b.inf != 0:
			return ood("inf-by-inf")
		case a.inf != 0:
			if b.sign() == 0 {
				return abstain("inf-by-zero")
			}
			got, fl := numResult(in.Fn, o, in)
			if fl != nil {
				return fl
			}
			return checkInf(in.Fn, in, got, a.inf*b.sign())
		case b.inf != 0:
			got, fl := numResult(in.Fn, o, in)
			if fl != nil {
				return fl
			}
			return checkExact(in.Fn, in, got, new(big.Rat))
		case b.r.Sign() == 0:
			if a.r.Sign() == 0 {
				return ood("zero-by-zero")
			}
			if negzeroDivisor {
				return abstain("division-by-negative-zero")
			}
			// Value.Divide: "If the other value is exactly zero, this operation
			// will return either PositiveInfinity or NegativeInfinity,
			// depending on the sign of the receiver value."
			got, fl := numResult(in.Fn, o, in)
			if fl != nil {
				return fl
			}
			return checkInf(in.Fn, in, got, a.r.Sign())
		}
		got, fl := numResult(in.Fn, o, in)
		if fl != nil {
			return fl
		}
		return checkTol(in.Fn, in, got, new(big.Rat).Quo(a.r, b.r), p)
	case "modulo":
		if a.inf != 0 || b.inf != 0 {
			return abstain("modulo-with-infinity")
		}
		if b.r.Sign() == 0 {
			// the doc comment of Value.Modulo promises an infinity, the shipped
			// test rows pin "a": the sources contradict each other.
			return abstain("modulo-by-zero")
		}
		got, fl := numResult(in.Fn, o, in)
		if fl != nil {
			return fl
		}
		q := truncRat(new(big.Rat).Quo(a.r, b.r))
		want := new(big.Rat).Sub(a.r, new(big.Rat).Mul(b.r, new(big.Rat).SetInt(q)))
		whole := a.r.IsInt() && b.r.IsInt()
		if whole {
			c.Label("modulo-whole-operands")
		} else {
			c.Label("modulo-fractional-operands")
		}
		if got.IsInf() {
			return mismatch(in.Fn, in, model.NumText(got), "a finite remainder")
		}
		gr, _ := got.Rat(nil)
		if gr.Cmp(want) == 0 {
			c.Label("modulo-exact")
			return nil
		}
		pm := a.prec
		if b.prec < pm {
			pm = b.prec
		}
		if pm > 512 {
			pm = 512
		}
		if pm < 8 {
			pm = 8
		}
		facts := func(f *facet.Failure) *facet.Failure {
			f.Margin = relErr(gr, want)
			return f.With("quotient-bits", strconv.Itoa(q.BitLen())).With("prec-a", strconv.Itoa(int(a.prec))).With("prec-b", strconv.Itoa(int(b.prec))).With("whole", strconv.FormatBool(whole))
		}
		// Whole operands that both fit comfortably in the precision of the
		// less precise operand: every intermediate quantity is exactly
		// representable, so the exact truncated-division remainder (sign of
		// the dividend; pinned by the shipped rows) is required.
		if whole && a.r.Num().BitLen()+3 <= int(pm) && b.r.Num().BitLen()+3 <= int(pm) {
			c.Label("modulo-strict")
			return facts(mismatch(in.Fn, in, model.NumText(got), ratText(want)).With("class", "whole-not-exact"))
		}
		// Otherwise the tolerance is "within the precision of the operands":
		// Value.Modulo "takes a position on what [a fractional modulo] should
		// mean" without saying which, and a - b*q cancels, so the error is
		// measured against the magnitude of the dividend at the precision of
		// the less precise operand. Asserted: for the whole number k nearest
		// to (a - r)/b, |a - k*b - r| <= E, and |r| <= |b| + E, with
		// E = (|a| + |k*b|) * 2^-(pm-3).
		c.Label("modulo-weak-assertion")
		k := new(big.Rat).Quo(new(big.Rat).Sub(a.r, gr), b.r)
		kn := new(big.Rat).SetInt(floorRat(new(big.Rat).Add(k, big.NewRat(1, 2))))
		kb := new(big.Rat).Mul(kn, b.r)
		E := new(big.Rat).Add(new(big.Rat).Abs(a.r), new(big.Rat).Abs(kb))
		E.Quo(E, new(big.Rat).SetInt(new(big.Int).Lsh(big.NewInt(1), pm-3)))
		resid := new(big.Rat).Sub(new(big.Rat).Sub(a.r, kb), gr)
		resid.Abs(resid)
		if resid.Cmp(E) > 0 {
			return facts(mismatch(in.Fn, in, model.NumText(got), "a value congruent to the dividend modulo the divisor within the operands' precision; exact truncated remainder is "+ratText(want)).With("class", "not-congruent"))
		}
		lim := new(big.Rat).Add(new(big.Rat).Abs(b.r), E)
		if new(big.Rat).Abs(gr).Cmp(lim) > 0 {
			return facts(mismatch(in.Fn, in, model.NumText(got), "a remainder no larger in magnitude than the divisor (beyond the operands' precision); exact truncated remainder is "+ratText(want)).With("class", "remainder-too-large"))
		}
		return nil
	}
	return facet.Failf("harness", "unknown fn %q", in.Fn)
}

// ------------------------------------------------------------------ ref/compare

var cmpFns = map[string]function.Function{
	"equal": stdlib.EqualFunc, "notequal": stdlib.NotEqualFunc,
	"lessthan": stdlib.LessThanFunc, "lessthanorequalto": stdlib.LessThanOrEqualToFunc,
	"greaterthan": stdlib.GreaterThanFunc, "greaterthanorequalto": stdlib.GreaterThanOrEqualToFunc,
	"min": stdlib.MinFunc, "max": stdlib.MaxFunc,
}
var cmpNames = []string{"equal", "notequal", "lessthan", "lessthanorequalto", "greaterthan", "greaterthanorequalto", "min", "max"}

func genCompare(t *rapid.T) NumCase {
	fn := rapid.SampledFrom(cmpNames).Draw(t, "fn")
	a := c14Num(false).Draw(t, "a")
	n := 2
	if fn == "min" || fn == "max" {
		n = rapid.IntRange(1, 5).Draw(t, "n")
	}
	as := []spec.Num{a}
	for len(as) < n {
		if rapid.Bool().Draw(t, "related") {
			as = append(as, related(t, as[rapid.IntRange(0, len(as)-1).Draw(t, "of")]))
		} else {
			as = append(as, c14Num(false).Draw(t, "b"))
		}
	}
	return NumCase{Fn: fn, A: as}
}

func checkCompare(c *facet.Ctx, in NumCase) *facet.Failure {
	c.Label("fn=" + in.Fn)
	nonTrivialNum(c, in.A)
	o := call(cmpFns[in.Fn], in.ctyArgs()...)
	xs := make([]xnum, len(in.A))
	for i, a := range in.A {
		xs[i] = xOf(a)
	}
	if in.Fn == "min" || in.Fn == "max" {
		got, fl := numResult(in.Fn, o, in)
		if fl != nil {
			return fl
		}
		best := xs[0]
		for _, x := range xs[1:] {
			if (in.Fn == "min" && cmpX(x, best) < 0) || (in.Fn == "max" && cmpX(x, best) > 0) {
				best = x
			}
		}
		if best.inf != 0 {
			return checkInf(in.Fn, in, got, best.inf)
		}
		return checkExact(in.Fn, in, got, best.r)
	}
	if fl := inDomain(in.Fn, o, in); fl != nil {
		return fl
	}
	if o.val.Type() != cty.Bool || o.val.IsNull() {
		return facet.Failf("result-type", "%s(%v) returned %#v, want a bool", in.Fn, in, o.val)
	}
	got := o.val.True()
	a, b := xs[0], xs[1]
	cmp := cmpX(a, b)
	// cty's documented number equality (CHANGELOG 1.10.0) is based on the JSON
	// decimal text of the two numbers. DESIGN 3.5: text-based equality is
	// accepted wherever "equal" is meant; where exact comparison and text
	// comparison disagree (either way) the reference abstains on the
	// equality part of the answer (the discrepancy itself is property C03's).
	sameText := model.NumText(a.f) == model.NumText(b.f)
	eqFirm := (cmp == 0) == sameText
	if !eqFirm {
		c.Label("text-vs-exact-equality-disagree")
	}
	var want, firm bool
	switch in.Fn {
	case "equal":
		want, firm = cmp == 0, eqFirm
	case "notequal":
		want, firm = cmp != 0, eqFirm
	case "lessthan":
		want, firm = cmp < 0, true
	case "greaterthan":
		want, firm = cmp > 0, true
	case "lessthanorequalto":
		want, firm = cmp <= 0, eqFirm || cmp < 0
	case "greaterthanorequalto":
		want, firm = cmp >= 0, eqFirm || cmp > 0
	}
	if cmp == 0 {
		c.Label("operands-equal")
	}
	if !firm {
		c.Label("ref_abstains")
		return nil
	}
	if got != want {
		return mismatch(in.Fn, in, got, want)
	}
	return nil
}

// ------------------------------------------------------------------ ref/rounding

var roundFns = map[string]function.Function{
	"abs": stdlib.AbsoluteFunc, "ceil": stdlib.CeilFunc, "floor": stdlib.FloorFunc, "int": stdlib.IntFunc, "signum": stdlib.SignumFunc,
}
var roundNames = []string{"abs", "ceil", "floor", "int", "signum"}

func genRounding(t *rapid.T) NumCase {
	fn := rapid.SampledFrom(roundNames).Draw(t, "fn")
	return NumCase{Fn: fn, A: []spec.Num{c14Num(false).Draw(t, "a")}}
}

func checkRounding(c *facet.Ctx, in NumCase) *facet.Failure {
	c.Label("fn=" + in.Fn)
	nonTrivialNum(c, in.A)
	a := xOf(in.A[0])
	if a.inf == 0 && !a.r.IsInt() {
		c.Label("non-integer")
	}
	if in.Fn == "int" && a.inf != 0 {
		// doc comment of stdlib.Int: "If an infinity is passed to Int, an error is returned."
		c.Label("int-of-infinity")
		v, err := func() (v cty.Value, err error) {
			defer func() {
				if r := recover(); r != nil {
					err = fmt.Errorf("panic: %v", r)
				}
			}()
			return stdlib.Int(in.A[0].Cty())
		}()
		if err == nil {
			return facet.Failf("out-of-domain-accepted", "Int(%s) succeeded with %#v although the doc comment promises an error for infinity", a, v).With("fn", "int")
		}
		return nil
	}
	if in.Fn == "signum" {
		// DESIGN 5 C14 X: signum takes its argument through gocty as int; the
		// documented domain is what that conversion accepts.
		if a.inf != 0 || !a.r.IsInt() || !a.r.Num().IsInt64() {
			c.Label("out-of-domain:signum-not-int64")
			return nil
		}
	}
	o := call(roundFns[in.Fn], in.ctyArgs()...)
	got, fl := numResult(in.Fn, o, in)
	if fl != nil {
		return fl
	}
	if a.inf != 0 {
		switch in.Fn {
		case "abs":
			return checkInf(in.Fn, in, got, +1)
		case "ceil", "floor":
			// CHANGELOG 1.2.0: "will now return an infinity if given an infinity"
			return checkInf(in.Fn, in, got, a.inf)
		}
	}
	var want *big.Rat
	switch in.Fn {
	case "abs":
		want = new(big.Rat).Abs(a.r)
	case "ceil":
		want = new(big.Rat).SetInt(ceilRat(a.r))
	case "floor":
		want = new(big.Rat).SetInt(floorRat(a.r))
	case "int":
		want = new(big.Rat).SetInt(truncRat(a.r))
	case "signum":
		want = new(big.Rat).SetInt64(int64(a.r.Sign()))
	}
	return checkExact(in.Fn, in, got, want)
}

// ------------------------------------------------------------------ ref/log-pow-parseint

var lppNames = []string{"log", "pow", "parseint"}

const digits62 = "0123456789abcdefghijklmnopqrstuvwxyzABCDEFGHIJKLMNOPQRSTUVWXYZ"

var floatish = []float64{0.5, 2, 10, 2.718281828459045, 1.5, 3, 0.1, 100, 1024, 1e10, 1e-10, 7, 0.25, 16, 1e100, 1e-100, 123456.789, 1.0000001}

func genLPP(t *rapid.T) NumCase {
	fn := rapid.SampledFrom(lppNames).Draw(t, "fn")
	switch fn {
	case "log", "pow":
		pick := func(l string) spec.Num {
			switch rapid.IntRange(0, 5).Draw(t, l+"class") {
			case 0, 1:
				f := rapid.SampledFrom(floatish).Draw(t, l+"f")
				if rapid.IntRange(0, 3).Draw(t, l+"route") == 0 {
					return spec.NParse(strconv.FormatFloat(f, 'g', -1, 64))
				}
				return spec.NFloat(f)
			case 2:
				return gen.SmallInt(-4, 20).Draw(t, l+"i")
			case 3:
				f := rapid.Float64Range(1e-6, 1e6).Draw(t, l+"r")
				return spec.NFloat(f)
			default:
				return c14Num(false).Draw(t, l)
			}
		}
		return NumCase{Fn: fn, A: []spec.Num{pick("x"), pick("y")}}
	}
	// parseint
	var base int
	switch rapid.IntRange(0, 9).Draw(t, "baseclass") {
	case 0:
		base = rapid.SampledFrom([]int{-1, 0, 1, 63, 64, 100}).Draw(t, "badbase")
	case 1, 2:
		base = rapid.SampledFrom([]int{2, 8, 10, 16, 36, 37, 62}).Draw(t, "commonbase")
	default:
		base = rapid.IntRange(2, 62).Draw(t, "base")
	}
	b := base
	if b < 2 || b > 62 {
		b = 10
	}
	n := rapid.IntRange(1, 40).Draw(t, "ndigits")
	if rapid.IntRange(0, 15).Draw(t, "longdigits") == 8 {
		// integers far beyond 512 bits: a 2048-bit modulus in hex, 200 decimal
		// digits, 600 binary digits (parseint keeps every digit)
		n = rapid.SampledFrom([]int{90, 130, 160, 200, 520, 600}).Draw(t, "nlong")
	}
	var sb strings.Builder
	switch rapid.IntRange(0, 5).Draw(t, "sign") {
	case 0, 1:
		sb.WriteByte('-')
	case 2:
		if rapid.IntRange(0, 3).Draw(t, "plus") == 0 {
			sb.WriteByte('+')
		}
	}
	for i := 0; i < n; i++ {
		var d int
		if rapid.IntRange(0, 5).Draw(t, "edge") == 0 {
			d = rapid.SampledFrom([]int{0, b - 1}).Draw(t, "edgedigit")
		} else {
			d = rapid.IntRange(0, b-1).Draw(t, "digit")
		}
		ch := digits62[d]
		if b <= 36 && d >= 10 && rapid.Bool().Draw(t, "upper") {
			ch = digits62[d+26]
		}
		sb.WriteByte(ch)
	}
	s := sb.String()
	if rapid.IntRange(0, 3).Draw(t, "corrupt") == 0 {
		var bad []string
		if b < 62 {
			bad = append(bad, string(digits62[b])) // the first digit that is too large
		}
		if b < 36 {
			bad = append(bad, strings.ToUpper(string(digits62[b])), "z", "Z")
		}
		bad = append(bad, "_", " ", ".", "é", "٣", "-", "!", "́")
		x := rapid.SampledFrom(bad).Draw(t, "badchar")
		pos := rapid.IntRange(1, len(s)).Draw(t, "badpos")
		s = s[:pos] + x + s[pos:]
	}
	var bn spec.Num
	switch rapid.IntRange(0, 3).Draw(t, "baseroute") {
	case 0:
		bn = spec.NParse(strconv.Itoa(base))
	case 1:
		bn = spec.NFloat(float64(base))
	default:
		bn = spec.NInt(int64(base))
	}
	return NumCase{Fn: fn, A: []spec.Num{bn}, S: s}
}

// parseIntRef is the reference digit parser: optional '-', then one or more
// digits of the base; digits are 0-9, then letters: case-insensitive a-z for
// bases up to 36, a-z = 10..35 and A-Z = 36..61 above (pinned by the shipped
// rows "aA"/62 = 656 and "Aa"/62 = 2242).
// status: "ok", "invalid-char", "abstain".
func parseIntRef(s string, base int) (*big.Int, string) {
	neg := false
	body := s
	if strings.HasPrefix(body, "-") {
		neg = true
		body = body[1:]
	} else if strings.HasPrefix(body, "+") {
		return nil, "abstain" // a leading plus sign is not documented either way
	}
	if body == "" {
		return nil, "abstain"
	}
	v := new(big.Int)
	bb := big.NewInt(int64(base))
	for _, r := range body {
		d := -1
		switch {
		case r >= '0' && r <= '9':
			d = int(r - '0')
		case r >= 'a' && r <= 'z':
			d = int(r-'a') + 10
		case r >= 'A' && r <= 'Z':
			if base <= 36 {
				d = int(r-'A') + 10
			} else {
				d = int(r-'A') + 36
			}
		}
		if d < 0 || d >= base {
			return nil, "invalid-char"
		}
		v.Mul(v, bb)
		v.Add(v, big.NewInt(int64(d)))
	}
	if neg {
		v.Neg(v)
	}
	return v, "ok"
}

func checkLPP(c *facet.Ctx, in NumCase) *facet.Failure {
	c.Label("fn=" + in.Fn)
	switch in.Fn {
	case "log", "pow":
		nonTrivialNum(c, in.A)
		x, y := xOf(in.A[0]), xOf(in.A[1])
		if (x.inf != 0 || y.inf != 0) && in.Fn == "log" {
			c.Label("ref_abstains")
			c.Label("ref_abstains:infinite-operand")
			return nil
		}
		// The implementation is documented only by its Description; the
		// property allows float64 reference arithmetic: operands rounded to
		// the nearest float64, math.Log / math.Pow (an infinite operand of pow
		// is the float64 infinity).
		f64 := func(v xnum) float64 {
			if v.inf != 0 {
				return math.Inf(v.inf)
			}
			f, _ := v.f.Float64()
			if math.IsInf(f, 0) {
				return math.NaN() // finite but beyond float64: marker, see below
			}
			return f
		}
		xf, yf := f64(x), f64(y)
		if math.IsNaN(xf) || math.IsNaN(yf) {
			c.Label("out-of-domain:beyond-float64")
			return nil
		}
		if x.inf != 0 || y.inf != 0 {
			c.Label("infinite-operand")
		}
		var want float64
		if in.Fn == "log" {
			if !(xf > 0) || !(yf > 0) || yf == 1 {
				c.Label("out-of-domain:log-domain")
				return nil
			}
			want = math.Log(xf) / math.Log(yf)
		} else {
			want = math.Pow(xf, yf)
		}
		if math.IsNaN(want) {
			c.Label("out-of-domain:nan")
			return nil
		}
		if in.Fn == "pow" && math.IsInf(want, 0) && xf == 0 {
			// zero raised to a negative power: a division by zero, not described
			c.Label("ref_abstains")
			c.Label("ref_abstains:zero-to-negative-power")
			return nil
		}
		if in.Fn == "pow" && (math.IsInf(want, 0) || (want == 0 && xf != 0)) {
			// the float64 reference overflows to an infinity or underflows to
			// zero: the exact power is a real number, so the call is inside
			// the domain and the float64 answer is the reference
			o := call(stdlib.PowFunc, in.ctyArgs()...)
			got, fl := numResult(in.Fn, o, in)
			if fl != nil {
				return fl
			}
			c.Label("asserted")
			if math.IsInf(want, 0) {
				c.Label("float64-overflow")
				if !got.IsInf() || got.Sign() != int(math.Copysign(1, want)) {
					return mismatch(in.Fn, in, func() float64 { f, _ := got.Float64(); return f }(), want)
				}
				return nil
			}
			c.Label("float64-underflow")
			if got.Sign() != 0 {
				return mismatch(in.Fn, in, func() float64 { f, _ := got.Float64(); return f }(), want)
			}
			return nil
		}
		if math.IsInf(want, 0) {
			c.Label("ref_abstains")
			c.Label("ref_abstains:float64-overflow")
			return nil
		}
		var fn function.Function = stdlib.LogFunc
		if in.Fn == "pow" {
			fn = stdlib.PowFunc
		}
		o := call(fn, in.ctyArgs()...)
		got, fl := numResult(in.Fn, o, in)
		if fl != nil {
			return fl
		}
		c.Label("asserted")
		gf, _ := got.Float64()
		diff := math.Abs(gf - want)
		if diff > 1e-11*math.Abs(want) && diff > 1e-300 {
			f := mismatch(in.Fn, in, gf, want)
			f.Margin = diff / math.Max(math.Abs(want), 1e-300)
			return f
		}
		return nil
	}
	// parseint
	bx := xOf(in.A[0])
	base := int(bx.r.Num().Int64())
	args := []cty.Value{cty.StringVal(in.S), in.A[0].Cty()}
	o := call(stdlib.ParseIntFunc, args...)
	if len(in.S) > 20 {
		c.NonTrivial()
	}
	if base < 2 || base > 62 {
		c.Label("bad-base")
		c.NonTrivial()
		return mustFail(in.Fn, o, in, "the base is outside 2..62 (pinned by the shipped rows for 63, 1, 0, -1)")
	}
	c.Labelf("base-class=%s", map[bool]string{true: "<=36", false: ">36"}[base <= 36])
	want, st := parseIntRef(in.S, base)
	switch st {
	case "abstain":
		c.Label("ref_abstains")
		return nil
	case "invalid-char":
		c.Label("invalid-char")
		c.NonTrivial()
		return mustFail(in.Fn, o, in, "the string contains a character that is not a digit of the base (Description: \"raises an error if the string contains invalid characters\")")
	}
	c.Label("valid")
	got, fl := numResult(in.Fn, o, in)
	if fl != nil {
		return fl
	}
	return checkExact(in.Fn, in, got, new(big.Rat).SetInt(want))
}

func init() {
	facet.Register(facet.F[NumCase]{
		Prop: "C14", Name: "ref/arith", Rule: numRule + "; reference = exact big.Rat arithmetic with the tolerance rule of DESIGN 2.4 (exact when representable at the operands' precision, else relative error <= 2^-(p-1)); modulo: exact truncated-division remainder for whole operands, congruence + magnitude bound otherwise",
		Quick: 100000, Thorough: 400000, Gen: genArith, Check: wrap(checkArith),
	})
	facet.Register(facet.F[NumCase]{
		Prop: "C14", Name: "ref/compare", Rule: numRule + "; reference = exact comparison of the rationals (equal/notequal/<=/>= abstain where only cty's text-based equality makes the operands equal)",
		Quick: 80000, Thorough: 400000, Gen: genCompare, Check: wrap(checkCompare),
	})
	facet.Register(facet.F[NumCase]{
		Prop: "C14", Name: "ref/rounding", Rule: numRule + "; reference = exact integer rounding of the rational (ceil, floor, trunc), |x|, sign",
		Quick: 100000, Thorough: 400000, Gen: genRounding, Check: wrap(checkRounding),
	})
	facet.Register(facet.F[NumCase]{
		Prop: "C14", Name: "ref/log-pow-parseint", Rule: "log/pow: operands from float-ish pools, small ints, random floats and the class table, reference float64 math.Log/math.Pow on the nearest float64 of each operand, relative tolerance 1e-11; parseint: bases 2..62 (+ invalid bases), 1..40 digits of the base with edge digits, optional sign, 1/4 corrupted by one invalid character, reference = own Horner parser over big.Int; non-trivial = (log/pow) as for numbers, (parseint) more than 20 characters, an invalid character or an invalid base",
		Quick: 100000, Thorough: 400000, Gen: genLPP, Check: wrap(checkLPP),
	})
}
