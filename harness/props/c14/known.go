package c14

import (
	"encoding/json"
	"math"
	"strconv"
	"strings"

	"verif/harness/facet"
)

func dataInt(f *facet.Failure, k string) int {
	n, err := strconv.Atoi(f.Data[k])
	if err != nil {
		return -1
	}
	return n
}

func dataFloat(f *facet.Failure, k string) float64 {
	x, err := strconv.ParseFloat(f.Data[k], 64)
	if err != nil {
		return math.NaN()
	}
	return x
}

func init() {
	// SubstrFunc short-circuits "length == 0" only in the branch for a
	// non-negative offset; with a negative offset and length 0 the seek loop
	// never sees pos == length and returns the rest of the string
	// (CHANGELOG 1.3.0 promises a zero-length string for length zero).
	facet.RegisterKnown("c14SubstrNegOffsetZeroLen", func(facetName string, raw json.RawMessage, f *facet.Failure) bool {
		return facetName == "ref/cluster" && f.Kind == "ref-mismatch" && f.Data["fn"] == "substr" &&
			f.Data["offset-negative"] == "true" && f.Data["length"] == "0" && f.Data["zwj-pict-after"] == ""
	})
	// The grapheme-cluster scanner of go-textseg v15 keeps ZWJ + pictographic
	// attached to a preceding Hangul or Regional_Indicator sequence, where
	// UAX #29 rule GB11 requires the ZWJ to be preceded by a pictographic.
	// Recognised only when the input contains exactly that sequence.
	facet.RegisterKnown("c14TextsegZwjPict", func(facetName string, raw json.RawMessage, f *facet.Failure) bool {
		if f.Data["zwj-pict-after"] != "hangul-or-ri" {
			return false
		}
		switch f.Kind {
		case "segmenter-disagreement", "ref-mismatch", "cluster-split":
			return true
		}
		return false
	})
	// formatAppendString truncates only for "verb.Prec > 0", so an explicit
	// precision of zero (%.0s, %.0q) leaves the string whole, although "for
	// strings, precision limits the length of the input to be formatted".
	// Recognised only when the actual output equals the reference computed
	// with exactly that deviation.
	facet.RegisterKnown("c14FormatZeroPrecision", func(facetName string, raw json.RawMessage, f *facet.Failure) bool {
		return (facetName == "ref/format" || facetName == "ref/formatlist") && f.Kind == "ref-mismatch" &&
			f.Data["explained-by"] == "string-precision-zero-ignored"
	})
	// json.ImpliedType checks for trailing data with Decoder.More(), which
	// answers false when the next character is ']' or '}', so a complete
	// document followed by a stray closing bracket is accepted.
	facet.RegisterKnown("c14JSONDecodeTrailingCloser", func(facetName string, raw json.RawMessage, f *facet.Failure) bool {
		return facetName == "ref/json" && f.Kind == "out-of-domain-accepted" && f.Data["fn"] == "jsondecode" && f.Data["trailing"] == "closing-bracket"
	})
	// jsonencode returns the encoded text as a cty string, which is
	// NFC-normalised: an escape such as \t followed by a combining mark is
	// fused into "\<precomposed letter>", which is not valid JSON (or decodes
	// to a different string). Recognised only when the value holds a string
	// whose own JSON encoding is altered by normalisation.
	facet.RegisterKnown("c14JSONEncodeNFC", func(facetName string, raw json.RawMessage, f *facet.Failure) bool {
		return (facetName == "ref/json" || facetName == "codec/inverse") && f.Data["nfc-changes-encoding"] == "true"
	})
	// json.ImpliedType normalises member names when it builds the object type
	// but the value decoder looks the raw decoded name up in that type, so a
	// member whose name is not NFC (written with \u escapes) is "unsupported".
	facet.RegisterKnown("c14JSONDecodeNonNFCKey", func(facetName string, raw json.RawMessage, f *facet.Failure) bool {
		return facetName == "ref/json" && f.Kind == "in-domain-error" && f.Data["fn"] == "jsondecode" && f.Data["non-nfc-key"] == "true" &&
			strings.Contains(f.Msg, "unsupported attribute")
	})
}
