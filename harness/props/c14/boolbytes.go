package c14

import (
	"bytes"
	"fmt"

	"github.com/zclconf/go-cty/cty"
	"github.com/zclconf/go-cty/cty/function/stdlib"
	"pgregory.net/rapid"

	"verif/harness/facet"
	"verif/harness/spec"
)

// BBCase is the input of the bool/bytes facet (the remaining anchor files
// bool.go and bytes.go).
type BBCase struct {
	Fn  string     `json:"fn"`
	B   []bool     `json:"b,omitempty"`
	Buf []int      `json:"buf,omitempty"` // bytes as ints (JSON-friendly)
	N   []spec.Num `json:"n,omitempty"`
}

func (b BBCase) String() string { return mustJSON(b) }

func genBB(t *rapid.T) BBCase {
	fn := rapid.SampledFrom([]string{"not", "and", "or", "byteslen", "bytesslice"}).Draw(t, "fn")
	switch fn {
	case "not":
		return BBCase{Fn: fn, B: []bool{rapid.Bool().Draw(t, "a")}}
	case "and", "or":
		return BBCase{Fn: fn, B: []bool{rapid.Bool().Draw(t, "a"), rapid.Bool().Draw(t, "b")}}
	}
	n := rapid.IntRange(0, 12).Draw(t, "buflen")
	buf := make([]int, n)
	for i := range buf {
		buf[i] = rapid.IntRange(0, 255).Draw(t, "byte")
	}
	if fn == "byteslen" {
		return BBCase{Fn: fn, Buf: buf}
	}
	return BBCase{Fn: fn, Buf: buf, N: []spec.Num{genIntArg(t, "off", -1, n+1), genIntArg(t, "len", -1, n+1)}}
}

func checkBB(c *facet.Ctx, in BBCase) *facet.Failure {
	c.Label("fn=" + in.Fn)
	switch in.Fn {
	case "not", "and", "or":
		c.NonTrivial()
		var o outcome
		var want bool
		switch in.Fn {
		case "not":
			o, want = call(stdlib.NotFunc, cty.BoolVal(in.B[0])), !in.B[0]
		case "and":
			o, want = call(stdlib.AndFunc, cty.BoolVal(in.B[0]), cty.BoolVal(in.B[1])), in.B[0] && in.B[1]
		default:
			o, want = call(stdlib.OrFunc, cty.BoolVal(in.B[0]), cty.BoolVal(in.B[1])), in.B[0] || in.B[1]
		}
		if fl := inDomain(in.Fn, o, in); fl != nil {
			return fl
		}
		if o.val.Type() != cty.Bool || o.val.IsNull() || o.val.True() != want {
			return mismatch(in.Fn, in, fmt.Sprintf("%#v", o.val), want)
		}
		return nil
	}
	raw := make([]byte, len(in.Buf))
	for i, b := range in.Buf {
		raw[i] = byte(b)
	}
	orig := append([]byte(nil), raw...)
	bv := stdlib.BytesVal(raw)
	if in.Fn == "byteslen" {
		o := call(stdlib.BytesLenFunc, bv)
		got, fl := numResult(in.Fn, o, in)
		if fl != nil {
			return fl
		}
		if g, acc := got.Int64(); acc != 0 || int(g) != len(raw) {
			return mismatch(in.Fn, in, got.String(), len(raw))
		}
		return nil
	}
	off, ok1 := intOf(in.N[0])
	ln, ok2 := intOf(in.N[1])
	if !ok1 || !ok2 {
		c.Label("out-of-domain:not-int")
		return nil
	}
	o := call(stdlib.BytesSliceFunc, bv, in.N[0].Cty(), in.N[1].Cty())
	if off < 0 || ln < 0 || off+ln > len(raw) {
		c.Label("out-of-range")
		c.NonTrivial()
		return mustFail(in.Fn, o, in, "the requested range lies outside the buffer")
	}
	c.NonTrivial()
	if o.failed() {
		return facet.Failf("in-domain-error", "bytesslice(%v) failed for a range inside the buffer: %s", in, o).With("fn", in.Fn)
	}
	if !o.val.Type().Equals(stdlib.Bytes) || o.val.IsNull() || !o.val.IsKnown() {
		return facet.Failf("result-type", "bytesslice(%v) returned %#v", in, o.val).With("fn", in.Fn)
	}
	got := *(o.val.EncapsulatedValue().(*[]byte))
	if !bytes.Equal(got, orig[off:off+ln]) {
		return mismatch(in.Fn, in, fmt.Sprintf("%v", got), fmt.Sprintf("%v", orig[off:off+ln]))
	}
	if !bytes.Equal(raw, orig) {
		return facet.Failf("input-mutated", "bytesslice(%v) changed the input buffer", in).With("fn", in.Fn)
	}
	return nil
}

func init() {
	facet.Register(facet.F[BBCase]{
		Prop: "C14", Name: "ref/bool-bytes", Rule: "the two remaining anchor files: not/and/or on all boolean pairs against Go's operators; byteslen/bytesslice on buffers of 0..12 bytes with offset and length -1..len+1 against Go slicing (a range outside the buffer must fail); every asserted case counts as non-trivial",
		Quick: 10000, Thorough: 50000, Shards: 2, Gen: genBB, Check: wrap(checkBB),
	})
}
