package c14

import (
	"bytes"
	"encoding/csv"
	"encoding/json"
	"fmt"
	"io"
	"math/big"
	"sort"
	"strconv"
	"strings"

	"github.com/zclconf/go-cty/cty"
	"github.com/zclconf/go-cty/cty/function/stdlib"
	"pgregory.net/rapid"

	"verif/harness/facet"
	"verif/harness/gen"
	"verif/harness/model"
	"verif/harness/spec"
)

// CodecCase is the input of the json / csv facets.
type CodecCase struct {
	Fn  string  `json:"fn"`            // jsonencode, jsondecode, csvdecode, inverse
	Doc string  `json:"doc,omitempty"` // jsondecode / csvdecode: the text
	V   *spec.V `json:"v,omitempty"`   // jsonencode / inverse: the value
}

func (c CodecCase) String() string {
	if c.V != nil {
		return mustJSON(c.V)
	}
	return strconv.QuoteToASCII(c.Doc)
}

// ------------------------------------------------------------------ JSON document generator

var jsonStrings = []string{"", "a", "hello", "\u00e9", "e\u0301", "\u65e5\u672c", "\U0001F600", "a\"b", "back\\slash", "line\nbreak", "tab\t", "<html>&", " ", "/", "\u007f", "\uac01", "\u1100", "true", "null", "1"}
var jsonKeys = []string{"a", "b", "c", "id", "\u00e9", "e\u0301", "", "k 1", "\U0001F600", "A"}
var jsonNumbers = []string{"0", "-0", "1", "-1", "42", "3.5", "-2.25", "1e2", "1E+2", "1e-2", "1.0", "0.1", "100", "9007199254740993", "18446744073709551616", "123456789012345678901234567890", "0.30000000000000004",
	"3.14159265358979323846264338327950288419716939937510582097494459", "1e400", "-1e-400", "0e0", "0.000000000000000000001", "1.5e300", "2.5E-3"}

type jsonStyle struct {
	ws      int // 0 compact, 1 spaces, 2 newlines+indent, 3 odd whitespace
	escapes int // 0 minimal, 1 \uXXXX for non-ASCII, 2 escape slashes etc.
}

func renderJSONString(b *strings.Builder, s string, st jsonStyle) {
	b.WriteByte('"')
	for _, r := range s {
		switch {
		case r == '"':
			b.WriteString(`\"`)
		case r == '\\':
			b.WriteString(`\\`)
		case r == '\n':
			b.WriteString(`\n`)
		case r == '\t':
			b.WriteString(`\t`)
		case r == '\r':
			b.WriteString(`\r`)
		case r < 0x20:
			fmt.Fprintf(b, `\u%04x`, r)
		case r == '/' && st.escapes == 2:
			b.WriteString(`\/`)
		case r >= 0x80 && st.escapes >= 1:
			if r >= 0x10000 {
				r -= 0x10000
				fmt.Fprintf(b, `\u%04x\u%04X`, 0xD800+(r>>10), 0xDC00+(r&0x3FF))
			} else {
				fmt.Fprintf(b, `\u%04x`, r)
			}
		default:
			b.WriteRune(r)
		}
	}
	b.WriteByte('"')
}

// genJSONDoc draws a JSON text (depth <= 3) with a drawn rendering style.
func genJSONDoc(t *rapid.T) string {
	st := jsonStyle{ws: rapid.IntRange(0, 3).Draw(t, "ws"), escapes: rapid.IntRange(0, 2).Draw(t, "esc")}
	var b strings.Builder
	sp := func() {
		switch st.ws {
		case 1:
			b.WriteByte(' ')
		case 2:
			b.WriteString("\n  ")
		case 3:
			b.WriteString(rapid.SampledFrom([]string{"", " ", "\t", "\r\n", "  \n"}).Draw(t, "wsv"))
		}
	}
	var rec func(depth int)
	rec = func(depth int) {
		k := rapid.IntRange(0, 9).Draw(t, "jkind")
		if depth <= 0 && k >= 6 {
			k = k - 6
		}
		switch k {
		case 0:
			b.WriteString("null")
		case 1:
			b.WriteString(rapid.SampledFrom([]string{"true", "false"}).Draw(t, "jbool"))
		case 2, 3:
			b.WriteString(rapid.SampledFrom(jsonNumbers).Draw(t, "jnum"))
		case 4, 5:
			renderJSONString(&b, rapid.SampledFrom(jsonStrings).Draw(t, "jstr"), st)
		case 6, 7:
			n := rapid.IntRange(0, 3).Draw(t, "alen")
			b.WriteByte('[')
			for i := 0; i < n; i++ {
				if i > 0 {
					b.WriteByte(',')
				}
				sp()
				rec(depth - 1)
			}
			sp()
			b.WriteByte(']')
		default:
			n := rapid.IntRange(0, 3).Draw(t, "olen")
			keys := rapid.Permutation(jsonKeys).Draw(t, "okeys")[:n]
			b.WriteByte('{')
			for i, key := range keys {
				if i > 0 {
					b.WriteByte(',')
				}
				sp()
				renderJSONString(&b, key, st)
				if st.ws == 1 {
					b.WriteString(": ")
				} else {
					b.WriteByte(':')
				}
				rec(depth - 1)
			}
			sp()
			b.WriteByte('}')
		}
	}
	if st.ws == 3 {
		b.WriteString(" \n")
	}
	if rapid.IntRange(0, 3).Draw(t, "topstruct") != 0 {
		// mostly structured documents: wrap the drawn tree
		if rapid.Bool().Draw(t, "toparr") {
			b.WriteByte('[')
			sp()
			rec(2)
			b.WriteByte(',')
			sp()
			rec(2)
			sp()
			b.WriteByte(']')
		} else {
			b.WriteString("{")
			sp()
			renderJSONString(&b, rapid.SampledFrom(jsonKeys).Draw(t, "topkey"), st)
			b.WriteByte(':')
			sp()
			rec(2)
			sp()
			b.WriteByte('}')
		}
	} else {
		rec(3)
	}
	if st.ws >= 2 {
		b.WriteString("\n")
	}
	return b.String()
}

func corruptJSON(t *rapid.T, doc string) string {
	switch rapid.IntRange(0, 9).Draw(t, "corrupt") {
	case 0:
		if len(doc) > 1 {
			cut := rapid.IntRange(1, len(doc)-1).Draw(t, "cut")
			for cut > 0 && !isRuneStart(doc[cut]) {
				cut--
			}
			return doc[:cut]
		}
		return ""
	case 1:
		return doc + rapid.SampledFrom([]string{" x", ",", "]", " 1", "}", "null"}).Draw(t, "trail")
	case 2:
		return strings.Replace(doc, `"`, `'`, -1) + "'"
	case 3:
		return rapid.SampledFrom([]string{"", " ", "nul", "tru", "+1", "01", ".5", "1.", "NaN", "Infinity", "-", "[1,]", "{\"a\":}", "{a:1}", "[1 2]", "\"unterminated", "{\"a\" 1}", "0x10", "1e", "--1", "[", "\"\\x\"", "\"\ttab\""}).Draw(t, "bad")
	case 4:
		return strings.Replace(doc, ":", "=", 1) + "="
	default:
		return doc
	}
}

// ------------------------------------------------------------------ comparison of a decoded cty value with a Go JSON tree

// matchTree compares a cty value with the tree produced by encoding/json
// (UseNumber) or by the spec mirror. Numbers in want are json.Number
// (literal) or *big.Float.
func matchTree(got cty.Value, want any, path string) *facet.Failure {
	bad := func(f string, a ...any) *facet.Failure {
		return facet.Failf("ref-mismatch", "at %s: %s (got %#v)", path, fmt.Sprintf(f, a...), got)
	}
	if got.IsMarked() || !got.IsKnown() {
		return bad("marked or unknown")
	}
	switch w := want.(type) {
	case nil:
		if !got.IsNull() {
			return bad("want null")
		}
		if got.Type() != cty.DynamicPseudoType {
			return bad("want a null of the dynamic pseudo-type (JSON null carries no type), type is %#v", got.Type())
		}
	case bool:
		if got.Type() != cty.Bool || got.IsNull() || got.True() != w {
			return bad("want bool %t", w)
		}
	case string:
		if got.Type() != cty.String || got.IsNull() || got.AsString() != nfc(w) {
			return bad("want string %+q", nfc(w))
		}
	case json.Number:
		if got.Type() != cty.Number || got.IsNull() {
			return bad("want number %s", w)
		}
		f, _, err := big.ParseFloat(string(w), 10, 512, big.ToNearestEven)
		if err != nil {
			return facet.Failf("harness", "cannot parse reference number %q: %v", w, err)
		}
		if got.AsBigFloat().Cmp(f) != 0 {
			return bad("want number %s (parsed at 512 bits: %s)", w, f.Text('g', 40))
		}
	case *big.Float:
		if got.Type() != cty.Number || got.IsNull() {
			return bad("want number %s", model.NumText(w))
		}
		if !model.NumEqDoc(got.AsBigFloat(), w) {
			return bad("want a number equal to %s", model.NumText(w))
		}
	case []any:
		if !got.Type().IsTupleType() || got.IsNull() {
			return bad("want a tuple of %d", len(w))
		}
		if got.LengthInt() != len(w) {
			return bad("want a tuple of %d, got %d", len(w), got.LengthInt())
		}
		i := 0
		for it := got.ElementIterator(); it.Next(); i++ {
			_, e := it.Element()
			if fl := matchTree(e, w[i], fmt.Sprintf("%s[%d]", path, i)); fl != nil {
				return fl
			}
		}
	case map[string]any:
		if !got.Type().IsObjectType() || got.IsNull() {
			return bad("want an object with %d attributes", len(w))
		}
		norm := map[string]any{}
		for k, v := range w {
			norm[nfc(k)] = v
		}
		atys := got.Type().AttributeTypes()
		if len(atys) != len(norm) {
			return bad("want %d attributes, got %d", len(norm), len(atys))
		}
		keys := make([]string, 0, len(norm))
		for k := range norm {
			keys = append(keys, k)
		}
		sort.Strings(keys)
		for _, k := range keys {
			if _, ok := atys[k]; !ok {
				return bad("missing attribute %+q", k)
			}
			if fl := matchTree(got.GetAttr(k), norm[k], fmt.Sprintf("%s.%s", path, strconv.QuoteToASCII(k))); fl != nil {
				return fl
			}
		}
	default:
		return facet.Failf("harness", "matchTree: unexpected reference node %T", want)
	}
	return nil
}

// hasDupKeys reports whether any object in the document has two members whose
// names are equal after normalisation (outside the documented domain:
// CHANGELOG "ImpliedType now returns an error if a JSON object contains two
// properties of the same name", with a compatibility exception).
func hasDupKeys(doc string) bool {
	dec := json.NewDecoder(strings.NewReader(doc))
	dec.UseNumber()
	type frame struct {
		obj  bool
		keys map[string]bool
		key  bool // next string token is a key
	}
	var st []*frame
	for {
		tok, err := dec.Token()
		if err != nil {
			return false
		}
		top := func() *frame {
			if len(st) == 0 {
				return nil
			}
			return st[len(st)-1]
		}
		valueDone := func() {
			if f := top(); f != nil && f.obj {
				f.key = true
			}
		}
		switch v := tok.(type) {
		case json.Delim:
			switch v {
			case '{':
				st = append(st, &frame{obj: true, keys: map[string]bool{}, key: true})
			case '[':
				st = append(st, &frame{})
			default:
				st = st[:len(st)-1]
				valueDone()
			}
		case string:
			if f := top(); f != nil && f.obj && f.key {
				k := nfc(v)
				if f.keys[k] {
					return true
				}
				f.keys[k] = true
				f.key = false
			} else {
				valueDone()
			}
		default:
			valueDone()
		}
	}
}

// ------------------------------------------------------------------ values for jsonencode / inverse

var jsonTypeOpts = gen.TypeOpts{Depth: 3, NoSet: true}

func genJSONValue(t *rapid.T) spec.V {
	ty := gen.Type(jsonTypeOpts).Draw(t, "type")
	if ty.IsPrim() && rapid.IntRange(0, 3).Draw(t, "wrap") != 0 {
		switch rapid.IntRange(0, 3).Draw(t, "wrapkind") {
		case 0:
			ty = spec.List(ty)
		case 1:
			ty = spec.Tuple(ty, spec.String, spec.Number)
		case 2:
			ty = spec.Object(spec.Attr{Name: "a", T: ty}, spec.Attr{Name: "e\u0301", T: spec.List(spec.String)})
		default:
			ty = spec.Map(ty)
		}
	}
	return gen.Value(ty, gen.ValOpts{Null: true, NoInf: true}).Draw(t, "value")
}

// mirrorOf builds the plain-Go counterpart of a wholly known value spec.
// Numbers become *big.Float (the constructor's documented result).
func mirrorOf(v spec.V) any {
	if v.St == spec.Null {
		return nil
	}
	switch v.T.K {
	case spec.KBool:
		return v.B
	case spec.KNumber:
		return v.N.Float()
	case spec.KString:
		return nfc(v.S)
	case spec.KList, spec.KTuple, spec.KSet:
		out := make([]any, len(v.Elems))
		for i, e := range v.Elems {
			out[i] = mirrorOf(e)
		}
		return out
	case spec.KMap, spec.KObject:
		m := map[string]any{}
		for i, e := range v.Elems {
			m[nfc(v.Keys[i])] = mirrorOf(e)
		}
		return m
	}
	panic("mirrorOf: unsupported kind " + v.T.K)
}

// stdMirror converts the mirror into what encoding/json can marshal
// (numbers as json.Number holding the documented decimal text).
func stdMirror(m any) (any, bool) {
	hasNum := false
	var rec func(x any) any
	rec = func(x any) any {
		switch w := x.(type) {
		case *big.Float:
			hasNum = true
			return json.Number(model.NumText(w))
		case []any:
			out := make([]any, len(w))
			for i, e := range w {
				out[i] = rec(e)
			}
			return out
		case map[string]any:
			out := map[string]any{}
			for k, e := range w {
				out[k] = rec(e)
			}
			return out
		}
		return x
	}
	return rec(m), hasNum
}

// sameJSON compares two decoded JSON trees (UseNumber); numbers in got must
// round-trip to the mirror's number at that number's own precision.
func sameJSON(got any, want any, path string) string {
	switch w := want.(type) {
	case nil:
		if got != nil {
			return path + ": want null"
		}
	case bool:
		if g, ok := got.(bool); !ok || g != w {
			return path + ": want " + strconv.FormatBool(w)
		}
	case string:
		if g, ok := got.(string); !ok || g != w {
			return fmt.Sprintf("%s: want string %+q, got %+q", path, w, got)
		}
	case *big.Float:
		g, ok := got.(json.Number)
		if !ok {
			return fmt.Sprintf("%s: want a number, got %T", path, got)
		}
		// The number text is documented as a (slightly lossy) shortest decimal
		// approximation at the number's precision (CHANGELOG 1.10.0); its
		// exact form is property C15's business. Here: it must denote the
		// number within one unit in the last place of the number's precision.
		p := w.Prec()
		if p == 0 {
			p = 64
		}
		tr, ok2 := new(big.Rat).SetString(string(g))
		if !ok2 {
			return fmt.Sprintf("%s: number text %q does not parse", path, g)
		}
		wr, _ := w.Rat(nil)
		d := new(big.Rat).Sub(tr, wr)
		d.Abs(d)
		lim := new(big.Rat).Abs(wr)
		lim.Quo(lim, new(big.Rat).SetInt(new(big.Int).Lsh(big.NewInt(1), p-1)))
		if d.Cmp(lim) > 0 {
			return fmt.Sprintf("%s: number text %q does not denote %s within 2^-%d relative", path, g, w.Text('g', 60), p-1)
		}
	case []any:
		g, ok := got.([]any)
		if !ok || len(g) != len(w) {
			return fmt.Sprintf("%s: want an array of %d", path, len(w))
		}
		for i := range w {
			if d := sameJSON(g[i], w[i], fmt.Sprintf("%s[%d]", path, i)); d != "" {
				return d
			}
		}
	case map[string]any:
		g, ok := got.(map[string]any)
		if !ok || len(g) != len(w) {
			return fmt.Sprintf("%s: want an object of %d members", path, len(w))
		}
		keys := make([]string, 0, len(w))
		for k := range w {
			keys = append(keys, k)
		}
		sort.Strings(keys)
		for _, k := range keys {
			gv, ok := g[k]
			if !ok {
				return fmt.Sprintf("%s: missing member %+q", path, k)
			}
			if d := sameJSON(gv, w[k], path+"."+strconv.QuoteToASCII(k)); d != "" {
				return d
			}
		}
	}
	return ""
}

func decodeStd(doc string) (any, error) {
	dec := json.NewDecoder(strings.NewReader(doc))
	dec.UseNumber()
	var v any
	if err := dec.Decode(&v); err != nil {
		return nil, err
	}
	if _, err := dec.Token(); err != io.EOF {
		return nil, fmt.Errorf("trailing data")
	}
	return v, nil
}

// hasNonNFCKey: some object member name of the decoded document is not in
// normal form (possible only through \u escapes, the text itself is normalised).
func hasNonNFCKey(v any) bool {
	switch w := v.(type) {
	case []any:
		for _, e := range w {
			if hasNonNFCKey(e) {
				return true
			}
		}
	case map[string]any:
		for k, e := range w {
			if nfc(k) != k || hasNonNFCKey(e) {
				return true
			}
		}
	}
	return false
}

// validThenCloser: the text is one valid JSON value followed (after optional
// white space) by ']' or '}' (and anything else).
func validThenCloser(doc string) bool {
	dec := json.NewDecoder(strings.NewReader(doc))
	dec.UseNumber()
	var v any
	if err := dec.Decode(&v); err != nil {
		return false
	}
	rest := strings.TrimLeft(doc[dec.InputOffset():], " \t\r\n")
	return strings.HasPrefix(rest, "]") || strings.HasPrefix(rest, "}")
}

// nfcChangesEncoding reports whether some string (or key) of the value has a
// JSON encoding that Unicode normalisation alters: an escape such as \t, \n
// or \u001f directly followed by a combining mark that composes with the
// escape's last letter. jsonencode returns its result as a cty string, which
// is normalised (known finding C14-jsonencode-nfc-fuses-escape).
func nfcChangesEncoding(v spec.V) bool {
	chk := func(s string) bool {
		b, err := json.Marshal(nfc(s))
		return err == nil && nfc(string(b)) != string(b)
	}
	if v.St == spec.Known && v.T.K == spec.KString && chk(v.S) {
		return true
	}
	for _, k := range v.Keys {
		if chk(k) {
			return true
		}
	}
	for _, e := range v.Elems {
		if nfcChangesEncoding(e) {
			return true
		}
	}
	return false
}

func tagCodec(in CodecCase, fl *facet.Failure) *facet.Failure {
	if fl != nil && in.V != nil && nfcChangesEncoding(*in.V) {
		fl.With("nfc-changes-encoding", "true")
	}
	return fl
}

// ------------------------------------------------------------------ ref/json

func genJSONCase(t *rapid.T) CodecCase {
	switch rapid.SampledFrom([]string{"jsonencode", "jsondecode"}).Draw(t, "fn") {
	case "jsonencode":
		v := genJSONValue(t)
		return CodecCase{Fn: "jsonencode", V: &v}
	default:
		doc := genJSONDoc(t)
		if rapid.IntRange(0, 4).Draw(t, "invalid") == 3 {
			doc = corruptJSON(t, doc)
		}
		return CodecCase{Fn: "jsondecode", Doc: doc}
	}
}

func checkJSON(c *facet.Ctx, in CodecCase) *facet.Failure {
	c.Label("fn=" + in.Fn)
	switch in.Fn {
	case "jsonencode":
		return tagCodec(in, checkJSONEncode(c, in))
	case "jsondecode":
		doc := nfc(in.Doc)
		o := call(stdlib.JSONDecodeFunc, cty.StringVal(in.Doc))
		if !json.Valid([]byte(doc)) {
			c.Label("invalid-document")
			c.NonTrivial()
			fl := mustFail(in.Fn, o, in, "encoding/json rejects the document")
			if fl != nil && validThenCloser(doc) {
				fl.With("trailing", "closing-bracket")
			}
			return fl
		}
		want, err := decodeStd(doc)
		if err != nil {
			return facet.Failf("harness", "json.Valid accepted but decoding failed: %v", err)
		}
		if hasDupKeys(doc) {
			c.Label("out-of-domain:duplicate-keys")
			return nil
		}
		if fl := inDomain(in.Fn, o, in); fl != nil {
			if hasNonNFCKey(want) {
				fl.With("non-nfc-key", "true")
			}
			return fl
		}
		switch want.(type) {
		case []any, map[string]any:
			c.Label("structured")
			c.NonTrivial()
		default:
			c.Label("scalar")
		}
		if fl := matchTree(o.val, want, "$"); fl != nil {
			return fl.With("fn", in.Fn)
		}
		return nil
	}
	return facet.Failf("harness", "unknown fn %q", in.Fn)
}

func checkJSONEncode(c *facet.Ctx, in CodecCase) *facet.Failure {
	v, err := spec.Build(*in.V)
	if err != nil {
		c.Skip()
		return nil
	}
	o := call(stdlib.JSONEncodeFunc, v)
	got, fl := strResult(in.Fn, o, in)
	if fl != nil {
		return fl
	}
	m := mirrorOf(*in.V)
	if in.V.Depth() >= 1 {
		c.NonTrivial()
	}
	if !json.Valid([]byte(got)) {
		return facet.Failf("ref-mismatch", "jsonencode(%v) = %+q is not valid JSON", in, got).With("fn", in.Fn)
	}
	sm, hasNum := stdMirror(m)
	var buf bytes.Buffer
	enc := json.NewEncoder(&buf)
	if err := enc.Encode(sm); err != nil {
		return facet.Failf("harness", "reference encoder failed: %v", err)
	}
	wantBytes := nfc(strings.TrimSuffix(buf.String(), "\n"))
	if !hasNum {
		c.Label("bytes-compared")
		if got != wantBytes {
			return mismatch(in.Fn, in, strconv.QuoteToASCII(got), strconv.QuoteToASCII(wantBytes))
		}
		return nil
	}
	c.Label("tree-compared")
	gt, err := decodeStd(got)
	if err != nil {
		return facet.Failf("ref-mismatch", "jsonencode(%v) = %+q does not decode: %v", in, got, err).With("fn", in.Fn)
	}
	if d := sameJSON(gt, m, "$"); d != "" {
		return mismatch(in.Fn, in, strconv.QuoteToASCII(got), "a document equivalent to "+strconv.QuoteToASCII(wantBytes)+" ("+d+")")
	}
	return nil
}

// ------------------------------------------------------------------ codec/inverse

func genInverse(t *rapid.T) CodecCase {
	v := genJSONValue(t)
	return CodecCase{Fn: "inverse", V: &v}
}

func checkInverse(c *facet.Ctx, in CodecCase) *facet.Failure {
	return tagCodec(in, checkInverse1(c, in))
}

func checkInverse1(c *facet.Ctx, in CodecCase) *facet.Failure {
	v, err := spec.Build(*in.V)
	if err != nil {
		c.Skip()
		return nil
	}
	if in.V.Depth() >= 1 {
		c.NonTrivial()
	}
	o := call(stdlib.JSONEncodeFunc, v)
	enc, fl := strResult("jsonencode", o, in)
	if fl != nil {
		return fl
	}
	o2 := call(stdlib.JSONDecodeFunc, cty.StringVal(enc))
	if fl := inDomain("jsondecode", o2, strconv.QuoteToASCII(enc)); fl != nil {
		return fl
	}
	// JSONDecode: "The resulting value will consist only of primitive types,
	// object types, and tuple types": lists become tuples, maps objects,
	// typed nulls untyped nulls; numbers come back equal (cty's documented
	// number equality), strings and bools identical.
	if fl := matchTree(o2.val, mirrorOf(*in.V), "$"); fl != nil {
		fl.Msg = fmt.Sprintf("jsondecode(jsonencode(v)) differs from v: %s; v = %s, encoded %+q", fl.Msg, mustJSON(in.V), enc)
		return fl.With("fn", "inverse")
	}
	return nil
}

// ------------------------------------------------------------------ ref/csv

var csvFields = []string{"", "a", "b", "foo", "hello world", "1", "3.5", "\u00e9", "e\u0301", "\u65e5\u672c", "\U0001F600", "has,comma", "has\"quote", "multi\nline", "crlf\r\nline", " lead", "trail ", "\t", "'", ";", "x\u0301"}
var csvHeaders = []string{"a", "b", "c", "name", "id", "\u00e9", "e\u0301", "col 1", "", "A", "\u65e5\u672c", "x,y", "q\"r"}

func renderCSVField(t *rapid.T, f string) string {
	need := strings.ContainsAny(f, ",\"\n\r") || f == ""
	quote := need && f != ""
	if f == "" {
		quote = rapid.Bool().Draw(t, "quoteempty")
	} else if !need {
		quote = rapid.IntRange(0, 3).Draw(t, "quoteanyway") == 0
	}
	if quote {
		return `"` + strings.ReplaceAll(f, `"`, `""`) + `"`
	}
	return f
}

func genCSVCase(t *rapid.T) CodecCase {
	ncol := rapid.IntRange(1, 4).Draw(t, "ncol")
	nrow := rapid.IntRange(0, 4).Draw(t, "nrow")
	eol := rapid.SampledFrom([]string{"\n", "\n", "\r\n"}).Draw(t, "eol")
	var b strings.Builder
	hs := rapid.Permutation(csvHeaders).Draw(t, "headers")[:ncol]
	if rapid.IntRange(0, 14).Draw(t, "duphdr") == 9 && ncol > 1 {
		hs = append([]string(nil), hs...)
		hs[ncol-1] = hs[0]
	}
	for i, h := range hs {
		if i > 0 {
			b.WriteByte(',')
		}
		b.WriteString(renderCSVField(t, h))
	}
	b.WriteString(eol)
	for r := 0; r < nrow; r++ {
		n := ncol
		if rapid.IntRange(0, 19).Draw(t, "ragged") == 11 {
			n = ncol + rapid.SampledFrom([]int{-1, 1}).Draw(t, "delta")
		}
		if n < 1 {
			n = 1
		}
		for i := 0; i < n; i++ {
			if i > 0 {
				b.WriteByte(',')
			}
			b.WriteString(renderCSVField(t, rapid.SampledFrom(csvFields).Draw(t, "field")))
		}
		if r < nrow-1 || rapid.Bool().Draw(t, "finaleol") {
			b.WriteString(eol)
		}
		if rapid.IntRange(0, 14).Draw(t, "blankline") == 4 {
			b.WriteString(eol)
		}
	}
	doc := b.String()
	switch rapid.IntRange(0, 19).Draw(t, "csvcorrupt") {
	case 3:
		doc = ""
	case 7:
		doc += `"unterminated`
	case 11:
		doc += "a\"b,c" + eol
	}
	return CodecCase{Fn: "csvdecode", Doc: doc}
}

func checkCSV(c *facet.Ctx, in CodecCase) *facet.Failure {
	c.Label("fn=" + in.Fn)
	doc := nfc(in.Doc)
	o := call(stdlib.CSVDecodeFunc, cty.StringVal(in.Doc))
	recs, err := csv.NewReader(strings.NewReader(doc)).ReadAll()
	if err != nil {
		c.Label("invalid:" + csvErrClass(err))
		c.NonTrivial()
		return mustFail(in.Fn, o, in, "encoding/csv rejects the text: "+err.Error())
	}
	if len(recs) == 0 {
		c.Label("invalid:no-header")
		return mustFail(in.Fn, o, in, "there is no header row")
	}
	hdr := make([]string, len(recs[0]))
	seen := map[string]bool{}
	for i, h := range recs[0] {
		hdr[i] = nfc(h)
		if seen[hdr[i]] {
			c.Label("invalid:duplicate-header")
			c.NonTrivial()
			return mustFail(in.Fn, o, in, "two columns have the same name")
		}
		seen[hdr[i]] = true
	}
	if fl := inDomain(in.Fn, o, in); fl != nil {
		return fl
	}
	as := make([]spec.Attr, len(hdr))
	for i, h := range hdr {
		as[i] = spec.Attr{Name: h, T: spec.String}
	}
	wantTy := spec.List(spec.Object(as...))
	if !spec.FromCty(o.val.Type()).Equal(wantTy) {
		return facet.Failf("result-type", "csvdecode(%v) has type %#v, want %s", in, o.val.Type(), wantTy).With("fn", in.Fn)
	}
	if o.val.IsNull() {
		return facet.Failf("result-type", "csvdecode(%v) is null", in).With("fn", in.Fn)
	}
	rows := recs[1:]
	c.Labelf("rows=%s", bucket(len(rows)))
	if len(rows) > 0 && (strings.ContainsAny(doc, "\"") || !isASCII(doc)) {
		c.NonTrivial()
	}
	if o.val.LengthInt() != len(rows) {
		return mismatch(in.Fn, in, fmt.Sprintf("%d rows", o.val.LengthInt()), fmt.Sprintf("%d rows", len(rows)))
	}
	i := 0
	for it := o.val.ElementIterator(); it.Next(); i++ {
		_, row := it.Element()
		for j, h := range hdr {
			cell := row.GetAttr(h)
			if cell.IsNull() || !cell.IsKnown() || cell.AsString() != nfc(rows[i][j]) {
				return mismatch(in.Fn, in, fmt.Sprintf("row %d column %+q = %#v", i, h, cell), strconv.QuoteToASCII(nfc(rows[i][j])))
			}
		}
	}
	return nil
}

func csvErrClass(err error) string {
	s := err.Error()
	switch {
	case strings.Contains(s, "wrong number of fields"):
		return "field-count"
	case strings.Contains(s, "quote"):
		return "quote"
	}
	return "other"
}

func init() {
	facet.Register(facet.F[CodecCase]{
		Prop: "C14", Name: "ref/json", Rule: "jsonencode: values of generated types (depth <= 3, no sets/capsules/dynamic, nulls at any depth, all finite number classes, cluster-alphabet strings); reference = encoding/json on the plain-Go mirror: byte-identical when the value holds no number, else the decoded trees must agree and every number text must denote the number at its own precision. jsondecode: documents rendered from random trees (depth <= 3) with drawn whitespace / escape styles (\\uXXXX, surrogate pairs) and number spellings (exponents, -0, > 2^64, 60 digits, 1e400), 1/5 corrupted (truncated, trailing data, quotes, bad literals); reference = encoding/json.Valid + Decoder(UseNumber) mapped to the documented result (object/tuple/primitive types, JSON null = null of the dynamic pseudo-type, numbers parsed at 512 bits); invalid documents must fail; non-trivial = structured value / invalid document",
		Quick: 60000, Thorough: 300000, Gen: genJSONCase, Check: wrap(checkJSON),
	})
	facet.Register(facet.F[CodecCase]{
		Prop: "C14", Name: "codec/inverse", Rule: "same value generator as ref/json; jsondecode(jsonencode(v)) must equal v up to the documented type loss (list->tuple, map->object, typed null->untyped null) with numbers equal under cty's documented number equality; non-trivial = nested value",
		Quick: 50000, Thorough: 250000, Gen: genInverse, Check: wrap(checkInverse),
	})
	facet.Register(facet.F[CodecCase]{
		Prop: "C14", Name: "ref/csv", Rule: "tables of 1-4 columns and 0-4 rows from header/field pools (empty, unicode, embedded comma / quote / LF / CRLF, leading/trailing space), fields quoted when needed or at random, LF or CRLF line ends, optional final line end, blank lines, 1/20 ragged rows, duplicate headers, empty text, unterminated or bare quotes; reference = encoding/csv ReadAll mapped to list(object(header: string)); what encoding/csv rejects, an empty text and duplicate headers must fail; non-trivial = rows with quoting or non-ASCII, or a documented error",
		Quick: 60000, Thorough: 300000, Gen: genCSVCase, Check: wrap(checkCSV),
	})
}
