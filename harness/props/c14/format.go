package c14

import (
	"encoding/json"
	"fmt"
	"math/big"
	"sort"
	"strconv"
	"strings"

	"github.com/zclconf/go-cty/cty"
	"github.com/zclconf/go-cty/cty/function/stdlib"
	"pgregory.net/rapid"

	"verif/harness/facet"
	"verif/harness/model"
	"verif/harness/spec"
)

// ------------------------------------------------------------------ input model

// Verb is one formatting sequence, built from the documented grammar:
// '%' flags width? ('.' precision)? ('[' n ']')? letter
type Verb struct {
	Flags string `json:"flags,omitempty"`
	Width int    `json:"width"` // -1: none
	Prec  int    `json:"prec"`  // -1: none
	Idx   int    `json:"idx,omitempty"`
	Mode  string `json:"mode"`
}

func (v Verb) text(withIdx bool) string {
	var b strings.Builder
	b.WriteByte('%')
	b.WriteString(v.Flags)
	if v.Width >= 0 {
		b.WriteString(strconv.Itoa(v.Width))
	}
	if v.Prec >= 0 {
		b.WriteByte('.')
		b.WriteString(strconv.Itoa(v.Prec))
	}
	if withIdx && v.Idx > 0 {
		fmt.Fprintf(&b, "[%d]", v.Idx)
	}
	b.WriteString(v.Mode)
	return b.String()
}

func (v Verb) has(flag byte) bool { return strings.IndexByte(v.Flags, flag) >= 0 }

// FmtPart is a literal run or a verb.
type FmtPart struct {
	Lit  string `json:"lit,omitempty"`
	Verb *Verb  `json:"verb,omitempty"`
}

// FmtArg is the specification of one argument value.
type FmtArg struct {
	K     string    `json:"k"` // str, num, bool, null (untyped), nullstr, list (of string), tuple, obj, map (of string)
	S     string    `json:"s,omitempty"`
	N     *spec.Num `json:"n,omitempty"`
	B     bool      `json:"b,omitempty"`
	Items []FmtArg  `json:"items,omitempty"`
	Keys  []string  `json:"keys,omitempty"`
}

// FmtCase is the input of the format facets.
type FmtCase struct {
	Fn    string    `json:"fn"`
	Parts []FmtPart `json:"parts"`
	Args  []FmtArg  `json:"args"`
}

func (c FmtCase) formatString() string {
	var b strings.Builder
	for _, p := range c.Parts {
		if p.Verb != nil {
			b.WriteString(p.Verb.text(true))
		} else {
			b.WriteString(strings.ReplaceAll(p.Lit, "%", "%%"))
		}
	}
	return b.String()
}

func (c FmtCase) String() string {
	return fmt.Sprintf("%+q, %s", c.formatString(), mustJSON(c.Args))
}

func mustJSON(v any) string {
	b, err := json.Marshal(v)
	if err != nil {
		return err.Error()
	}
	return string(b)
}

func (a FmtArg) cty() cty.Value {
	switch a.K {
	case "str":
		return cty.StringVal(a.S)
	case "num":
		return a.N.Cty()
	case "bool":
		return cty.BoolVal(a.B)
	case "null":
		return cty.NullVal(cty.DynamicPseudoType)
	case "nullstr":
		return cty.NullVal(cty.String)
	case "list":
		if len(a.Items) == 0 {
			return cty.ListValEmpty(cty.String)
		}
		vs := make([]cty.Value, len(a.Items))
		for i, it := range a.Items {
			vs[i] = it.cty()
		}
		return cty.ListVal(vs)
	case "tuple":
		vs := make([]cty.Value, len(a.Items))
		for i, it := range a.Items {
			vs[i] = it.cty()
		}
		return cty.TupleVal(vs)
	case "obj":
		m := map[string]cty.Value{}
		for i, it := range a.Items {
			m[a.Keys[i]] = it.cty()
		}
		return cty.ObjectVal(m)
	case "map":
		if len(a.Items) == 0 {
			return cty.MapValEmpty(cty.String)
		}
		m := map[string]cty.Value{}
		for i, it := range a.Items {
			m[a.Keys[i]] = it.cty()
		}
		return cty.MapVal(m)
	}
	panic("bad FmtArg kind " + a.K)
}

// mirror is the plain-Go counterpart given to encoding/json.
func (a FmtArg) mirror() any {
	switch a.K {
	case "str":
		return nfc(a.S)
	case "num":
		return json.Number(model.NumText(a.N.Float()))
	case "bool":
		return a.B
	case "null", "nullstr":
		return nil
	case "list", "tuple":
		out := make([]any, len(a.Items))
		for i, it := range a.Items {
			out[i] = it.mirror()
		}
		return out
	case "obj", "map":
		m := map[string]any{}
		for i, it := range a.Items {
			m[nfc(a.Keys[i])] = it.mirror()
		}
		return m
	}
	panic("bad FmtArg kind " + a.K)
}

func (a FmtArg) isNull() bool { return a.K == "null" || a.K == "nullstr" }

// ------------------------------------------------------------------ generators

var fmtLits = []string{" ", "a", "x=", ", ", "!", "Hello ", "100%", "%", "\u65e5\u672c", "\u00e9", "\U0001F600", "[", "]", "1", ".", "-", "\n", "#"}
var fmtStrings = []string{"", "a", "hello", "h\u00e9llo", "\u65e5\u672c\u8a9e\u65e5\u672c\u8a9e", "e\u0301e\u0301", "\U0001F483\U0001F3FF", "\U0001F469\u200d\U0001F4BB!", "\U0001F1E9\U0001F1EA\U0001F1FA\U0001F1F8", "\uac01\u1100\u1161", "a\"b", "<&>", "tab\there", "line\nbreak", "\u2028", "true", "false", "x\u0301\u0301\u0301yz", "\r\n\r\n"}
var fmtNumStrings = []string{"0", "1", "-1", "42", "3.5", "-0.25", "1000000", "12345678901234567890", "0.1", "100000000000000000000000000000000000001", "1.00000000000000000000000000000000000001", "1.06", "255", "-255"}
var fmtNonNumStrings = []string{"abc", "", "12a", "one", "\u00e9"}
var fmtKeys = []string{"a", "b", "k", "\u00e9", "z<", "0"}

func genFmtNum(t *rapid.T) spec.Num {
	switch rapid.IntRange(0, 5).Draw(t, "numkind") {
	case 0, 1:
		return spec.NInt(int64(rapid.IntRange(-300, 70000).Draw(t, "int")))
	case 2:
		return spec.NParse(rapid.SampledFrom([]string{"0.5", "1.5", "2.5", "-2.5", "1.06", "0.1", "123.456", "-0.000123", "1e21", "1e-7", "1234567.891", "0.30000000000000004", "99.995", "9.5", "1e100", "18446744073709551616"}).Draw(t, "dec"))
	case 3:
		return spec.NFloat(rapid.SampledFrom([]float64{0.1, 0.5, 1.5, 2.5, 1e21, 1e-7, 123456789.125, 1e300, 5e-324, -3.75, 100, 1e6, 1e20}).Draw(t, "flt"))
	case 4:
		return spec.Num{Route: "zero"}
	default:
		return c14Num(true).Draw(t, "any")
	}
}

func genLeaf(t *rapid.T, label string, want string) FmtArg {
	// want: "", "str", "num", "bool" biases the kind towards what the verb converts to
	k := rapid.IntRange(0, 11).Draw(t, label+"kind")
	if want != "" && k == 10 {
		k = 9
	}
	switch want {
	case "int":
		switch {
		case k < 8:
			n := spec.NInt(int64(rapid.IntRange(-300, 70000).Draw(t, label+"int")))
			if rapid.IntRange(0, 4).Draw(t, label+"bigint") == 0 {
				n = spec.NParse(rapid.SampledFrom([]string{"18446744073709551616", "-9223372036854775809", "1e21", "255", "4294967296", "100000000000000000000000000000000000001"}).Draw(t, label+"bigintv"))
			}
			return FmtArg{K: "num", N: &n}
		case k < 10:
			return FmtArg{K: "str", S: rapid.SampledFrom([]string{"0", "1", "-1", "42", "255", "-255", "1000000", "12345678901234567890"}).Draw(t, label+"intstr")}
		}
	case "num":
		if k < 8 {
			k = 1
		} else if k < 10 {
			k = 2
		}
	case "str":
		if k < 10 {
			k = 0
		}
	case "bool":
		if k < 10 {
			k = 3
		}
	}
	switch k {
	case 0, 6:
		if rapid.Bool().Draw(t, label+"pool") {
			return FmtArg{K: "str", S: rapid.SampledFrom(fmtStrings).Draw(t, label+"s")}
		}
		return FmtArg{K: "str", S: genClusterString(t, label+"cs", 6)}
	case 1, 7:
		n := genFmtNum(t)
		return FmtArg{K: "num", N: &n}
	case 2:
		return FmtArg{K: "str", S: rapid.SampledFrom(fmtNumStrings).Draw(t, label+"ns")}
	case 3, 8:
		return FmtArg{K: "bool", B: rapid.Bool().Draw(t, label+"b")}
	case 4:
		return FmtArg{K: rapid.SampledFrom([]string{"null", "nullstr"}).Draw(t, label+"null")}
	case 5:
		return FmtArg{K: "str", S: rapid.SampledFrom(fmtNonNumStrings).Draw(t, label+"nn")}
	case 9:
		n := spec.NInt(int64(rapid.IntRange(-5, 300).Draw(t, label+"smallint")))
		return FmtArg{K: "num", N: &n}
	default:
		return genComposite(t, label)
	}
}

func genSimpleLeaf(t *rapid.T, label string) FmtArg {
	switch rapid.IntRange(0, 4).Draw(t, label+"sk") {
	case 0, 1:
		return FmtArg{K: "str", S: rapid.SampledFrom(fmtStrings).Draw(t, label+"s")}
	case 2:
		n := spec.NInt(int64(rapid.IntRange(-5, 300).Draw(t, label+"i")))
		if rapid.IntRange(0, 3).Draw(t, label+"dec") == 0 {
			n = spec.NParse(rapid.SampledFrom([]string{"0.5", "-1.25", "2.75"}).Draw(t, label+"d"))
		}
		return FmtArg{K: "num", N: &n}
	case 3:
		return FmtArg{K: "bool", B: rapid.Bool().Draw(t, label+"b")}
	default:
		return FmtArg{K: "nullstr"}
	}
}

func genComposite(t *rapid.T, label string) FmtArg {
	switch rapid.IntRange(0, 3).Draw(t, label+"ck") {
	case 0:
		n := rapid.IntRange(0, 3).Draw(t, label+"ln")
		a := FmtArg{K: "list"}
		for i := 0; i < n; i++ {
			a.Items = append(a.Items, FmtArg{K: "str", S: rapid.SampledFrom(fmtStrings).Draw(t, label+"ls")})
		}
		return a
	case 1:
		n := rapid.IntRange(0, 3).Draw(t, label+"tn")
		a := FmtArg{K: "tuple"}
		for i := 0; i < n; i++ {
			a.Items = append(a.Items, genSimpleLeaf(t, label+"ti"))
		}
		return a
	default:
		n := rapid.IntRange(0, 3).Draw(t, label+"on")
		keys := rapid.Permutation(fmtKeys).Draw(t, label+"keys")[:n]
		keys = append([]string(nil), keys...)
		sort.Strings(keys)
		k := "obj"
		if rapid.IntRange(0, 2).Draw(t, label+"asmap") == 0 {
			k = "map"
		}
		a := FmtArg{K: k, Keys: keys}
		for range keys {
			if k == "map" {
				a.Items = append(a.Items, FmtArg{K: "str", S: rapid.SampledFrom(fmtStrings).Draw(t, label+"ms")})
			} else {
				a.Items = append(a.Items, genSimpleLeaf(t, label+"oi"))
			}
		}
		return a
	}
}

var verbModes = []string{"v", "v", "s", "s", "q", "d", "d", "f", "e", "g", "t", "x", "X", "b", "o", "E", "G"}
var badModes = []string{"c", "z", "U", "p", "T", "w", "i", "u"}

func verbWants(mode string) string {
	switch mode {
	case "d", "b", "o", "x", "X":
		return "int"
	case "e", "E", "f", "g", "G":
		return "num"
	case "s", "q":
		return "str"
	case "t":
		return "bool"
	}
	return ""
}

func genVerb(t *rapid.T) Verb {
	v := Verb{Width: -1, Prec: -1}
	v.Mode = rapid.SampledFrom(verbModes).Draw(t, "mode")
	if rapid.IntRange(0, 29).Draw(t, "badmode") == 11 {
		v.Mode = rapid.SampledFrom(badModes).Draw(t, "badmodec")
	}
	// flags: each of the documented four, '#' mostly with v
	nf := rapid.SampledFrom([]int{0, 0, 0, 1, 1, 2, 2, 3}).Draw(t, "nflags")
	cand := []string{"-", "0", "+", " "}
	perm := rapid.Permutation(cand).Draw(t, "flagperm")
	for i := 0; i < nf; i++ {
		v.Flags += perm[i]
	}
	if (v.Mode == "v" && rapid.IntRange(0, 2).Draw(t, "sharpv") == 0) || rapid.IntRange(0, 39).Draw(t, "sharp") == 7 {
		v.Flags += "#"
	}
	if rapid.IntRange(0, 1).Draw(t, "haswidth") == 1 {
		v.Width = rapid.SampledFrom([]int{1, 2, 3, 4, 5, 6, 8, 10, 12, 20, 33}).Draw(t, "width")
	}
	if rapid.IntRange(0, 2).Draw(t, "hasprec") == 1 {
		v.Prec = rapid.SampledFrom([]int{0, 1, 2, 3, 4, 5, 6, 10, 20}).Draw(t, "prec")
	}
	return v
}

func genFmtCase(fn string) func(t *rapid.T) FmtCase {
	return func(t *rapid.T) FmtCase {
		c := FmtCase{Fn: fn}
		nverbs := rapid.SampledFrom([]int{1, 1, 2, 2, 3, 0, 1, 2}).Draw(t, "nverbs")
		var verbs []*Verb
		for i := 0; i <= nverbs; i++ {
			if rapid.Bool().Draw(t, "lit") {
				c.Parts = append(c.Parts, FmtPart{Lit: rapid.SampledFrom(fmtLits).Draw(t, "litv")})
			}
			if i < nverbs {
				v := genVerb(t)
				verbs = append(verbs, &v)
				c.Parts = append(c.Parts, FmtPart{Verb: &v})
			}
		}
		// arguments: by default exactly one per verb in order
		nargs := nverbs
		mode := rapid.IntRange(0, 19).Draw(t, "argmode")
		// explicit indices: permute / reuse arguments
		if nverbs > 0 && mode >= 10 && mode <= 15 {
			for _, v := range verbs {
				if rapid.Bool().Draw(t, "explicit") {
					v.Idx = rapid.IntRange(1, nverbs).Draw(t, "idx")
				}
			}
		}
		switch mode {
		case 3:
			nargs = nverbs + 1 // one too many
		case 4:
			if nverbs > 0 {
				nargs = nverbs - 1 // one too few
			}
		case 5:
			if nverbs > 0 {
				verbs[rapid.IntRange(0, nverbs-1).Draw(t, "farverb")].Idx = nverbs + rapid.IntRange(1, 2).Draw(t, "far")
			}
		}
		// which verb consumes which argument (reference walk), to bias kinds
		wants := make([]string, nargs)
		next := 1
		for _, v := range verbs {
			n := next
			if v.Idx > 0 {
				n = v.Idx
			}
			if n >= 1 && n <= nargs && wants[n-1] == "" {
				wants[n-1] = verbWants(v.Mode)
			}
			next = n + 1
		}
		for i := 0; i < nargs; i++ {
			c.Args = append(c.Args, genLeaf(t, fmt.Sprintf("a%d", i), wants[i]))
		}
		if fn == "formatlist" && nargs > 0 {
			// turn some arguments into sequences of a common length
			n := rapid.IntRange(0, 3).Draw(t, "seqlen")
			made := false
			for i := range c.Args {
				if c.Args[i].K == "list" || c.Args[i].K == "tuple" || rapid.IntRange(0, 2).Draw(t, "toseq") != 0 {
					ln := n
					if rapid.IntRange(0, 11).Draw(t, "badlen") == 5 {
						ln = n + 1
					}
					asList := wants[i] == "str" && rapid.Bool().Draw(t, "aslist")
					seq := FmtArg{K: "tuple"}
					if asList {
						seq.K = "list"
					}
					for j := 0; j < ln; j++ {
						if asList {
							seq.Items = append(seq.Items, FmtArg{K: "str", S: rapid.SampledFrom(fmtStrings).Draw(t, "seqs")})
						} else {
							it := genLeaf(t, fmt.Sprintf("a%d_%d", i, j), wants[i])
							if it.K == "list" || it.K == "tuple" || it.K == "obj" || it.K == "map" {
								it = genSimpleLeaf(t, "flat")
							}
							seq.Items = append(seq.Items, it)
						}
					}
					c.Args[i] = seq
					made = true
				}
			}
			_ = made
		}
		return c
	}
}

// ------------------------------------------------------------------ reference

type fstatus int

const (
	fOK fstatus = iota
	fErr
	fAbstain
)

// padClusters pads s to width grapheme clusters (own segmenter).
func padClusters(s string, v Verb) (string, fstatus) {
	if v.Width < 0 {
		return s, fOK
	}
	n := len(segment(s))
	if n >= v.Width {
		return s, fOK
	}
	if v.has('-') && v.has('0') {
		// "-": pad on the other side; "0": pad with zeros: the documentation
		// does not say which wins and Go's fmt (minus wins, spaces) differs
		// from the literal reading.
		return "", fAbstain
	}
	pad := " "
	if v.has('0') {
		pad = "0"
	}
	if v.has('-') {
		return s + strings.Repeat(pad, v.Width-n), fOK
	}
	return strings.Repeat(pad, v.Width-n) + s, fOK
}

func goVerb(v Verb) string { return v.text(false) }

// numOf: the number an argument converts to, per docs/convert.md (numbers;
// strings holding a decimal representation). ok=false: no conversion;
// abstain for strings the generator does not classify.
func numOf(a FmtArg) (*big.Float, fstatus) {
	switch a.K {
	case "num":
		return a.N.Float(), fOK
	case "str":
		s := nfc(a.S)
		for _, k := range fmtNumStrings {
			if s == k {
				f, _, err := big.ParseFloat(s, 10, 512, big.ToNearestEven)
				if err != nil {
					return nil, fAbstain
				}
				return f, fOK
			}
		}
		for _, k := range fmtNonNumStrings {
			if s == k {
				return nil, fErr
			}
		}
		// other strings: clearly non-numeric when they contain no digit at all
		if !strings.ContainsAny(s, "0123456789") {
			return nil, fErr
		}
		return nil, fAbstain
	case "bool", "list", "tuple", "obj", "map":
		return nil, fErr
	}
	return nil, fAbstain
}

func strOf(a FmtArg) (string, fstatus) {
	switch a.K {
	case "str":
		return nfc(a.S), fOK
	case "bool":
		return strconv.FormatBool(a.B), fOK
	case "num":
		// number -> string conversion: asserted only for whole numbers of
		// modest size, whose decimal text is unambiguous
		x := xOf(*a.N)
		if x.inf == 0 && x.r.IsInt() && x.r.Num().BitLen() < 60 && uint(x.r.Num().BitLen()) <= x.prec && !(x.r.Sign() == 0 && x.f.Signbit()) {
			return x.r.Num().String(), fOK
		}
		return "", fAbstain
	case "list", "tuple", "obj", "map":
		return "", fErr
	}
	return "", fAbstain
}

func truncClusters(s string, n int) string {
	cl := segment(s)
	if n >= len(cl) {
		return s
	}
	return strings.Join(cl[:n], "")
}

// formatOne is the reference for one verb applied to one argument.
// refOpts selects deviations from the documented behaviour, used only to
// characterise a mismatch for a known-finding predicate.
type refOpts struct {
	zeroPrecIgnored bool // %.0s / %.0q do not truncate
}

func formatOne(c *facet.Ctx, v Verb, a FmtArg, ro refOpts) (string, fstatus) {
	switch v.Mode {
	case "v", "t", "b", "d", "o", "x", "X", "e", "E", "f", "g", "G", "s", "q":
	default:
		// "An error is produced also for an unsupported format verb."
		return "", fErr
	}
	if a.isNull() && v.Mode != "v" {
		// "Null values produce the literal keyword "null" for %v and %#v, and produce an error otherwise."
		return "", fErr
	}
	sharpElsewhere := v.has('#') && v.Mode != "v"
	switch v.Mode {
	case "v":
		if v.Prec >= 0 || v.has('+') || v.has(' ') {
			// precision and sign flags with %v: the doc comment maps %v to
			// %s/%g/%t per type but does not say whether they carry over
			return "", fAbstain
		}
		if v.has('#') || a.isNull() || a.K == "list" || a.K == "tuple" || a.K == "obj" || a.K == "map" {
			b, err := json.Marshal(a.mirror())
			if err != nil {
				return "", fAbstain
			}
			if containsNum(a) {
				c.Label("json-number")
				if containsNegZero(a) {
					return "", fAbstain // JSON text of negative zero: property C15's business
				}
			}
			return padClusters(string(b), v)
		}
		switch a.K {
		case "str":
			return padClusters(nfc(a.S), v)
		case "num":
			if v.has('0') && v.Width >= 0 {
				return "", fAbstain // zero padding of a signed %g: position of the sign undocumented for %v
			}
			return padClusters(fmt.Sprintf("%g", a.N.Float()), v)
		case "bool":
			if v.Width >= 0 {
				return "", fAbstain // %t ignores width in the implementation; "for most values" in the docs
			}
			return strconv.FormatBool(a.B), fOK
		}
		return "", fAbstain
	case "t":
		if sharpElsewhere {
			return "", fAbstain
		}
		var b bool
		switch a.K {
		case "bool":
			b = a.B
		case "str":
			switch nfc(a.S) {
			case "true":
				b = true
			case "false":
				b = false
			case "1", "0":
				return "", fAbstain
			default:
				return "", fErr
			}
		case "num", "list", "tuple", "obj", "map":
			return "", fErr
		default:
			return "", fAbstain
		}
		if v.Width >= 0 {
			return "", fAbstain
		}
		return strconv.FormatBool(b), fOK
	case "b", "d", "o", "x", "X":
		f, st := numOf(a)
		if st != fOK {
			return "", st
		}
		if f.IsInf() {
			return "", fAbstain
		}
		if !f.IsInt() {
			return "", fErr // "requires integer"
		}
		if sharpElsewhere || v.Prec >= 0 {
			return "", fAbstain // '#' and precision on integer verbs are not documented
		}
		i, _ := f.Int(nil)
		return fmt.Sprintf(goVerb(v), i), fOK
	case "e", "E", "f", "g", "G":
		f, st := numOf(a)
		if st != fOK {
			return "", st
		}
		if f.IsInf() {
			return "", fAbstain
		}
		if sharpElsewhere {
			return "", fAbstain
		}
		return fmt.Sprintf(goVerb(v), f), fOK
	case "s", "q":
		s, st := strOf(a)
		if st != fOK {
			return "", st
		}
		if sharpElsewhere {
			return "", fAbstain
		}
		if v.Prec > 0 || (v.Prec == 0 && !ro.zeroPrecIgnored) {
			// "For strings, precision limits the length of the input to be formatted"
			s = truncClusters(s, v.Prec)
		}
		if v.Mode == "q" {
			b, err := json.Marshal(s)
			if err != nil {
				return "", fAbstain
			}
			s = string(b)
		}
		return padClusters(s, v)
	}
	return "", fAbstain
}

func containsNegZero(a FmtArg) bool {
	if a.K == "num" {
		f := a.N.Float()
		return f.Sign() == 0 && f.Signbit()
	}
	for _, it := range a.Items {
		if containsNegZero(it) {
			return true
		}
	}
	return false
}

func containsNum(a FmtArg) bool {
	if a.K == "num" {
		return true
	}
	for _, it := range a.Items {
		if containsNum(it) {
			return true
		}
	}
	return false
}

// formatRef walks the parts like the doc comment describes and returns the
// expected string, or the status error / abstain.
func formatRef(c *facet.Ctx, parts []FmtPart, args []FmtArg, ro refOpts) (string, fstatus, string) {
	var b strings.Builder
	next := 1
	highest := 0
	abstain := false
	why := ""
	for _, p := range parts {
		if p.Verb == nil {
			b.WriteString(p.Lit)
			continue
		}
		v := *p.Verb
		n := next
		if v.Idx > 0 {
			n = v.Idx
		}
		next = n + 1
		if n > highest {
			highest = n
		}
		if n > len(args) {
			return "", fErr, "accesses more values than are given"
		}
		s, st := formatOne(c, v, args[n-1], ro)
		switch st {
		case fErr:
			return "", fErr, fmt.Sprintf("verb %s cannot format argument %d (%s)", v.text(true), n, args[n-1].K)
		case fAbstain:
			abstain = true
			why = v.text(true) + " on " + args[n-1].K
		}
		b.WriteString(s)
	}
	if highest < len(args) {
		// pinned by the shipped rows "too many arguments; ..."
		return "", fErr, "more arguments than the format string uses"
	}
	if abstain {
		return "", fAbstain, why
	}
	return nfc(b.String()), fOK, ""
}

// formatShapeOK: every verb letter is supported, every (explicit or implicit)
// argument index exists, and no argument is left unused.
func formatShapeOK(parts []FmtPart, nargs int) bool {
	next, highest := 1, 0
	for _, p := range parts {
		if p.Verb == nil {
			continue
		}
		switch p.Verb.Mode {
		case "v", "t", "b", "d", "o", "x", "X", "e", "E", "f", "g", "G", "s", "q":
		default:
			return false
		}
		n := next
		if p.Verb.Idx > 0 {
			n = p.Verb.Idx
		}
		next = n + 1
		if n > highest {
			highest = n
		}
		if n > nargs {
			return false
		}
	}
	return highest >= nargs
}

func classifyFmt(c *facet.Ctx, in FmtCase) {
	nt := false
	for _, p := range in.Parts {
		if p.Verb == nil {
			continue
		}
		v := p.Verb
		c.Label("verb=" + v.Mode)
		if len(v.Flags) >= 2 {
			c.Label("flags>=2")
			nt = true
		}
		if v.Idx > 0 {
			c.Label("explicit-index")
			nt = true
		}
		if v.Width >= 0 {
			c.Label("has-width")
		}
		if v.Prec >= 0 {
			c.Label("has-prec")
		}
	}
	if nt {
		c.NonTrivial()
	}
}

func checkFormat(c *facet.Ctx, in FmtCase) *facet.Failure {
	c.Label("fn=" + in.Fn)
	classifyFmt(c, in)
	fs := in.formatString()
	if nfc(fs) != fs {
		// a literal would fuse with a neighbouring verb under normalisation;
		// the generator's literal pool is chosen so that this cannot happen
		c.Skip()
		return nil
	}
	args := []cty.Value{cty.StringVal(fs)}
	for _, a := range in.Args {
		args = append(args, a.cty())
	}
	o := call(stdlib.FormatFunc, args...)
	want, st, why := formatRef(c, in.Parts, in.Args, refOpts{})
	fl := judgeFormat(c, in, o, st, why, func(got cty.Value) *facet.Failure {
		if got.Type() != cty.String || got.IsNull() {
			return facet.Failf("result-type", "format(%v) returned %#v", in, got).With("fn", in.Fn)
		}
		if g := got.AsString(); g != want {
			fl := mismatch(in.Fn, in, strconv.QuoteToASCII(g), strconv.QuoteToASCII(want))
			if alt, st2, _ := formatRef(&facet.Ctx{}, in.Parts, in.Args, refOpts{zeroPrecIgnored: true}); st2 == fOK && alt == g {
				fl.With("explained-by", "string-precision-zero-ignored")
			}
			return fl
		}
		return nil
	})
	return tagFmt(in, fl)
}

func judgeFormat(c *facet.Ctx, in FmtCase, o outcome, st fstatus, why string, cmp func(cty.Value) *facet.Failure) *facet.Failure {
	switch st {
	case fAbstain:
		c.Label("ref_abstains")
		return nil
	case fErr:
		c.Label("expect-error")
		cls := why
		if i := strings.Index(cls, " ("); i >= 0 {
			cls = cls[i:]
		}
		if strings.HasPrefix(why, "verb ") {
			cls = "conversion" + cls
		}
		c.Label("expect-error:" + cls)
		return mustFail(in.Fn, o, in, why)
	}
	c.Label("expect-success")
	if fl := inDomain(in.Fn, o, in); fl != nil {
		return fl
	}
	return cmp(o.val)
}

// tagFmt attaches facts for known-finding predicates.
func tagFmt(in FmtCase, fl *facet.Failure) *facet.Failure {
	if fl == nil {
		return nil
	}
	for _, a := range in.Args {
		if hasZwjPict(a) {
			fl.With("zwj-pict-after", "hangul-or-ri")
		}
	}
	return fl
}

func hasZwjPict(a FmtArg) bool {
	if a.K == "str" && zwjPictAfterHangulOrRI(nfc(a.S)) {
		return true
	}
	for _, it := range a.Items {
		if hasZwjPict(it) {
			return true
		}
	}
	return false
}

func checkFormatList(c *facet.Ctx, in FmtCase) *facet.Failure {
	c.Label("fn=" + in.Fn)
	classifyFmt(c, in)
	fs := in.formatString()
	if nfc(fs) != fs {
		c.Skip()
		return nil
	}
	args := []cty.Value{cty.StringVal(fs)}
	for _, a := range in.Args {
		args = append(args, a.cty())
	}
	o := call(stdlib.FormatListFunc, args...)
	// "Any list arguments passed must have the same length, which dictates the length of the resulting list."
	n := -1
	for _, a := range in.Args {
		if a.K == "list" || a.K == "tuple" {
			if n == -1 {
				n = len(a.Items)
			} else if n != len(a.Items) {
				c.Label("length-mismatch")
				c.NonTrivial()
				return tagFmt(in, mustFail(in.Fn, o, in, "sequence arguments have different lengths"))
			}
		}
	}
	iter := n
	if n == -1 {
		iter = 1
		c.Label("no-sequence-args")
	} else {
		c.Labelf("seqlen=%d", n)
	}
	var wants []string
	st := fOK
	why := ""
	for i := 0; i < iter; i++ {
		row := make([]FmtArg, len(in.Args))
		for j, a := range in.Args {
			if a.K == "list" || a.K == "tuple" {
				row[j] = a.Items[i]
			} else {
				row[j] = a
			}
		}
		w, s, y := formatRef(c, in.Parts, row, refOpts{})
		if s == fErr {
			st, why = fErr, y
			break
		}
		if s == fAbstain {
			st, why = fAbstain, y
		}
		wants = append(wants, w)
	}
	if iter == 0 {
		// nothing is formatted: whether an invalid format string is still
		// reported is not documented; a successful result must be empty.
		c.Label("empty-sequences")
		if o.failed() {
			if formatShapeOK(in.Parts, len(in.Args)) {
				// supported verbs, every index within the arguments, every
				// argument used: with nothing to format nothing can go wrong
				// ("the length of the list arguments dictates the length of
				// the resulting list")
				return tagFmt(in, facet.Failf("in-domain-error", "formatlist(%v) failed although all sequence arguments are empty and the format string is well-formed: %s", in, o).With("fn", in.Fn))
			}
			c.Label("ref_abstains")
			return nil
		}
		if fl := inDomain(in.Fn, o, in); fl != nil {
			return fl
		}
		return expectStringList(in.Fn, in, o.val, nil)
	}
	fl := judgeFormat(c, in, o, st, why, func(got cty.Value) *facet.Failure {
		fl := expectStringList(in.Fn, in, got, wants)
		if fl != nil && fl.Kind == "ref-mismatch" {
			var alts []string
			ok := true
			for i := 0; i < iter; i++ {
				row := make([]FmtArg, len(in.Args))
				for j, a := range in.Args {
					if a.K == "list" || a.K == "tuple" {
						row[j] = a.Items[i]
					} else {
						row[j] = a
					}
				}
				w, s, _ := formatRef(&facet.Ctx{}, in.Parts, row, refOpts{zeroPrecIgnored: true})
				if s != fOK {
					ok = false
				}
				alts = append(alts, w)
			}
			if ok && expectStringList(in.Fn, in, got, alts) == nil {
				fl.With("explained-by", "string-precision-zero-ignored")
			}
		}
		return fl
	})
	return tagFmt(in, fl)
}

func init() {
	const fmtRule = "format strings built from the documented grammar: 0-3 verbs (v s q d f e g t x X b o E G, 1/30 an unsupported letter) with 0-3 of the flags '-', '0', '+', ' ' (and '#', mostly on v), optional width 1..33, optional precision 0..20, optional explicit [n] indices (in range, reused, or beyond the arguments), literal runs (incl. %%, non-ASCII); arguments matched to the verbs' conversions 7/12 of the time, else any of string (cluster alphabet), numeric string, number (class table, no infinities), bool, null, list, tuple, object, map; one argument too many / too few in 1/10 each; "
	facet.Register(facet.F[FmtCase]{
		Prop: "C14", Name: "ref/format", Rule: fmtRule + "reference = the doc comment of Format: fmt.Sprintf on *big.Int / *big.Float for the numeric verbs, own grapheme-cluster truncation and padding for %s/%q/%v, encoding/json for %q, %#v and non-primitive %v; documented errors (unsupported verb, null with a verb other than v, impossible conversion, missing argument, unused argument) must fail; undocumented combinations abstain; non-trivial = a verb with >= 2 flags or an explicit index",
		Quick: 120000, Thorough: 400000, Gen: genFmtCase("format"), Check: wrap(checkFormat),
	})
	facet.Register(facet.F[FmtCase]{
		Prop: "C14", Name: "ref/formatlist", Rule: fmtRule + "some arguments turned into lists/tuples of a common length 0..3 (1/12 with a different length); reference = Format applied per position with non-sequence arguments repeated; different lengths must fail; non-trivial as for format, or a length mismatch",
		Quick: 80000, Thorough: 300000, Gen: genFmtCase("formatlist"), Check: wrap(checkFormatList),
	})
}
