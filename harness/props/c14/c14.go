// Package c14: number, string, encoding and date functions of the standard
// function library match reference semantics (property C14).
//
// Every facet draws a function name uniformly from its family, then draws
// in-domain (and some documented out-of-domain) arguments for it as plain
// data, calls the function through function.Function.Call, and compares the
// outcome with a reference computed WITHOUT the library: math/big and float64
// math for numbers, strings/regexp/unicode plus an own grapheme-cluster
// segmenter for strings, fmt for the printf-like formatter, encoding/json,
// encoding/csv and time for the codecs and date functions.
//
// Where the documentation (function Description, doc comment of the Go
// wrapper, CHANGELOG) is silent the reference abstains: the case is labelled
// "ref_abstains" and nothing is asserted about the result.
package c14

import (
	"fmt"

	"github.com/zclconf/go-cty/cty"
	"github.com/zclconf/go-cty/cty/function"

	"verif/harness/facet"
	"verif/harness/wf"
)

// outcome of one call through the function protocol.
type outcome struct {
	val      cty.Value
	err      error
	panicked bool
	pv       any
}

func (o outcome) failed() bool { return o.panicked || o.err != nil }

func (o outcome) String() string {
	switch {
	case o.panicked:
		return fmt.Sprintf("panic(%v)", o.pv)
	case o.err != nil:
		return fmt.Sprintf("error(%v)", o.err)
	default:
		return fmt.Sprintf("%#v", o.val)
	}
}

func call(f function.Function, args ...cty.Value) (o outcome) {
	defer func() {
		if r := recover(); r != nil {
			o = outcome{panicked: true, pv: r}
		}
	}()
	v, err := f.Call(args)
	return outcome{val: v, err: err}
}

// inDomain asserts that a call the reference considers in-domain succeeded
// with a well-formed, wholly known, unmarked value.
func inDomain(fn string, o outcome, args any) *facet.Failure {
	if o.panicked {
		return facet.Failf("in-domain-panic", "%s(%v) panicked on documented in-domain arguments: %v", fn, args, o.pv).With("fn", fn)
	}
	if o.err != nil {
		return facet.Failf("in-domain-error", "%s(%v) failed on documented in-domain arguments: %v", fn, args, o.err).With("fn", fn)
	}
	if f := wf.Check(o.val); f != nil {
		return f
	}
	if !o.val.IsWhollyKnown() {
		return facet.Failf("not-wholly-known", "%s(%v) returned a value that is not wholly known for wholly known arguments: %#v", fn, args, o.val).With("fn", fn)
	}
	if o.val.ContainsMarked() {
		return facet.Failf("marks-invented", "%s(%v) returned marks for unmarked arguments: %#v", fn, args, o.val).With("fn", fn)
	}
	return nil
}

// mustFail asserts that a call whose arguments are documented to be rejected
// did not succeed. (A panic counts as failing: totality is property C11's.)
func mustFail(fn string, o outcome, args any, why string) *facet.Failure {
	if !o.failed() {
		return facet.Failf("out-of-domain-accepted", "%s(%v) succeeded with %#v although %s", fn, args, o.val, why).With("fn", fn)
	}
	return nil
}

func mismatch(fn string, args any, got, want any) *facet.Failure {
	return facet.Failf("ref-mismatch", "%s(%v) = %v, reference %v", fn, args, got, want).With("fn", fn)
}

func strResult(fn string, o outcome, args any) (string, *facet.Failure) {
	if f := inDomain(fn, o, args); f != nil {
		return "", f
	}
	if o.val.Type() != cty.String || o.val.IsNull() {
		return "", facet.Failf("result-type", "%s(%v) returned %#v, want a non-null string", fn, args, o.val).With("fn", fn)
	}
	return o.val.AsString(), nil
}

// wrap adapts a check returning *facet.Failure (nil = pass) to the facet API
// without the typed-nil-in-interface trap.
func wrap[I any](f func(*facet.Ctx, I) *facet.Failure) func(*facet.Ctx, I) error {
	return func(c *facet.Ctx, in I) error {
		if fl := f(c, in); fl != nil {
			return fl
		}
		return nil
	}
}
