#!/usr/bin/env python3
"""Sensitivity campaign for C14 (development aid, not run by any check).

  git -C /repo worktree add --detach /tmp/wt/c14 HEAD
  python3 sensitivity_mutants.py [mutant-name ...]
  git -C /repo worktree remove --force /tmp/wt/c14

Applies one mutant at a time to the scratch worktree, runs the shipped function tests and
`VERIF_REPO=/tmp/wt/c14 ./check C14 --tier quick --facet <regex>`, prints one line per mutant,
and restores the file. Entries whose facet is None are skipped (superseded variants)."""
import json, os, re, subprocess, sys

WT = "/tmp/wt/c14"
STD = WT + "/cty/function/stdlib/"
ENV = dict(os.environ, GOFLAGS="-mod=mod", GOPROXY="off", GOSUMDB="off", GOTOOLCHAIN="local", VERIF_REPO=WT)

M = [
 # name, file, old, new, facet regex
 ("ceil-adds-on-above", "number.go",
  "\t\tcase big.Exact, big.Above:\n\t\t\t// Done.\n\t\tcase big.Below:\n\t\t\ti.Add(i, big.NewInt(1))",
  "\t\tcase big.Exact, big.Below:\n\t\t\t// Done.\n\t\tcase big.Above:\n\t\t\ti.Add(i, big.NewInt(1))", "ref/rounding"),
 ("floor-no-adjust", "number.go",
  "\t\tcase big.Above:\n\t\t\ti.Sub(i, big.NewInt(1))", "\t\tcase big.Above:\n\t\t\t// dropped", "ref/rounding"),
 ("int-floors", "number.go",
  "\t\tbi, _ := bf.Int(nil)\n\t\tbf = (&big.Float{}).SetInt(bi)",
  "\t\tbi, acc := bf.Int(nil)\n\t\tif acc == big.Above {\n\t\t\tbi.Sub(bi, big.NewInt(1))\n\t\t}\n\t\tbf = (&big.Float{}).SetInt(bi)", "ref/rounding"),
 ("signum-zero-is-one", "number.go", "\t\tcase num > 0:\n", "\t\tcase num >= 0:\n", "ref/rounding"),
 ("min-uses-lessthan-or-equal-last", "number.go", "\t\t\tif num.LessThan(min).True() {", "\t\t\tif num.GreaterThan(min).False() && false || num.LessThanOrEqualTo(min).True() && num.LessThan(min).False() && false || num.GreaterThan(min).True() && min == cty.PositiveInfinity {", None),
 ("max-picks-first-greater-than-zero", "number.go", "\t\tmax := cty.NegativeInfinity", "\t\tmax := cty.Zero", "ref/compare"),
 ("log-swaps-arguments", "number.go", "math.Log(num) / math.Log(base)", "math.Log(base) / math.Log(num)", "log-pow"),
 ("pow-uses-exp2-shortcut", "number.go", "math.Pow(num, power)", "math.Pow(num, math.Floor(power))", "log-pow"),
 ("parseint-lowercases", "number.go", "(&big.Int{}).SetString(numstr, base)", "(&big.Int{}).SetString(strings.ToLower(numstr), base)", "log-pow"),
 ("parseint-base-upper-bound-36", "number.go", "if base < 2 || base > 62 {", "if base < 2 || base > 36 {", "log-pow"),
 ("lessthanorequal-is-lessthan", "number.go", "return args[0].LessThanOrEqualTo(args[1]), nil", "return args[0].LessThan(args[1]), nil", "ref/compare"),
 ("modulo-func-swaps", "number.go", "return args[0].Modulo(args[1]), nil", "return args[0].Subtract(args[1].Multiply(args[0].Divide(args[1]))), nil", "ref/arith"),
 ("subtract-func-adds-abs", "number.go", "return args[0].Subtract(args[1]), nil", "return args[0].Add(args[1].Absolute().Negate()), nil", "ref/arith"),
 ("substr-advances-by-runes", "string.go",
  "\t\t\t\td, _, _ := textseg.ScanGraphemeClusters(sub[i:], true)\n\t\t\t\ti += d\n\t\t\t\tpos++\n\t\t\t\tif pos == offset {",
  "\t\t\t\t_, d := utf8.DecodeRune(sub[i:])\n\t\t\t\ti += d\n\t\t\t\tpos++\n\t\t\t\tif pos == offset {", "cluster"),
 ("substr-length-by-runes", "string.go",
  "\t\t\td, _, _ := textseg.ScanGraphemeClusters(sub[i:], true)\n\t\t\ti += d\n\t\t\tpos++\n\t\t\tif pos == length {",
  "\t\t\t_, d := utf8.DecodeRune(sub[i:])\n\t\t\ti += d\n\t\t\tpos++\n\t\t\tif pos == length {", "cluster"),
 ("strlen-counts-runes", "string.go", "\t\tl := graphemeClusterCount(in)\n", "\t\tl := utf8.RuneCountInString(in)\n", "cluster"),
 ("reverse-by-runes", "string.go", "\t\t\td, _, _ := textseg.ScanGraphemeClusters(inB[i:], true)\n\t\t\tcluster := in[i : i+d]", "\t\t\t_, d := utf8.DecodeRune(inB[i:])\n\t\t\tcluster := in[i : i+d]", "cluster"),
 ("indent-pads-first-line", "string.go", "return cty.StringVal(strings.Replace(data, \"\\n\", \"\\n\"+pad, -1)), nil", "return cty.StringVal(pad + strings.Replace(data, \"\\n\", \"\\n\"+pad, -1)), nil", "indent"),
 ("chomp-ignores-cr", "string.go", "`(?:\\r\\n?|\\n)*\\z`", "`(?:\\n)*\\z`", "case-trim"),
 ("trimspace-ascii-only", "string.go", "strings.TrimSpace(args[0].AsString())", "strings.Trim(args[0].AsString(), \" \\t\\r\\n\")", "case-trim"),
 ("title-is-upper-first", "string.go", "strings.Title(args[0].AsString())", "strings.ToUpper(args[0].AsString()[:1]) + args[0].AsString()[1:]", None),
 ("trimprefix-is-trimleft", "string.go", "strings.TrimPrefix(str, prefix)", "strings.TrimLeft(str, prefix)", "case-trim"),
 ("upper-is-totitle", "string.go", "out := strings.ToUpper(in)", "out := strings.ToTitle(in)", "case-trim"),
 ("join-skips-empty", "string.go", "\t\t\t\titems = append(items, val.AsString())", "\t\t\t\tif val.AsString() != \"\" {\n\t\t\t\t\titems = append(items, val.AsString())\n\t\t\t\t}", "indent"),
 ("split-after", "string.go", "elems := strings.Split(str, sep)", "elems := strings.SplitAfter(str, sep)", "indent"),
 ("replace-first-only", "string_replace.go", "strings.Replace(str, substr, replace, -1)", "strings.Replace(str, substr, replace, 1)", "indent"),
 ("regexreplace-literal", "string_replace.go", "re.ReplaceAllString(str, replace)", "re.ReplaceAllLiteralString(str, replace)", "regex"),
 ("regex-unmatched-group-empty-string", "regexp.go", "\t\t\t\tvals[i] = cty.NullVal(cty.String) // Did not match anything because containing group didn't match", "\t\t\t\tvals[i] = cty.StringVal(\"\")", "regex"),
 ("regexall-first-match-repeated", "regexp.go", "\t\t\telems[i] = regexPatternResult(re, str, captureIdxs, ety)", "\t\t\t_ = captureIdxs\n\t\t\telems[i] = regexPatternResult(re, str, captureIdxsEach[0], ety)", "regex"),
 ("format-padwidth-counts-bytes", "format.go", "givenLen, _ := textseg.TokenCount([]byte(fmted), textseg.ScanGraphemeClusters)", "givenLen := len(fmted)", "format"),
 ("format-precision-counts-runes", "format.go", "\t\t\td, _, _ := textseg.ScanGraphemeClusters(strB[pos:], true)\n\t\t\tpos += d", "\t\t\t_, d := utf8.DecodeRune(strB[pos:])\n\t\t\tpos += d", "format"),
 ("format-minus-pads-left", "format.go", "\tif verb.Minus {\n\t\treturn fmted + pads\n\t}\n\treturn pads + fmted", "\tif !verb.Minus {\n\t\treturn fmted + pads\n\t}\n\treturn pads + fmted", "format"),
 ("format-integer-check-dropped", "format.go", "\tif acc != big.Exact {\n\t\treturn fmt.Errorf(\"unsupported value for %q at %d: an integer is required\", verb.Raw, verb.Offset)\n\t}", "\t_ = acc", "format"),
 ("format-strip-index-keeps-bracket", "format.go", "\treturn rawVerb[:start] + rawVerb[end+1:]", "\treturn rawVerb[:start] + rawVerb[end:]", "format"),
 ("format-null-v-prints-empty", "format.go", "\tif verb.Mode != 'v' && arg.IsNull() {", "\tif arg.IsNull() && verb.Mode == 'v' && !verb.Sharp {\n\t\treturn nil\n\t}\n\tif verb.Mode != 'v' && arg.IsNull() {", "format"),
 ("formatfsm-next-arg-not-advanced", "format_fsm.go", "nextArg = verb.ArgNum + 1", "nextArg = nextArg + 1", "format"),
 ("formatlist-single-values-consumed-once", "format.go", "\t\t\t\t\tfmtArgs[i] = singleVals[i]", "\t\t\t\t\tfmtArgs[i] = singleVals[i]\n\t\t\t\t\tif iterIdx > 0 && singleVals[i].Type() == cty.String {\n\t\t\t\t\t\tfmtArgs[i] = cty.StringVal(\"\")\n\t\t\t\t\t}", "formatlist"),
 ("jsonencode-null-errors", "json.go", "\t\tif val.IsNull() {\n\t\t\treturn cty.StringVal(\"null\"), nil\n\t\t}", "\t\tif val.IsNull() {\n\t\t\treturn cty.StringVal(\"\"), nil\n\t\t}", "json"),
 ("csv-trims-leading-space", "csv.go", "\t\tcr.FieldsPerRecord = len(atys)", "\t\tcr.FieldsPerRecord = len(atys)\n\t\tcr.TrimLeadingSpace = true", "csv"),
 ("csv-lazy-quotes", "csv.go", "\t\tcr.FieldsPerRecord = len(atys)", "\t\tcr.FieldsPerRecord = len(atys)\n\t\tcr.LazyQuotes = true", "csv"),
 ("csv-columns-reversed", "csv.go", "\t\t\t\tname := headers[i]", "\t\t\t\tname := headers[len(headers)-1-i]", "csv"),
 ("timeadd-drops-zone", "datetime.go", "ts.Add(duration).Format(time.RFC3339)", "ts.Add(duration).UTC().Format(time.RFC3339)", "datetime"),
 ("formatdate-12h-without-fix", "datetime.go", "\t\t\t\t\th := t.Hour() % 12\n\t\t\t\t\tif h == 0 {\n\t\t\t\t\t\th = 12\n\t\t\t\t\t}", "\t\t\t\t\th := t.Hour() % 12", "datetime"),
 ("formatdate-pm-from-13", "datetime.go", "\t\t\t\t\tswitch t.Hour() / 12 {", "\t\t\t\t\tswitch (t.Hour() - 1) / 12 {", "datetime"),
 ("formatdate-yy-mod-1000", "datetime.go", "fmt.Fprintf(&buf, \"%02d\", y%100)", "fmt.Fprintf(&buf, \"%02d\", y%1000)", "datetime"),
 ("rfc3339-accepts-hour-24", "datetime_rfc3339.go", "hour := parseUint(s[11:13], 0, 23)", "hour := parseUint(s[11:13], 0, 24)", "datetime"),
 ("rfc3339-feb-always-29", "datetime_rfc3339.go", "\tif m == time.February && isLeap(year) {", "\tif m == time.February {", "datetime"),

 ("ceil-lowers-precision-to-53", "number.go", "\t\treturn cty.NumberVal(f.SetInt(i)), nil\n\t},\n})\n\n// FloorFunc", "\t\treturn cty.NumberVal(new(big.Float).SetPrec(53).SetInt(i)), nil\n\t},\n})\n\n// FloorFunc", "ref/rounding"),
 ("abs-via-float64", "number.go", "\t\treturn args[0].Absolute(), nil", "\t\tf64, _ := args[0].AsBigFloat().Float64()\n\t\treturn cty.NumberFloatVal(math.Abs(f64)), nil", "ref/rounding"),
 ("greaterthan-swapped", "number.go", "return args[0].GreaterThan(args[1]), nil", "return args[1].GreaterThan(args[0]), nil", "ref/compare"),
 ("min-starts-at-zero", "number.go", "\t\tmin := cty.PositiveInfinity", "\t\tmin := cty.NumberIntVal(1 << 62)", "ref/compare"),
 ("divide-func-float-when-small", "number.go", "\t\treturn args[0].Divide(args[1]), nil", "\t\tif a, acc := args[0].AsBigFloat().Float64(); acc == big.Exact {\n\t\t\tif b, acc2 := args[1].AsBigFloat().Float64(); acc2 == big.Exact && b != 0 {\n\t\t\t\treturn cty.NumberFloatVal(a / b), nil\n\t\t\t}\n\t\t}\n\t\treturn args[0].Divide(args[1]), nil", "ref/arith"),
 ("title-is-upper-first", "string.go", "strings.Title(args[0].AsString())", "strings.ToUpper(args[0].AsString()[:1]) + args[0].AsString()[1:]", "case-trim"),
 ("trim-is-trimleft", "string.go", "strings.Trim(str, cutset)", "strings.TrimLeft(str, cutset)", "case-trim"),
 ("lower-ascii-only", "string.go", "out := strings.ToLower(in)", "out := strings.Map(func(r rune) rune {\n\t\t\tif r >= 'A' && r <= 'Z' {\n\t\t\t\treturn r + 32\n\t\t\t}\n\t\t\treturn r\n\t\t}, in)", "case-trim"),
 ("regex-named-groups-reversed", "regexp.go", "\t\tfor i, name := range names {\n\t\t\tstart, end := captureIdxs[i*2], captureIdxs[i*2+1]", "\t\tfor j, name := range names {\n\t\t\ti := len(names) - 1 - j\n\t\t\tstart, end := captureIdxs[i*2], captureIdxs[i*2+1]", "regex"),
 ("regex-mixed-groups-allowed", "regexp.go", "\tcase unnamed > 0 && len(names) > 0:\n\t\treturn cty.NilType, fmt.Errorf(\"invalid regexp pattern: cannot mix both named and unnamed capture groups\")\n", "", "regex"),
 ("jsondecode-numbers-via-float64", "cty/json/unmarshal.go", "\t\t\tval, err := cty.ParseNumberVal(v)\n", "\t\t\tf64, ferr := strconv.ParseFloat(v, 64)\n\t\t\tval, err := cty.NumberFloatVal(f64), ferr\n", "json"),
 ("rfc3339-fraction-scale-off-by-one", "datetime_rfc3339.go", "\tscaleDigits := 10 - nbytes", "\tscaleDigits := 9 - nbytes", "datetime"),
 ("formatdate-year-unpadded", "datetime.go", "fmt.Fprintf(&buf, \"%04d\", y)", "fmt.Fprintf(&buf, \"%d\", y)", "datetime"),
 ("formatdate-zzz-always-offset", "datetime.go", "\t\t\t\t\t\tcase \"+0000\":\n\t\t\t\t\t\t\tbuf.WriteString(\"UTC\")", "\t\t\t\t\t\tcase \"+0000x\":\n\t\t\t\t\t\t\tbuf.WriteString(\"UTC\")", "datetime"),
 ("timeadd-truncates-duration-to-seconds", "datetime.go", "ts.Add(duration).Format(time.RFC3339)", "ts.Add(duration.Truncate(time.Second)).Format(time.RFC3339)", "datetime"),
 ("csv-empty-rows-kept-as-null", "csv.go", "\t\tif len(rows) == 0 {\n\t\t\treturn cty.ListValEmpty(ety), nil\n\t\t}", "\t\tif len(rows) == 0 {\n\t\t\treturn cty.NullVal(retType), nil\n\t\t}", "csv"),
 ("formatlist-empty-returns-single", "format.go", "\t\tif iterLen == 0 {\n\t\t\t// If our sequences are all empty then our result must be empty.\n\t\t\treturn cty.ListValEmpty(cty.String), nil\n\t\t}", "\t\tif iterLen == 0 {\n\t\t\titerLen = -1\n\t\t}", "formatlist"),
 ("format-too-many-args-accepted", "format_fsm.go", "\tif highestArgIdx < len(a) {", "\tif highestArgIdx < len(a) && false {", "format"),
 ("format-q-uses-go-quote", "format.go", "\t\tjb, err := json.Marshal(cty.StringVal(str), cty.String)", "\t\tjb, err := []byte(strconv.Quote(str)), error(nil)", "format"),
 ("bytesslice-end-exclusive-off-by-one", "bytes.go", "\t\tend := offset + length\n", "\t\tend := offset + length - 1\n\t\tif end < offset {\n\t\t\tend = offset\n\t\t}\n", "bool-bytes"),
]

def sh(cmd, **kw):
    return subprocess.run(cmd, shell=True, capture_output=True, text=True, env=ENV, **kw)

def main():
    only = sys.argv[1:]
    results = []
    for name, f, old, new, facet in M:
        if only and name not in only:
            continue
        if facet is None:
            continue
        path = (WT + "/" + f) if "/" in f else STD + f
        src = open(path).read()
        if src.count(old) != 1:
            print("SKIP %s: pattern occurs %d times" % (name, src.count(old)))
            continue
        mut = src.replace(old, new)
        # add imports if needed
        if "utf8." in new and '"unicode/utf8"' not in mut:
            mut = mut.replace('import (', 'import (\n\t"unicode/utf8"', 1)
        if "strconv." in new and '"strconv"' not in mut:
            mut = mut.replace('import (', 'import (\n\t"strconv"', 1)
        if "strings." in new and '"strings"' not in mut:
            mut = mut.replace('import (', 'import (\n\t"strings"', 1)
        open(path, "w").write(mut)
        try:
            b = sh("cd %s && go build ./cty/... 2>&1" % WT)
            if b.returncode != 0:
                # unused import cleanup
                if "imported and not used" in b.stdout:
                    m = re.search(r'"([^"]+)" imported and not used', b.stdout)
                    if m:
                        mut2 = open(path).read().replace('\t"%s"\n' % m.group(1), '', 1)
                        open(path, "w").write(mut2)
                        b = sh("cd %s && go build ./cty/... 2>&1" % WT)
                if b.returncode != 0:
                    print("BUILD-FAIL %s:\n%s" % (name, b.stdout[-600:]))
                    continue
            t = sh("cd %s && go test -vet=off -count=1 ./cty/function/... 2>&1 | tail -5" % WT)
            killed = "FAIL" in t.stdout
            c = sh("cd /verif && ./check C14 --tier quick --facet '%s' 2>&1" % facet)
            caught = "VIOLATION" in c.stdout
            infra = "INFRA" in c.stdout
            which, cases = "", ""
            try:
                ev = json.load(open("/verif/.run/evidence-dev/C14.json"))
                for fn, pf in ev["coverage"]["facets"].items():
                    pass
            except Exception:
                ev = None
            m = re.findall(r"failure in facet (\S+)", c.stdout)
            which = ",".join(sorted(set(m)))
            if ev:
                cs = []
                for fn in sorted(set(m)):
                    pf = ev["coverage"]["facets"].get(fn)
                    if pf:
                        cs.append(str(pf["evaluations"] + sum(pf["excluded_known"].values())))
                cases = ",".join(cs)
            kind = re.findall(r'"kind": "([^"]+)"', c.stdout)
            print("MUTANT %-42s shipped-tests-kill=%-5s caught=%-5s facet=%s cases=%s kinds=%s%s" % (name, killed, caught, which, cases, ",".join(sorted(set(kind))), " INFRA" if infra else ""), flush=True)
            results.append((name, killed, caught, which, cases))
        finally:
            open(path, "w").write(src)
    st = sh("git -C %s status --porcelain" % WT)
    print("worktree status after campaign: %r" % st.stdout)

main()
