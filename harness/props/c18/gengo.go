package c18

import (
	"math"
	"math/big"
	"reflect"
	"sort"
	"strconv"

	"pgregory.net/rapid"

	"verif/harness/gen"
	"verif/harness/spec"
)

// types an embedded cty.Value may take. All embedded values of one generated
// Go value share one type: cty lists and maps are homogeneous, so a []cty.Value
// or a []struct{... cty.Value} whose members differ in type has no cty
// representation at all (an exclusion of the domain, see the package report).
var dynTypes = []spec.T{
	spec.String, spec.Number, spec.Bool, spec.List(spec.String), spec.Map(spec.Number), spec.Set(spec.String),
	spec.Tuple(spec.Number, spec.String), spec.Object(spec.Attr{Name: "a", T: spec.String}, spec.Attr{Name: "b", T: spec.List(spec.Number)}),
	spec.Tuple(), spec.Object(), spec.List(spec.Object(spec.Attr{Name: "x", T: spec.Bool})),
}

type genCtx struct {
	dynT    spec.T
	maxElem int
}

func newGenCtx(t *rapid.T, rt reflect.Type) *genCtx {
	c := &genCtx{maxElem: 3}
	if hasDyn(rt) {
		c.dynT = rapid.SampledFrom(dynTypes).Draw(t, "dyntype")
	}
	return c
}

// drawGV draws the description of a Go value of type rt.
func drawGV(t *rapid.T, rt reflect.Type, c *genCtx) GV {
	switch rt.Kind() {
	case reflect.Ptr:
		if rapid.IntRange(0, 3).Draw(t, "nilptr") == 0 {
			return GV{Nil: true}
		}
		return drawGV(t, rt.Elem(), c)
	case reflect.Bool:
		return GV{Bool: rapid.Bool().Draw(t, "b")}
	case reflect.Int, reflect.Int8, reflect.Int16, reflect.Int32, reflect.Int64:
		return GV{Num: strconv.FormatInt(drawInt(t, uint(rt.Bits())), 10)}
	case reflect.Uint, reflect.Uint8, reflect.Uint16, reflect.Uint32, reflect.Uint64:
		return GV{Num: strconv.FormatUint(drawUint(t, uint(rt.Bits())), 10)}
	case reflect.Float32:
		return GV{Num: strconv.FormatFloat(float64(drawFloat32(t)), 'g', -1, 32)}
	case reflect.Float64:
		return GV{Num: strconv.FormatFloat(drawFloat64(t), 'g', -1, 64)}
	case reflect.String:
		return GV{Str: spec.NFC(gen.String().Draw(t, "s"))}
	case reflect.Slice:
		if rapid.IntRange(0, 5).Draw(t, "nilslice") == 0 {
			return GV{Nil: true}
		}
		n := rapid.IntRange(0, c.maxElem).Draw(t, "len")
		g := GV{Elems: make([]GV, n)}
		for i := range g.Elems {
			g.Elems[i] = drawGV(t, rt.Elem(), c)
		}
		return g
	case reflect.Array:
		g := GV{Elems: make([]GV, rt.Len())}
		for i := range g.Elems {
			g.Elems[i] = drawGV(t, rt.Elem(), c)
		}
		return g
	case reflect.Map:
		if rapid.IntRange(0, 5).Draw(t, "nilmap") == 0 {
			return GV{Nil: true}
		}
		n := rapid.IntRange(0, c.maxElem).Draw(t, "len")
		seen := map[string]bool{}
		var keys []string
		for i := 0; i < n; i++ {
			k := spec.NFC(gen.String().Draw(t, "key"))
			if !seen[k] {
				seen[k] = true
				keys = append(keys, k)
			}
		}
		sort.Strings(keys)
		g := GV{Keys: keys, Elems: make([]GV, len(keys))}
		for i := range g.Elems {
			g.Elems[i] = drawGV(t, rt.Elem(), c)
		}
		return g
	case reflect.Struct:
		switch rt {
		case bigIntT:
			return GV{Num: drawBigInt(t)}
		case bigFloatT:
			return drawBigFloat(t)
		case ctyValueT:
			v := gen.Value(c.dynT, gen.ValOpts{Null: true, Unknown: true, MaxElems: 2}).Draw(t, "dyn")
			return GV{Val: &v}
		}
		g := GV{Elems: make([]GV, rt.NumField())}
		for i := range g.Elems {
			f := rt.Field(i)
			if f.Tag.Get("cty") == "" {
				// untagged fields are not transferred (docs: "Additional fields
				// may be present without tags"); they stay zero so that the
				// round trip can be compared on the whole struct
				g.Elems[i] = zeroGV(f.Type)
				continue
			}
			g.Elems[i] = drawGV(t, f.Type, c)
		}
		return g
	}
	panic("c18: cannot draw " + rt.String())
}

// zeroGV describes the zero value of rt.
func zeroGV(rt reflect.Type) GV {
	switch rt.Kind() {
	case reflect.Ptr, reflect.Slice, reflect.Map:
		return GV{Nil: true}
	case reflect.Int, reflect.Int8, reflect.Int16, reflect.Int32, reflect.Int64,
		reflect.Uint, reflect.Uint8, reflect.Uint16, reflect.Uint32, reflect.Uint64, reflect.Float32, reflect.Float64:
		return GV{Num: "0"}
	case reflect.Array:
		g := GV{Elems: make([]GV, rt.Len())}
		for i := range g.Elems {
			g.Elems[i] = zeroGV(rt.Elem())
		}
		return g
	case reflect.Struct:
		switch rt {
		case bigIntT:
			return GV{Num: "0"}
		case bigFloatT:
			return GV{}
		case ctyValueT:
			panic("c18: no zero description for cty.Value")
		}
		g := GV{Elems: make([]GV, rt.NumField())}
		for i := range g.Elems {
			g.Elems[i] = zeroGV(rt.Field(i).Type)
		}
		return g
	}
	return GV{}
}

func drawInt(t *rapid.T, bits uint) int64 {
	min, max := -int64(1)<<(bits-1), int64(1)<<(bits-1)-1
	switch rapid.IntRange(0, 9).Draw(t, "intclass") {
	case 0:
		return min
	case 1:
		return max
	case 2:
		return min + 1
	case 3:
		return max - 1
	case 4:
		return int64(rapid.IntRange(-2, 2).Draw(t, "tiny"))
	case 5, 6:
		return rapid.Int64Range(min, max).Draw(t, "any")
	default:
		lo, hi := int64(-100), int64(100)
		if lo < min {
			lo = min
		}
		if hi > max {
			hi = max
		}
		return rapid.Int64Range(lo, hi).Draw(t, "small")
	}
}

func drawUint(t *rapid.T, bits uint) uint64 {
	max := ^uint64(0) >> (64 - bits)
	switch rapid.IntRange(0, 9).Draw(t, "uintclass") {
	case 0:
		return 0
	case 1:
		return max
	case 2:
		return max - 1
	case 3:
		return max/2 + 1 // the signed boundary of the same width
	case 4, 5:
		return rapid.Uint64Range(0, max).Draw(t, "any")
	default:
		hi := uint64(200)
		if hi > max {
			hi = max
		}
		return rapid.Uint64Range(0, hi).Draw(t, "small")
	}
}

var f64Specials = []float64{0, math.Copysign(0, -1), 1, -1, 0.5, 0.1, -0.1, 1.5, 2.5, math.MaxFloat64, -math.MaxFloat64,
	math.SmallestNonzeroFloat64, -math.SmallestNonzeroFloat64, 2.2250738585072014e-308, math.Inf(1), math.Inf(-1),
	9007199254740992, 9007199254740993, 9223372036854775808, 18446744073709551616, 1e40, 1e300, 3.4028234663852886e38, 3.4028235677973366e38,
	123456789.125, 0.30000000000000004, 1e-7, 1e21, 1e22, 1e23}

func drawFloat64(t *rapid.T) float64 {
	switch rapid.IntRange(0, 4).Draw(t, "f64class") {
	case 0, 4:
		return rapid.SampledFrom(f64Specials).Draw(t, "special")
	case 1:
		return float64(rapid.IntRange(-1000, 1000).Draw(t, "q")) / 8
	default:
		f := rapid.Float64().Draw(t, "f")
		if math.IsNaN(f) {
			return 1.25
		}
		return f
	}
}

var f32Specials = []float32{0, float32(math.Copysign(0, -1)), 1, -1, 0.5, 0.1, -0.1, 1.5, math.MaxFloat32, -math.MaxFloat32,
	math.SmallestNonzeroFloat32, -math.SmallestNonzeroFloat32, 1.17549435e-38, float32(math.Inf(1)), float32(math.Inf(-1)),
	16777216, 16777218, 2147483648, 4294967296, 1e20, 3.4028233e38, 1e-7, 0.3}

func drawFloat32(t *rapid.T) float32 {
	switch rapid.IntRange(0, 4).Draw(t, "f32class") {
	case 0, 4:
		return rapid.SampledFrom(f32Specials).Draw(t, "special")
	case 1:
		return float32(rapid.IntRange(-1000, 1000).Draw(t, "q")) / 8
	default:
		f := rapid.Float32().Draw(t, "f")
		if f != f {
			return 1.25
		}
		return f
	}
}

var bigIntSpecials = func() []string {
	out := []string{"0", "1", "-1", "10000000000000000000000000000000000000000", "-10000000000000000000000000000000000000000"}
	for _, b := range []uint{31, 32, 53, 63, 64, 70, 128, 200, 500} {
		p := new(big.Int).Lsh(big.NewInt(1), b)
		for d := int64(-1); d <= 1; d++ {
			x := new(big.Int).Add(p, big.NewInt(d))
			out = append(out, x.String(), new(big.Int).Neg(x).String())
		}
	}
	return out
}()

func drawBigInt(t *rapid.T) string {
	switch rapid.IntRange(0, 2).Draw(t, "bigintclass") {
	case 0:
		return rapid.SampledFrom(bigIntSpecials).Draw(t, "special")
	case 1:
		return strconv.FormatInt(rapid.Int64().Draw(t, "i64"), 10)
	default:
		return rapid.StringMatching(`-?[1-9][0-9]{0,60}`).Draw(t, "digits")
	}
}

func drawBigFloat(t *rapid.T) GV {
	switch rapid.IntRange(0, 7).Draw(t, "bigfloatclass") {
	case 0:
		return GV{} // big.Float{}: the zero value is a valid 0
	case 1:
		return GV{Num: rapid.SampledFrom([]string{"+Inf", "-Inf"}).Draw(t, "inf"), Prec: 64}
	case 2:
		return GV{Num: rapid.SampledFrom([]string{"0", "-0", "0.1", "1.5", "1e40", "1e-40", "1e300", "-1e300", "3.5e38", "18446744073709551616", "0.30000000000000004"}).Draw(t, "special"),
			Prec: uint(rapid.SampledFrom([]int{24, 53, 64, 512}).Draw(t, "prec"))}
	default:
		txt := rapid.StringMatching(`-?[1-9][0-9]{0,30}(\.[0-9]{1,12})?(e-?[0-9]{1,2})?`).Draw(t, "txt")
		return GV{Num: txt, Prec: uint(rapid.SampledFrom([]int{8, 24, 53, 64, 100, 256, 512, 600}).Draw(t, "prec"))}
	}
}
