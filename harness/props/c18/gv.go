package c18

import (
	"fmt"
	"math"
	"math/big"
	"reflect"
	"strconv"

	"github.com/zclconf/go-cty/cty"

	"verif/harness/spec"
)

// GV is the JSON-serialisable description of one Go value of a family type.
// Which fields are meaningful follows from the Go type it is read against:
//
//	pointer            Nil, or the pointee's description in the same node
//	int*/uint*         Num = decimal text
//	float32/float64    Num = strconv 'g' shortest text at the type's width ("+Inf", "-Inf", "-0" included)
//	big.Int            Num = decimal text
//	big.Float          Num = decimal text (or "+Inf"/"-Inf") parsed at precision Prec; Num=="" is the zero value big.Float{}
//	string             Str (valid UTF-8, NFC)
//	bool               Bool
//	slice              Nil, or Elems
//	array              Elems (exactly the array length)
//	map                Nil, or Keys (distinct, NFC) aligned with Elems
//	struct             Elems = one entry per field in declaration order (untagged fields included)
//	cty.Value          Val = value specification (built with spec.Build)
type GV struct {
	Nil   bool     `json:"nil,omitempty"`
	Num   string   `json:"num,omitempty"`
	Prec  uint     `json:"prec,omitempty"`
	Str   string   `json:"str,omitempty"`
	Bool  bool     `json:"bool,omitempty"`
	Elems []GV     `json:"elems,omitempty"`
	Keys  []string `json:"keys,omitempty"`
	Val   *spec.V  `json:"val,omitempty"`
}

// buildGo rebuilds the Go value (as an addressable-free reflect.Value of type rt).
func buildGo(rt reflect.Type, g GV) reflect.Value {
	v := reflect.New(rt).Elem()
	fillGo(v, g)
	return v
}

func fillGo(v reflect.Value, g GV) {
	rt := v.Type()
	switch rt.Kind() {
	case reflect.Ptr:
		if g.Nil {
			v.Set(reflect.Zero(rt))
			return
		}
		p := reflect.New(rt.Elem())
		fillGo(p.Elem(), g)
		v.Set(p)
	case reflect.Bool:
		v.SetBool(g.Bool)
	case reflect.Int, reflect.Int8, reflect.Int16, reflect.Int32, reflect.Int64:
		i, err := strconv.ParseInt(g.Num, 10, rt.Bits())
		if err != nil {
			panic(fmt.Sprintf("c18: bad %s text %q", rt, g.Num))
		}
		v.SetInt(i)
	case reflect.Uint, reflect.Uint8, reflect.Uint16, reflect.Uint32, reflect.Uint64:
		u, err := strconv.ParseUint(g.Num, 10, rt.Bits())
		if err != nil {
			panic(fmt.Sprintf("c18: bad %s text %q", rt, g.Num))
		}
		v.SetUint(u)
	case reflect.Float32, reflect.Float64:
		f, err := strconv.ParseFloat(g.Num, rt.Bits())
		if err != nil || math.IsNaN(f) {
			panic(fmt.Sprintf("c18: bad %s text %q", rt, g.Num))
		}
		v.SetFloat(f)
	case reflect.String:
		v.SetString(g.Str)
	case reflect.Slice:
		if g.Nil {
			v.Set(reflect.Zero(rt))
			return
		}
		s := reflect.MakeSlice(rt, len(g.Elems), len(g.Elems))
		for i := range g.Elems {
			fillGo(s.Index(i), g.Elems[i])
		}
		v.Set(s)
	case reflect.Array:
		if len(g.Elems) != rt.Len() {
			panic("c18: array description has the wrong length")
		}
		for i := range g.Elems {
			fillGo(v.Index(i), g.Elems[i])
		}
	case reflect.Map:
		if g.Nil {
			v.Set(reflect.Zero(rt))
			return
		}
		m := reflect.MakeMapWithSize(rt, len(g.Keys))
		for i, k := range g.Keys {
			e := reflect.New(rt.Elem()).Elem()
			fillGo(e, g.Elems[i])
			m.SetMapIndex(reflect.ValueOf(k).Convert(rt.Key()), e)
		}
		v.Set(m)
	case reflect.Struct:
		switch rt {
		case bigIntT:
			bi, ok := new(big.Int).SetString(g.Num, 10)
			if !ok {
				panic("c18: bad big.Int text " + g.Num)
			}
			v.Set(reflect.ValueOf(bi).Elem())
		case bigFloatT:
			v.Set(reflect.ValueOf(bigFloatOf(g)).Elem())
		case ctyValueT:
			v.Set(reflect.ValueOf(spec.MustBuild(*g.Val)))
		default:
			if len(g.Elems) != rt.NumField() {
				panic("c18: struct description has the wrong number of fields")
			}
			for i := range g.Elems {
				fillGo(v.Field(i), g.Elems[i])
			}
		}
	default:
		panic("c18: unsupported kind " + rt.Kind().String())
	}
}

func bigFloatOf(g GV) *big.Float {
	switch g.Num {
	case "":
		return new(big.Float)
	case "+Inf":
		return new(big.Float).SetPrec(g.Prec).SetInf(false)
	case "-Inf":
		return new(big.Float).SetPrec(g.Prec).SetInf(true)
	}
	f, _, err := big.ParseFloat(g.Num, 10, g.Prec, big.ToNearestEven)
	if err != nil {
		panic("c18: bad big.Float text " + g.Num)
	}
	return f
}

// ---------------------------------------------------------------- comparison of Go values

// diffGo compares two Go values of the same type the way the property means
// "reproduces the Go value exactly": nil-ness of pointers, slices and maps is
// significant; floats compare by bit pattern unless lenientZero (then -0 == 0);
// big numbers compare by numeric value, infinity and sign (not by precision);
// cty.Values by RawEquals. It returns "" or a description of the first difference.
func diffGo(got, want reflect.Value, path string, lenientZero bool) string {
	rt := want.Type()
	if got.Type() != rt {
		return fmt.Sprintf("%s: type %s, want %s", path, got.Type(), rt)
	}
	switch rt.Kind() {
	case reflect.Ptr:
		if got.IsNil() != want.IsNil() {
			return fmt.Sprintf("%s: pointer nil=%t, want nil=%t", path, got.IsNil(), want.IsNil())
		}
		if want.IsNil() {
			return ""
		}
		return diffGo(got.Elem(), want.Elem(), path+"*", lenientZero)
	case reflect.Bool:
		if got.Bool() != want.Bool() {
			return fmt.Sprintf("%s: %t, want %t", path, got.Bool(), want.Bool())
		}
	case reflect.Int, reflect.Int8, reflect.Int16, reflect.Int32, reflect.Int64:
		if got.Int() != want.Int() {
			return fmt.Sprintf("%s: %d, want %d", path, got.Int(), want.Int())
		}
	case reflect.Uint, reflect.Uint8, reflect.Uint16, reflect.Uint32, reflect.Uint64:
		if got.Uint() != want.Uint() {
			return fmt.Sprintf("%s: %d, want %d", path, got.Uint(), want.Uint())
		}
	case reflect.Float32, reflect.Float64:
		g, w := got.Float(), want.Float()
		same := math.Float64bits(g) == math.Float64bits(w)
		if lenientZero && g == 0 && w == 0 {
			same = true
		}
		if !same {
			return fmt.Sprintf("%s: %s, want %s", path, strconv.FormatFloat(g, 'g', -1, 64), strconv.FormatFloat(w, 'g', -1, 64))
		}
	case reflect.String:
		if got.String() != want.String() {
			return fmt.Sprintf("%s: %q, want %q", path, got.String(), want.String())
		}
	case reflect.Slice:
		if got.IsNil() != want.IsNil() {
			return fmt.Sprintf("%s: slice nil=%t, want nil=%t", path, got.IsNil(), want.IsNil())
		}
		fallthrough
	case reflect.Array:
		if got.Len() != want.Len() {
			return fmt.Sprintf("%s: length %d, want %d", path, got.Len(), want.Len())
		}
		for i := 0; i < want.Len(); i++ {
			if d := diffGo(got.Index(i), want.Index(i), fmt.Sprintf("%s[%d]", path, i), lenientZero); d != "" {
				return d
			}
		}
	case reflect.Map:
		if got.IsNil() != want.IsNil() {
			return fmt.Sprintf("%s: map nil=%t, want nil=%t", path, got.IsNil(), want.IsNil())
		}
		if got.Len() != want.Len() {
			return fmt.Sprintf("%s: map size %d, want %d", path, got.Len(), want.Len())
		}
		for _, k := range sortedKeys(want) {
			kv := reflect.ValueOf(k).Convert(rt.Key())
			ge := got.MapIndex(kv)
			if !ge.IsValid() {
				return fmt.Sprintf("%s: key %q missing", path, k)
			}
			if d := diffGo(ge, want.MapIndex(kv), fmt.Sprintf("%s[%q]", path, k), lenientZero); d != "" {
				return d
			}
		}
	case reflect.Struct:
		switch rt {
		case bigIntT:
			g, w := got.Interface().(big.Int), want.Interface().(big.Int)
			if g.Cmp(&w) != 0 {
				return fmt.Sprintf("%s: big.Int %s, want %s", path, g.String(), w.String())
			}
		case bigFloatT:
			g, w := got.Interface().(big.Float), want.Interface().(big.Float)
			if g.IsInf() != w.IsInf() || g.Cmp(&w) != 0 || (!lenientZero && g.Signbit() != w.Signbit()) {
				return fmt.Sprintf("%s: big.Float %s, want %s", path, g.Text('g', 40), w.Text('g', 40))
			}
		case ctyValueT:
			g, w := got.Interface().(cty.Value), want.Interface().(cty.Value)
			if g == cty.NilVal {
				return fmt.Sprintf("%s: cty.NilVal, want %#v", path, w)
			}
			if !g.RawEquals(w) {
				return fmt.Sprintf("%s: cty value %#v, want %#v", path, g, w)
			}
		default:
			for i := 0; i < rt.NumField(); i++ {
				if d := diffGo(got.Field(i), want.Field(i), path+"."+rt.Field(i).Name, lenientZero); d != "" {
					return d
				}
			}
		}
	default:
		panic("c18: unsupported kind " + rt.Kind().String())
	}
	return ""
}

func sortedKeys(m reflect.Value) []string {
	ks := make([]string, 0, m.Len())
	for _, k := range m.MapKeys() {
		ks = append(ks, k.String())
	}
	// insertion sort is fine for the sizes generated; sort.Strings keeps it simple
	for i := 1; i < len(ks); i++ {
		for j := i; j > 0 && ks[j] < ks[j-1]; j-- {
			ks[j], ks[j-1] = ks[j-1], ks[j]
		}
	}
	return ks
}

// ---------------------------------------------------------------- expected cty value of a Go value

// diffCty checks the cty value cv produced for the Go value described by g
// (of Go type rt) against the documented mapping, using public accessors
// only: nil pointer/slice/map <=> null of the model type; integers and big
// numbers become the numerically identical number, floats a number that
// rounds to the float; strings the same string; slices
// and arrays lists of the same length; maps maps with the same keys; structs
// objects with one attribute per tagged field; cty.Value verbatim.
func diffCty(cv cty.Value, rt reflect.Type, g GV, path string) string {
	if cv == cty.NilVal {
		return path + ": cty.NilVal"
	}
	if cv.IsMarked() {
		return path + ": marked value out of nowhere"
	}
	if rt == ctyValueT {
		want := spec.MustBuild(*g.Val)
		if !cv.RawEquals(want) {
			return fmt.Sprintf("%s: embedded value came out as %#v, want %#v", path, cv, want)
		}
		return ""
	}
	mt := modelType(rt)
	if errs := cv.Type().TestConformance(mt.Cty()); len(errs) != 0 {
		return fmt.Sprintf("%s: type %#v does not conform to %s", path, cv.Type(), mt)
	}
	if !cv.IsKnown() {
		return path + ": unknown value out of nowhere"
	}
	nilable := rt.Kind() == reflect.Ptr || rt.Kind() == reflect.Slice || rt.Kind() == reflect.Map
	if nilable && g.Nil {
		if !cv.IsNull() {
			return fmt.Sprintf("%s: nil %s became %#v, want null", path, rt, cv)
		}
		return ""
	}
	if cv.IsNull() {
		return fmt.Sprintf("%s: non-nil %s became null", path, rt)
	}
	switch rt.Kind() {
	case reflect.Ptr:
		return diffCty(cv, rt.Elem(), g, path+"*")
	case reflect.Bool:
		if cv.Type() != cty.Bool || cv.True() != g.Bool {
			return fmt.Sprintf("%s: %#v, want %t", path, cv, g.Bool)
		}
	case reflect.String:
		if cv.Type() != cty.String || cv.AsString() != g.Str {
			return fmt.Sprintf("%s: %#v, want %q", path, cv, g.Str)
		}
	case reflect.Int, reflect.Int8, reflect.Int16, reflect.Int32, reflect.Int64,
		reflect.Uint, reflect.Uint8, reflect.Uint16, reflect.Uint32, reflect.Uint64:
		want, _ := new(big.Float).SetPrec(128).SetString(g.Num)
		return diffNum(cv, want, path)
	case reflect.Float32, reflect.Float64:
		// The property promises the round trip, not the intermediate number:
		// any number whose nearest float of this width is f is a faithful
		// image of f (the exact value of f is the usual one).
		f, _ := strconv.ParseFloat(g.Num, rt.Bits())
		if cv.Type() != cty.Number {
			return fmt.Sprintf("%s: %#v is not a number", path, cv.Type())
		}
		got := cv.AsBigFloat()
		if math.IsInf(f, 0) || got.IsInf() {
			if !got.IsInf() || (got.Sign() < 0) != (f < 0) {
				return fmt.Sprintf("%s: number %s, want %v", path, got.Text('g', 60), f)
			}
			return ""
		}
		r, _ := got.Rat(nil)
		var near float64
		if rt.Bits() == 32 {
			n, _ := r.Float32()
			near = float64(n)
		} else {
			near, _ = r.Float64()
		}
		if near != f {
			return fmt.Sprintf("%s: number %s is not an image of the float %v", path, got.Text('g', 60), f)
		}
	case reflect.Slice, reflect.Array:
		if !cv.Type().IsListType() {
			return fmt.Sprintf("%s: %#v is not a list", path, cv.Type())
		}
		if cv.LengthInt() != len(g.Elems) {
			return fmt.Sprintf("%s: list length %d, want %d", path, cv.LengthInt(), len(g.Elems))
		}
		for i := range g.Elems {
			if d := diffCty(cv.Index(cty.NumberIntVal(int64(i))), rt.Elem(), g.Elems[i], fmt.Sprintf("%s[%d]", path, i)); d != "" {
				return d
			}
		}
	case reflect.Map:
		if !cv.Type().IsMapType() {
			return fmt.Sprintf("%s: %#v is not a map", path, cv.Type())
		}
		if cv.LengthInt() != len(g.Keys) {
			return fmt.Sprintf("%s: map size %d, want %d", path, cv.LengthInt(), len(g.Keys))
		}
		for i, k := range g.Keys {
			kv := cty.StringVal(k)
			if !cv.HasIndex(kv).True() {
				return fmt.Sprintf("%s: key %q missing", path, k)
			}
			if d := diffCty(cv.Index(kv), rt.Elem(), g.Elems[i], fmt.Sprintf("%s[%q]", path, k)); d != "" {
				return d
			}
		}
	case reflect.Struct:
		switch rt {
		case bigIntT:
			bi, _ := new(big.Int).SetString(g.Num, 10)
			return diffNum(cv, new(big.Float).SetInt(bi), path)
		case bigFloatT:
			return diffNum(cv, bigFloatOf(g), path)
		}
		if !cv.Type().IsObjectType() {
			return fmt.Sprintf("%s: %#v is not an object", path, cv.Type())
		}
		tf := taggedFields(rt)
		if len(cv.Type().AttributeTypes()) != len(tf) {
			return fmt.Sprintf("%s: object has %d attributes, want %d", path, len(cv.Type().AttributeTypes()), len(tf))
		}
		for i := 0; i < rt.NumField(); i++ {
			tag := rt.Field(i).Tag.Get("cty")
			if tag == "" {
				continue
			}
			if !cv.Type().HasAttribute(tag) {
				return fmt.Sprintf("%s: attribute %q missing", path, tag)
			}
			if d := diffCty(cv.GetAttr(tag), rt.Field(i).Type, g.Elems[i], path+"."+tag); d != "" {
				return d
			}
		}
	default:
		panic("c18: unsupported kind " + rt.Kind().String())
	}
	return ""
}

func diffNum(cv cty.Value, want *big.Float, path string) string {
	if cv.Type() != cty.Number {
		return fmt.Sprintf("%s: %#v is not a number", path, cv.Type())
	}
	got := cv.AsBigFloat()
	if got.IsInf() != want.IsInf() || got.Cmp(want) != 0 {
		return fmt.Sprintf("%s: number %s, want %s", path, got.Text('g', 60), want.Text('g', 60))
	}
	return ""
}

// ---------------------------------------------------------------- classification helpers

// hasBoundary reports whether the description holds a number at (or next to)
// a boundary of its Go type: min, min+1, max-1, max of an integer width; for
// floats the largest finite value, a subnormal, -0, an infinity or a magnitude
// of at least 2^63; a bool (two-valued domain); a zero-length array; a
// string with a non-ASCII character; an embedded cty value that is null,
// unknown or nested.
func hasBoundary(rt reflect.Type, g GV) bool {
	switch rt.Kind() {
	case reflect.Ptr:
		return !g.Nil && hasBoundary(rt.Elem(), g)
	case reflect.Int, reflect.Int8, reflect.Int16, reflect.Int32, reflect.Int64:
		i, _ := strconv.ParseInt(g.Num, 10, 64)
		b := uint(rt.Bits())
		min, max := -int64(1)<<(b-1), int64(1)<<(b-1)-1
		return i == min || i == min+1 || i == max || i == max-1
	case reflect.Uint, reflect.Uint8, reflect.Uint16, reflect.Uint32, reflect.Uint64:
		u, _ := strconv.ParseUint(g.Num, 10, 64)
		max := ^uint64(0) >> (64 - uint(rt.Bits()))
		return u <= 1 || u == max || u == max-1
	case reflect.Float32:
		f, _ := strconv.ParseFloat(g.Num, 32)
		a := math.Abs(f)
		return math.IsInf(f, 0) || a == math.MaxFloat32 || (a < 1.17549435e-38 && (a != 0 || math.Signbit(f))) || a >= 9223372036854775808
	case reflect.Float64:
		f, _ := strconv.ParseFloat(g.Num, 64)
		a := math.Abs(f)
		return math.IsInf(f, 0) || a == math.MaxFloat64 || (a < 2.2250738585072014e-308 && (a != 0 || math.Signbit(f))) || a >= 9223372036854775808
	case reflect.Bool:
		return true
	case reflect.String:
		for _, r := range g.Str {
			if r > 127 {
				return true
			}
		}
		return false
	case reflect.Slice, reflect.Array, reflect.Map:
		if g.Nil {
			return false
		}
		if rt.Kind() == reflect.Array && rt.Len() == 0 {
			return true
		}
		for _, e := range g.Elems {
			if hasBoundary(rt.Elem(), e) {
				return true
			}
		}
		for _, k := range g.Keys {
			for _, r := range k {
				if r > 127 {
					return true
				}
			}
		}
	case reflect.Struct:
		switch rt {
		case bigIntT:
			return len(g.Num) > 18
		case bigFloatT:
			return g.Num == "+Inf" || g.Num == "-Inf" || g.Num == ""
		case ctyValueT:
			return g.Val.St != spec.Known || g.Val.Depth() >= 1
		}
		for i, e := range g.Elems {
			if hasBoundary(rt.Field(i).Type, e) {
				return true
			}
		}
	}
	return false
}

// countNil counts nil pointers / slices / maps in the description.
func countNil(rt reflect.Type, g GV) int {
	n := 0
	switch rt.Kind() {
	case reflect.Ptr:
		if g.Nil {
			return 1
		}
		return countNil(rt.Elem(), g)
	case reflect.Slice, reflect.Map:
		if g.Nil {
			return 1
		}
		fallthrough
	case reflect.Array:
		for _, e := range g.Elems {
			n += countNil(rt.Elem(), e)
		}
	case reflect.Struct:
		if isPlainStruct(rt) {
			for i, e := range g.Elems {
				n += countNil(rt.Field(i).Type, e)
			}
		}
	}
	return n
}

// dumpGo prints a Go value deterministically (pointers followed, maps sorted),
// so that failure messages do not contain addresses.
func dumpGo(v reflect.Value) string {
	switch v.Kind() {
	case reflect.Ptr:
		if v.IsNil() {
			return "nil"
		}
		return "&" + dumpGo(v.Elem())
	case reflect.Slice:
		if v.IsNil() {
			return "nil"
		}
		fallthrough
	case reflect.Array:
		s := "["
		for i := 0; i < v.Len(); i++ {
			if i > 0 {
				s += " "
			}
			s += dumpGo(v.Index(i))
		}
		return s + "]"
	case reflect.Map:
		if v.IsNil() {
			return "nil"
		}
		s := "map["
		for i, k := range sortedKeys(v) {
			if i > 0 {
				s += " "
			}
			s += fmt.Sprintf("%q:%s", k, dumpGo(v.MapIndex(reflect.ValueOf(k).Convert(v.Type().Key()))))
		}
		return s + "]"
	case reflect.Struct:
		switch v.Type() {
		case bigIntT:
			b := v.Interface().(big.Int)
			return b.String()
		case bigFloatT:
			b := v.Interface().(big.Float)
			return b.Text('g', 40)
		case ctyValueT:
			return fmt.Sprintf("%#v", v.Interface())
		}
		s := "{"
		for i := 0; i < v.NumField(); i++ {
			if i > 0 {
				s += " "
			}
			s += v.Type().Field(i).Name + ":" + dumpGo(v.Field(i))
		}
		return s + "}"
	case reflect.String:
		return fmt.Sprintf("%q", v.String())
	}
	return fmt.Sprint(v.Interface())
}
