package c18

import (
	"fmt"
	"math/big"
	"reflect"

	"github.com/zclconf/go-cty/cty"
	"github.com/zclconf/go-cty/cty/gocty"
	"pgregory.net/rapid"

	"verif/harness/facet"
	"verif/harness/gen"
	"verif/harness/spec"
)

// nopanic/named-big: decoding into targets whose Go type is DEFINED over
// big.Int / big.Float (type Whole big.Int): they are structs with the same
// unexported fields as the big types without being them, so every guard
// written for "the big types" has to decide what it means by that. Only the
// no-panic clause is asserted (what such a target accepts is not documented).

type NamedBigInt big.Int
type NamedBigFloat big.Float
type structWithNamedBig struct {
	N NamedBigInt   `cty:"n"`
	F NamedBigFloat `cty:"f"`
}

// NamedBigIn is the input of nopanic/named-big.
type NamedBigIn struct {
	V      spec.V `json:"v"`
	Target int    `json:"target"`
}

var namedBigTargets = []reflect.Type{reflect.TypeOf(NamedBigInt{}), reflect.TypeOf(NamedBigFloat{}), reflect.TypeOf(&NamedBigInt{}), reflect.TypeOf(&NamedBigFloat{}),
	reflect.TypeOf(structWithNamedBig{}), reflect.TypeOf([]NamedBigInt{}), reflect.TypeOf(map[string]NamedBigFloat{})}

func init() {
	facet.Register(facet.F[NamedBigIn]{
		Prop: "C18", Name: "nopanic/named-big", Quick: 20000, Thorough: 150000, Shards: 2,
		Rule: "unmarked values (numbers; tuples of 2 and 7 members - the field counts of big.Int and big.Float - whose first members are bools or small whole numbers, as the first unexported fields are; objects, lists and maps of those; nulls and unknowns) decoded into targets whose Go type is defined over big.Int / big.Float (and pointers, structs, slices, maps of them): FromCtyValue must return, with or without an error; non-trivial = a tuple of 2 or 7 members is involved",
		Gen: func(t *rapid.T) NamedBigIn {
			member := func(i int) spec.V {
				switch rapid.IntRange(0, 4).Draw(t, "memberkind") {
				case 0:
					return spec.KnownBool(rapid.Bool().Draw(t, "b"))
				case 1:
					return spec.KnownNum(spec.NInt(int64(rapid.IntRange(0, 600).Draw(t, "small"))))
				case 2:
					return gen.Value(spec.List(spec.Number), gen.ValOpts{Simple: true, MaxElems: 2}).Draw(t, "list")
				case 3:
					return spec.KnownStr("x")
				default:
					return gen.Value(spec.Number, gen.ValOpts{Null: true, Unknown: true}).Draw(t, "num")
				}
			}
			tuple := func() spec.V {
				n := rapid.SampledFrom([]int{2, 7, 2, 7, 1, 3}).Draw(t, "n")
				v := spec.V{T: spec.T{K: spec.KTuple}, St: spec.Known}
				for i := 0; i < n; i++ {
					v.Elems = append(v.Elems, member(i))
				}
				return v.Retype()
			}
			in := NamedBigIn{Target: rapid.IntRange(0, len(namedBigTargets)-1).Draw(t, "target")}
			switch rapid.IntRange(0, 5).Draw(t, "shape") {
			case 0:
				in.V = gen.Value(spec.Number, gen.ValOpts{Null: true, Unknown: true}).Draw(t, "num")
			case 1:
				a, b := tuple(), tuple()
				in.V = spec.V{T: spec.T{K: spec.KObject}, St: spec.Known, Keys: []string{"f", "n"}, Elems: []spec.V{a, b}}.Retype()
			case 2:
				in.V = spec.V{T: spec.T{K: spec.KTuple}, St: spec.Known, Elems: []spec.V{tuple(), tuple()}}.Retype()
			default:
				in.V = tuple()
			}
			return in
		},
		Check: func(c *facet.Ctx, in NamedBigIn) error {
			v, err := spec.Build(in.V)
			if err != nil {
				c.Skip()
				return nil
			}
			rt := namedBigTargets[in.Target%len(namedBigTargets)]
			c.Label("target=" + rt.String())
			if in.V.T.K == spec.KTuple && (len(in.V.Elems) == 2 || len(in.V.Elems) == 7) {
				c.NonTrivial()
			}
			target := reflect.New(rt)
			var pan any
			func() {
				defer func() { pan = recover() }()
				_ = gocty.FromCtyValue(v, target.Interface())
			}()
			if pan != nil {
				return facet.Failf("decode-panic", "FromCtyValue(%#v, *%s) panicked: %v", v, rt, pan).With("target", fmt.Sprint(rt))
			}
			_ = cty.NilVal
			return nil
		},
	})
}
