package c18

import (
	"math"
	"math/big"
	"reflect"
	"strconv"
	"strings"

	"pgregory.net/rapid"

	"verif/harness/gen"
	"verif/harness/spec"
)

func pow2(n uint) *big.Int { return new(big.Int).Lsh(big.NewInt(1), n) }

// exactDecimal prints a rational whose denominator is a power of two exactly.
func exactDecimal(r *big.Rat) string {
	if r.IsInt() {
		return r.Num().String()
	}
	digits := r.Denom().BitLen() // denominator 2^k needs k fractional digits
	s := r.FloatString(digits)
	s = strings.TrimRight(s, "0")
	return strings.TrimSuffix(s, ".")
}

func ratOfFloat(f float64) *big.Rat { return new(big.Rat).SetFloat64(f) }

// routesFor lists the construction routes that can carry the decimal text s.
func routesFor(s string, lowPrec bool) []spec.Num {
	out := []spec.Num{spec.NParse(s)}
	r, ok := new(big.Rat).SetString(s)
	if !ok {
		return out
	}
	if r.IsInt() {
		if r.Num().IsInt64() {
			out = append(out, spec.Num{Route: "int", Text: r.Num().String()})
		}
		if r.Sign() >= 0 && r.Num().IsUint64() {
			out = append(out, spec.Num{Route: "uint", Text: r.Num().String()})
		}
	}
	if f, exact := r.Float64(); exact && !math.IsInf(f, 0) {
		out = append(out, spec.NFloat(f))
	}
	if lowPrec {
		out = append(out, spec.Num{Route: "big", Text: s, Prec: 24}, spec.Num{Route: "big", Text: s, Prec: 64})
	}
	return out
}

// withFractions returns the integer text and the same integer moved away
// from zero by .5 and by 1e-21.
func withFractions(i *big.Int) []string {
	s := i.String()
	return []string{s, s + ".5", s + ".000000000000000000001"}
}

func tableNumbers() []spec.Num {
	var out []spec.Num
	addText := func(s string, lowPrec bool) { out = append(out, routesFor(s, lowPrec)...) }
	// integer width boundaries
	for _, bits := range []uint{7, 8, 15, 16, 31, 32, 63, 64} {
		for _, neg := range []bool{false, true} {
			b := pow2(bits)
			if neg {
				b.Neg(b)
			}
			for d := int64(-2); d <= 2; d++ {
				n := new(big.Int).Add(b, big.NewInt(d))
				for _, s := range withFractions(n) {
					addText(s, true)
				}
			}
		}
	}
	// small and special values
	for _, s := range []string{"0", "0.5", "-0.5", "1", "-1", "2", "0.000000000000000000000000000001", "-0.000000000000000000000000000001",
		"9007199254740991", "9007199254740992", "9007199254740993", "-9007199254740993",
		"1180591620717411303424", "-1180591620717411303424", "1e40", "-1e40", "1e400", "-1e400", "1e-400", "-1e-400",
		"1e39", "3.5e38", "-3.5e38", "1e300", "-1e300", "1e308", "1e309", "-1e309", "0.1", "0.30000000000000004",
		"16777217", "16777217.0000001", "1.000000059604644775390625", "1.00000005960464477539062586736173798840354720596224069595336914"} {
		addText(s, false)
	}
	out = append(out, spec.Num{Route: "zero"}, spec.Num{Route: "negzero"}, spec.Num{Route: "+inf"}, spec.Num{Route: "-inf"})
	// float maxima and the first overflowing values, with neighbours
	m32 := new(big.Int).Sub(pow2(128), pow2(104)) // MaxFloat32
	o32 := new(big.Int).Sub(pow2(128), pow2(103)) // MaxFloat32 + ulp/2
	m64 := new(big.Int).Sub(pow2(1024), pow2(971))
	o64 := new(big.Int).Sub(pow2(1024), pow2(970))
	one, big600 := big.NewInt(1), pow2(600)
	var ints []*big.Int
	for _, b := range []*big.Int{m32, o32, pow2(128)} {
		ints = append(ints, new(big.Int).Sub(b, one), b, new(big.Int).Add(b, one))
	}
	for _, b := range []*big.Int{m64, o64, pow2(1024)} {
		ints = append(ints, new(big.Int).Sub(b, big600), b, new(big.Int).Add(b, big600))
	}
	for _, i := range ints {
		addText(i.String(), false)
		addText(new(big.Int).Neg(i).String(), false)
	}
	// subnormals, halves (ties with zero), and the smallest normals
	for _, e := range []int{-149, -150, -151, -126, -1074, -1075, -1076, -1022} {
		r := new(big.Rat).SetFrac(big.NewInt(1), pow2(uint(-e)))
		for _, k := range []int64{1, 3} {
			x := new(big.Rat).Mul(r, big.NewRat(k, 1))
			addText(exactDecimal(x), false)
			addText("-"+exactDecimal(x), false)
		}
	}
	return out
}

func boundaryTable() []NumCase {
	nums := tableNumbers()
	out := make([]NumCase, 0, len(nums)*len(numericTargets))
	for _, n := range nums {
		for _, tg := range numericTargets {
			out = append(out, NumCase{N: n, Target: tg})
		}
	}
	return out
}

// numNonTrivial: the number sits where the "exactly when" of the property is decided for this target.
func numNonTrivial(x *big.Float, rt reflect.Type) bool {
	for rt.Kind() == reflect.Ptr {
		rt = rt.Elem()
	}
	if x.IsInf() {
		return true
	}
	r := exactRat(x)
	if !r.IsInt() {
		return true
	}
	k := rt.Kind()
	two := big.NewRat(2, 1)
	near := func(b *big.Int) bool {
		d := new(big.Rat).Sub(r, new(big.Rat).SetInt(b))
		return d.Abs(d).Cmp(two) <= 0
	}
	switch {
	case isIntKind(k):
		b := uint(rt.Bits())
		return near(new(big.Int).Neg(pow2(b-1))) || near(pow2(b-1))
	case isUintKind(k):
		return near(big.NewInt(0)) || near(pow2(uint(rt.Bits())))
	case k == reflect.Float32:
		_, exact := r.Float32()
		return !exact || new(big.Rat).Abs(r).Cmp(ratOfFloat(math.MaxFloat32/2)) > 0
	case k == reflect.Float64:
		_, exact := r.Float64()
		return !exact || new(big.Rat).Abs(r).Cmp(ratOfFloat(math.MaxFloat64/2)) > 0
	}
	return r.Num().BitLen() > 63
}

var fracSuffixes = []string{"", "", ".5", ".000000000000000000001", ".999999999999999999999", ".25", ".0000000000000000000000000000000000000000000000000000000000000001"}

func genNumCase(t *rapid.T) NumCase {
	target := rapid.SampledFrom(numericTargets).Draw(t, "target")
	rt := family[target]
	for rt.Kind() == reflect.Ptr {
		rt = rt.Elem()
	}
	if !rapid.Bool().Draw(t, "relative") {
		return NumCase{N: gen.Num(gen.NumOpts{}).Draw(t, "n"), Target: "*"}
	}
	pick := func(s string, lowPrec bool) spec.Num {
		return rapid.SampledFrom(routesFor(s, lowPrec)).Draw(t, "route")
	}
	k := rt.Kind()
	switch {
	case isIntKind(k) || isUintKind(k) || rt == bigIntT || rt == bigFloatT:
		var b *big.Int
		bits := uint(64)
		if isIntKind(k) || isUintKind(k) {
			bits = uint(rt.Bits())
		}
		if rapid.IntRange(0, 4).Draw(t, "otherwidth") == 0 {
			bits = rapid.SampledFrom([]uint{8, 16, 32, 64}).Draw(t, "bits")
		}
		switch rapid.IntRange(0, 3).Draw(t, "bound") {
		case 0:
			b = new(big.Int).Neg(pow2(bits - 1))
		case 1:
			b = pow2(bits - 1)
		case 2:
			b = pow2(bits)
		default:
			b = big.NewInt(0)
		}
		delta := rapid.IntRange(-3, 3).Draw(t, "delta")
		if rapid.IntRange(0, 2).Draw(t, "fardelta") == 0 {
			delta = rapid.IntRange(-300, 300).Draw(t, "delta2")
		}
		n := new(big.Int).Add(b, big.NewInt(int64(delta)))
		s := n.String()
		if rapid.Bool().Draw(t, "fixedfrac") {
			s += rapid.SampledFrom(fracSuffixes).Draw(t, "frac")
		} else {
			s += rapid.StringMatching(`(\.[0-9]{1,25})?`).Draw(t, "randfrac")
		}
		return NumCase{N: pick(s, true), Target: "*"}
	default: // float32 / float64
		is32 := k == reflect.Float32
		switch rapid.IntRange(0, 3).Draw(t, "floatregion") {
		case 0, 1:
			// around the maximum / the first overflowing value / the next power of two
			top, mant, lo := uint(1024), uint(53), uint(524)
			if is32 {
				top, mant, lo = 128, 24, 0
			}
			var base *big.Int
			switch rapid.IntRange(0, 2).Draw(t, "base") {
			case 0:
				base = new(big.Int).Sub(pow2(top), pow2(top-mant)) // MaxFloat
			case 1:
				base = new(big.Int).Sub(pow2(top), pow2(top-mant-1)) // MaxFloat + ulp/2
			default:
				base = pow2(top)
			}
			j := uint(rapid.IntRange(int(lo), int(top-mant+2)).Draw(t, "j"))
			kk := int64(rapid.IntRange(-2, 2).Draw(t, "k"))
			x := new(big.Int).Add(base, new(big.Int).Mul(big.NewInt(kk), pow2(j)))
			if rapid.Bool().Draw(t, "neg") {
				x.Neg(x)
			}
			// also aim the other float type's limits at this target from time to time (1e300 -> float32)
			return NumCase{N: pick(x.String(), false), Target: "*"}
		case 2:
			// midpoint between two adjacent floats of the target type, moved by a relative 2^-p
			var f, g float64
			if is32 {
				a := rapid.Float32().Draw(t, "f32")
				if a != a || math.IsInf(float64(a), 0) {
					a = 1
				}
				f, g = float64(a), float64(math.Nextafter32(a, float32(math.Inf(1))))
			} else {
				f = rapid.Float64().Draw(t, "f64")
				if math.IsNaN(f) || math.IsInf(f, 0) {
					f = 1
				}
				g = math.Nextafter(f, math.Inf(1))
			}
			if math.IsInf(g, 0) {
				g = f
			}
			mid := new(big.Float).SetPrec(512).SetFloat64(f)
			mid.Add(mid, new(big.Float).SetPrec(512).SetFloat64(g))
			mid.Quo(mid, big.NewFloat(2))
			p := rapid.SampledFrom([]int{0, 30, 60, 100, 200, 400}).Draw(t, "p")
			if p > 0 {
				d := new(big.Float).SetPrec(512).SetMantExp(mid, -p)
				if rapid.Bool().Draw(t, "down") {
					mid.Sub(mid, d)
				} else {
					mid.Add(mid, d)
				}
			}
			return NumCase{N: spec.Num{Route: "big", Text: mid.Text('g', 170), Prec: 512}, Target: "*"}
		default:
			// subnormal region: k/4 of the smallest subnormal
			e := uint(1074)
			if is32 {
				e = 149
			}
			r := new(big.Rat).SetFrac(big.NewInt(int64(rapid.IntRange(-9, 9).Draw(t, "quarters"))), pow2(e+2))
			return NumCase{N: spec.NParse(exactDecimal(r)), Target: "*"}
		}
	}
}

var _ = strconv.Itoa
