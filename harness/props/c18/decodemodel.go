package c18

import (
	"fmt"
	"reflect"
	"sort"
	"strings"

	"github.com/zclconf/go-cty/cty"

	"verif/harness/spec"
)

// expect is what a successful decode must have stored.
type expect struct {
	nilv   bool // pointer / slice / map is nil
	num    *numRef
	str    *string
	b      *bool
	seq    []expect // slice / array members in order
	isSeq  bool
	keys   []string // map keys (NFC) aligned with vals
	vals   []expect
	isMap  bool
	fields map[int]expect // struct fields by index; other fields must be left zero
	isStr  bool           // struct
	cv     *spec.V        // cty.Value stored verbatim
	setLen int            // set decoded into a slice/array: only the length is compared
	isSet  bool
}

// refDecode is the reference for gocty.FromCtyValue(value of sv, *rt): which
// outcome the property and docs/gocty.md demand, and what must be stored.
//
// MustErr (property: "for unknown values, nulls into non-nilable targets and
// shape mismatches, it returns an error"; docs: "error messages will be
// generated for any extraneous or missing attributes", "the target struct must
// have exactly the same number of fields as exist in the tuple"):
// unknown anywhere outside a cty.Value position; null into anything that is
// not a pointer, slice or map; primitive kind differs from the target kind;
// number not representable (numref.go); list into something that is neither
// slice nor array, or into an array of another length; map into a non-map
// (except a struct: grey); object into a struct with an attribute that has no
// tagged field, or lacking the attribute of a non-nil-able tagged field; tuple
// whose length differs from the struct's field count, or into a non-struct;
// capsule values (no family type is the payload type).
//
// Grey (accepted either way, only "no panic" is asserted): a null whose type
// is not the type corresponding to the nil-able target; a missing attribute
// for a nil-able field (docs say error, code and shipped tests accept);
// object <-> Go map and map <-> struct, tuple -> slice/array (one direction
// of these is supported by ToCtyValue, the docs do not say the other is
// refused); empty object into big.Int/big.Float (vacuously one-to-one);
// numbers just above the float maximum.
func refDecode(sv spec.V, rt reflect.Type) (int, []string, expect) {
	if rt == ctyValueT {
		return MustOK, nil, expect{cv: &sv}
	}
	k := rt.Kind()
	if k == reflect.Ptr {
		if sv.St == spec.Null {
			if sv.T.Conforms(modelType(rt.Elem())) {
				return MustOK, nil, expect{nilv: true}
			}
			return Grey, []string{"null-of-other-type-into-pointer"}, expect{}
		}
		return refDecode(sv, rt.Elem())
	}
	if sv.St == spec.Unknown {
		return MustErr, []string{"unknown"}, expect{}
	}
	if sv.St == spec.Null {
		switch k {
		case reflect.Slice:
			if sv.T.K == spec.KList && sv.T.Conforms(modelType(rt)) {
				return MustOK, nil, expect{nilv: true}
			}
			return Grey, []string{"null-of-other-type-into-slice"}, expect{}
		case reflect.Map:
			if sv.T.K == spec.KMap && sv.T.Conforms(modelType(rt)) {
				return MustOK, nil, expect{nilv: true}
			}
			return Grey, []string{"null-of-other-type-into-map"}, expect{}
		}
		return MustErr, []string{"null-into-non-nilable"}, expect{}
	}
	mismatch := func() (int, []string, expect) {
		return MustErr, []string{"shape:" + sv.T.K + "-into-" + goShape(rt)}, expect{}
	}
	switch sv.T.K {
	case spec.KBool:
		if k == reflect.Bool {
			b := sv.B
			return MustOK, nil, expect{b: &b}
		}
		return mismatch()
	case spec.KString:
		if k == reflect.String {
			s := spec.NFC(sv.S)
			return MustOK, nil, expect{str: &s}
		}
		return mismatch()
	case spec.KNumber:
		if isIntKind(k) || isUintKind(k) || isFloatKind(k) || rt == bigIntT || rt == bigFloatT {
			ref := refNumber(sv.N.Float(), rt)
			switch ref.Class {
			case MustErr:
				return MustErr, []string{"num:" + ref.Reason}, expect{}
			case Grey:
				return Grey, []string{"num:" + ref.Reason}, expect{}
			}
			return MustOK, nil, expect{num: &ref}
		}
		return mismatch()
	case spec.KList:
		switch k {
		case reflect.Slice:
			return combineSeq(sv.Elems, func(int) reflect.Type { return rt.Elem() }, false)
		case reflect.Array:
			if len(sv.Elems) != rt.Len() {
				return MustErr, []string{"array-length"}, expect{}
			}
			return combineSeq(sv.Elems, func(int) reflect.Type { return rt.Elem() }, false)
		}
		return mismatch()
	case spec.KSet:
		switch k {
		case reflect.Slice, reflect.Array:
			c, rs, _ := combineSeq(sv.Elems, func(int) reflect.Type { return rt.Elem() }, false)
			if !sv.WhollyKnown() {
				// cty.SetVal answers an unknown set when a member is not
				// wholly known (membership cannot be decided); whether such a
				// value is a known set with unknown members is cty's business
				if c == MustErr {
					return c, rs, expect{}
				}
				return Grey, []string{"set-with-unknown-member"}, expect{}
			}
			n := spec.MustBuild(sv).LengthInt()
			if k == reflect.Array && n != rt.Len() {
				return MustErr, []string{"array-length"}, expect{}
			}
			return c, rs, expect{isSet: true, setLen: n}
		}
		return mismatch()
	case spec.KMap:
		switch {
		case k == reflect.Map:
			c, rs, e := combineSeq(sv.Elems, func(int) reflect.Type { return rt.Elem() }, false)
			keys := make([]string, len(sv.Keys))
			for i, kk := range sv.Keys {
				keys[i] = spec.NFC(kk)
			}
			return c, rs, expect{isMap: true, keys: keys, vals: e.seq}
		case isPlainStruct(rt):
			return Grey, []string{"map-into-struct"}, expect{}
		}
		return mismatch()
	case spec.KObject:
		switch {
		case isPlainStruct(rt):
			tags := taggedFields(rt)
			have := map[string]bool{}
			var errs, greys []string
			fields := map[int]expect{}
			for i, name := range sv.Keys {
				name = spec.NFC(name)
				have[name] = true
				idx, ok := tags[name]
				if !ok {
					errs = append(errs, "extraneous-attribute")
					continue
				}
				c, rs, e := refDecode(sv.Elems[i], rt.Field(idx).Type)
				switch c {
				case MustErr:
					errs = append(errs, rs...)
				case Grey:
					greys = append(greys, rs...)
				}
				fields[idx] = e
			}
			tagNames := make([]string, 0, len(tags))
			for tg := range tags {
				tagNames = append(tagNames, tg)
			}
			sort.Strings(tagNames)
			for _, tg := range tagNames {
				if have[tg] {
					continue
				}
				switch rt.Field(tags[tg]).Type.Kind() {
				case reflect.Ptr, reflect.Slice, reflect.Map, reflect.Interface:
					greys = append(greys, "missing-attribute-of-nilable-field")
				default:
					errs = append(errs, "missing-attribute")
				}
			}
			if len(errs) > 0 {
				return MustErr, errs, expect{}
			}
			if len(greys) > 0 {
				return Grey, greys, expect{}
			}
			return MustOK, nil, expect{isStr: true, fields: fields}
		case rt == bigIntT || rt == bigFloatT:
			if len(sv.Keys) > 0 {
				return MustErr, []string{"extraneous-attribute"}, expect{}
			}
			return Grey, []string{"empty-object-into-big"}, expect{}
		case k == reflect.Map:
			return Grey, []string{"object-into-map"}, expect{}
		}
		return mismatch()
	case spec.KTuple:
		switch {
		case isPlainStruct(rt):
			if len(sv.Elems) != rt.NumField() {
				return MustErr, []string{"tuple-length"}, expect{}
			}
			c, rs, e := combineSeq(sv.Elems, func(i int) reflect.Type { return rt.Field(i).Type }, false)
			fields := map[int]expect{}
			for i := range e.seq {
				fields[i] = e.seq[i]
			}
			return c, rs, expect{isStr: true, fields: fields}
		case k == reflect.Slice || k == reflect.Array:
			return Grey, []string{"tuple-into-sequence"}, expect{}
		case rt == bigIntT || rt == bigFloatT:
			return MustErr, []string{"shape:tuple-into-big"}, expect{}
		}
		return mismatch()
	case spec.KCapsule:
		return mismatch()
	}
	panic("c18: refDecode: unexpected value kind " + sv.T.K)
}

func combineSeq(elems []spec.V, typeOf func(int) reflect.Type, _ bool) (int, []string, expect) {
	var errs, greys []string
	seq := make([]expect, len(elems))
	for i, e := range elems {
		c, rs, x := refDecode(e, typeOf(i))
		switch c {
		case MustErr:
			errs = append(errs, rs...)
		case Grey:
			greys = append(greys, rs...)
		}
		seq[i] = x
	}
	if len(errs) > 0 {
		return MustErr, errs, expect{}
	}
	if len(greys) > 0 {
		return Grey, greys, expect{}
	}
	return MustOK, nil, expect{isSeq: true, seq: seq}
}

func goShape(rt reflect.Type) string {
	switch {
	case rt == bigIntT || rt == bigFloatT:
		return "big"
	case isIntKind(rt.Kind()) || isUintKind(rt.Kind()):
		return "int"
	case isFloatKind(rt.Kind()):
		return "float"
	}
	return rt.Kind().String()
}

// matchExpect compares a decoded Go value with the expectation.
func matchExpect(got reflect.Value, x expect, path string) string {
	if got.Type() == ctyValueT {
		if x.cv == nil {
			return path + ": model has no cty.Value here"
		}
		g := got.Interface().(cty.Value)
		want := spec.MustBuild(*x.cv)
		if g == cty.NilVal || !g.RawEquals(want) {
			return fmt.Sprintf("%s: stored cty value %#v, want %#v", path, g, want)
		}
		return ""
	}
	switch got.Kind() {
	case reflect.Ptr:
		if x.nilv {
			if !got.IsNil() {
				return path + ": pointer not nil after decoding null"
			}
			return ""
		}
		if got.IsNil() {
			return path + ": nil pointer after decoding a non-null value"
		}
		return matchExpect(got.Elem(), x, path+"*")
	case reflect.Slice, reflect.Map:
		if x.nilv {
			if !got.IsNil() {
				return fmt.Sprintf("%s: %s not nil after decoding null", path, got.Kind())
			}
			return ""
		}
		if got.IsNil() {
			return fmt.Sprintf("%s: nil %s after decoding a non-null value", path, got.Kind())
		}
	}
	switch {
	case x.b != nil:
		if got.Kind() != reflect.Bool || got.Bool() != *x.b {
			return fmt.Sprintf("%s: stored %v, want %t", path, got, *x.b)
		}
	case x.str != nil:
		if got.Kind() != reflect.String || got.String() != *x.str {
			return fmt.Sprintf("%s: stored %q, want %q", path, got, *x.str)
		}
	case x.num != nil:
		if d := checkStoredNumber(got, *x.num); d != "" {
			return path + ": " + d
		}
	case x.isSet:
		if got.Len() != x.setLen {
			return fmt.Sprintf("%s: %d members stored for a set of %d", path, got.Len(), x.setLen)
		}
	case x.isSeq:
		if got.Kind() != reflect.Slice && got.Kind() != reflect.Array {
			return path + ": not a sequence"
		}
		if got.Len() != len(x.seq) {
			return fmt.Sprintf("%s: length %d, want %d", path, got.Len(), len(x.seq))
		}
		for i := range x.seq {
			if d := matchExpect(got.Index(i), x.seq[i], fmt.Sprintf("%s[%d]", path, i)); d != "" {
				return d
			}
		}
	case x.isMap:
		if got.Kind() != reflect.Map {
			return path + ": not a map"
		}
		if got.Len() != len(x.keys) {
			return fmt.Sprintf("%s: map size %d, want %d", path, got.Len(), len(x.keys))
		}
		for i, k := range x.keys {
			e := got.MapIndex(reflect.ValueOf(k).Convert(got.Type().Key()))
			if !e.IsValid() {
				return fmt.Sprintf("%s: key %q missing", path, k)
			}
			if d := matchExpect(e, x.vals[i], fmt.Sprintf("%s[%q]", path, k)); d != "" {
				return d
			}
		}
	case x.isStr:
		if got.Kind() != reflect.Struct {
			return path + ": not a struct"
		}
		for i := 0; i < got.NumField(); i++ {
			fx, ok := x.fields[i]
			if !ok {
				if !got.Field(i).IsZero() {
					return fmt.Sprintf("%s.%s: field without a corresponding attribute was written", path, got.Type().Field(i).Name)
				}
				continue
			}
			if d := matchExpect(got.Field(i), fx, path+"."+got.Type().Field(i).Name); d != "" {
				return d
			}
		}
	default:
		return path + ": model has no expectation (harness bug)"
	}
	return ""
}

func onlyReason(rs []string, want string) bool {
	if len(rs) == 0 {
		return false
	}
	for _, r := range rs {
		if r != want {
			return false
		}
	}
	return true
}

func reasonClass(rs []string) string {
	if len(rs) == 0 {
		return "none"
	}
	// first reason, shortened to its class
	r := rs[0]
	if i := strings.Index(r, ":"); i >= 0 && strings.HasPrefix(r, "shape:") {
		return "shape"
	}
	return r
}
