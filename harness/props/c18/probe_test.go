package c18

import (
	"fmt"
	"testing"

	"github.com/zclconf/go-cty/cty"
	"github.com/zclconf/go-cty/cty/gocty"
)

func TestProbe(t *testing.T) {
	for _, s := range []string{"126.5", "127.5", "0.5", "255.5", "3.000000000000000000001"} {
		v := cty.MustParseNumberVal(s)
		var u uint
		err := gocty.FromCtyValue(v, &u)
		fmt.Println(s, "-> uint", u, err)
		var u8 uint8
		err = gocty.FromCtyValue(v, &u8)
		fmt.Println(s, "-> uint8", u8, err)
		var i int
		err = gocty.FromCtyValue(v, &i)
		fmt.Println(s, "-> int", i, err)
		a, acc := v.AsBigFloat().Uint64()
		fmt.Println(a, acc)
	}
}
