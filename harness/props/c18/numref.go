package c18

import (
	"fmt"
	"math"
	"math/big"
	"reflect"
)

// outcome classes of the reference decoder
const (
	MustOK  = 0 // decoding must succeed (and store the expected value)
	MustErr = 1 // decoding must return an error
	Grey    = 2 // the property/docs do not decide: either is accepted (never a panic)
)

// numRef is the reference outcome of decoding the number x (nil rat = an
// infinity with the given sign) into a Go numeric type, computed with big.Int /
// big.Rat only.
//
//   - integer targets: success exactly when x is finite, whole and within
//     [min, max] of the width; then the stored integer is x.
//   - float targets: the infinities are stored as such. A finite x with
//     |x| <= MaxFloat must succeed and must store x itself when x is a float of
//     that type; otherwise one of the two floats adjacent to x ("nearest"
//     for float64 - any of the two at an exact tie -, either neighbour for
//     float32: neither the property nor docs/gocty.md promise correct rounding,
//     the code comment in fromCtyNumberFloat says precision may be truncated).
//     A finite x with |x| >= MaxFloat + ulp/2 is not representable under any
//     rounding rule: it must be refused. In between (MaxFloat < |x| <
//     MaxFloat + ulp/2, which IEEE rounding maps to MaxFloat) either refusal
//     or storing +-MaxFloat is accepted.
//   - big.Int: success exactly when x is finite and whole. big.Float: always.
type numRef struct {
	Class  int
	Reason string // for MustErr / Grey
	Int    *big.Int
	Floats []float64 // acceptable stored values (float targets)
	Exact  bool      // x itself is a float of the target type
	Big    *big.Float
}

var (
	max32      = new(big.Rat).SetFloat64(math.MaxFloat32)
	max64      = new(big.Rat).SetFloat64(math.MaxFloat64)
	overflow32 = ratPow2Diff(128, 103)  // MaxFloat32 + ulp/2 = 2^128 - 2^103
	overflow64 = ratPow2Diff(1024, 970) // MaxFloat64 + ulp/2 = 2^1024 - 2^970
)

func ratPow2Diff(a, b uint) *big.Rat {
	x := new(big.Int).Lsh(big.NewInt(1), a)
	x.Sub(x, new(big.Int).Lsh(big.NewInt(1), b))
	return new(big.Rat).SetInt(x)
}

// exactRat converts a finite big.Float to the rational it denotes.
func exactRat(f *big.Float) *big.Rat {
	r, _ := f.Rat(nil)
	return r
}

func refNumber(x *big.Float, rt reflect.Type) numRef {
	for rt.Kind() == reflect.Ptr {
		rt = rt.Elem()
	}
	k := rt.Kind()
	inf := x.IsInf()
	var r *big.Rat
	if !inf {
		r = exactRat(x)
	}
	switch {
	case isIntKind(k) || isUintKind(k):
		if inf {
			return numRef{Class: MustErr, Reason: k.String() + ":infinite"}
		}
		if !r.IsInt() {
			// "short": at least 1 in magnitude with a mantissa of at most 64 bits
			// (the class the known finding C18-uint-fraction is confined to)
			if x.MinPrec() <= 64 && x.MantExp(nil) >= 1 {
				return numRef{Class: MustErr, Reason: k.String() + ":fraction:short"}
			}
			return numRef{Class: MustErr, Reason: k.String() + ":fraction"}
		}
		i := new(big.Int).Set(r.Num())
		b := uint(rt.Bits())
		var min, max *big.Int
		if isIntKind(k) {
			min = new(big.Int).Neg(new(big.Int).Lsh(big.NewInt(1), b-1))
			max = new(big.Int).Sub(new(big.Int).Lsh(big.NewInt(1), b-1), big.NewInt(1))
		} else {
			min = big.NewInt(0)
			max = new(big.Int).Sub(new(big.Int).Lsh(big.NewInt(1), b), big.NewInt(1))
		}
		if i.Cmp(min) < 0 || i.Cmp(max) > 0 {
			return numRef{Class: MustErr, Reason: k.String() + ":range"}
		}
		return numRef{Class: MustOK, Int: i}
	case k == reflect.Float64:
		if inf {
			return numRef{Class: MustOK, Floats: []float64{math.Inf(x.Sign())}, Exact: true}
		}
		abs := new(big.Rat).Abs(r)
		if abs.Cmp(max64) > 0 {
			if abs.Cmp(overflow64) >= 0 {
				return numRef{Class: MustErr, Reason: "float64:overflow"}
			}
			return numRef{Class: Grey, Reason: "float64:above-max-rounds-to-max", Floats: []float64{math.Copysign(math.MaxFloat64, float64(r.Sign()))}}
		}
		n, exact := r.Float64()
		if exact {
			return numRef{Class: MustOK, Floats: []float64{n}, Exact: true}
		}
		lo, hi := n, n
		if new(big.Rat).SetFloat64(n).Cmp(r) < 0 {
			hi = math.Nextafter(n, math.Inf(1))
		} else {
			lo = math.Nextafter(n, math.Inf(-1))
		}
		// nearest; both at an exact tie
		dl := new(big.Rat).Sub(r, new(big.Rat).SetFloat64(lo))
		dh := new(big.Rat).Sub(new(big.Rat).SetFloat64(hi), r)
		switch dl.Cmp(dh) {
		case -1:
			return numRef{Class: MustOK, Floats: []float64{lo}}
		case 1:
			return numRef{Class: MustOK, Floats: []float64{hi}}
		}
		return numRef{Class: MustOK, Floats: []float64{lo, hi}}
	case k == reflect.Float32:
		if inf {
			return numRef{Class: MustOK, Floats: []float64{math.Inf(x.Sign())}, Exact: true}
		}
		abs := new(big.Rat).Abs(r)
		if abs.Cmp(max32) > 0 {
			if abs.Cmp(overflow32) >= 0 {
				return numRef{Class: MustErr, Reason: "float32:overflow"}
			}
			return numRef{Class: Grey, Reason: "float32:above-max-rounds-to-max", Floats: []float64{math.Copysign(math.MaxFloat32, float64(r.Sign()))}}
		}
		n, exact := r.Float32()
		if exact {
			return numRef{Class: MustOK, Floats: []float64{float64(n)}, Exact: true}
		}
		lo, hi := n, n
		if new(big.Rat).SetFloat64(float64(n)).Cmp(r) < 0 {
			hi = math.Nextafter32(n, float32(math.Inf(1)))
		} else {
			lo = math.Nextafter32(n, float32(math.Inf(-1)))
		}
		return numRef{Class: MustOK, Floats: []float64{float64(lo), float64(hi)}}
	case rt == bigIntT:
		if inf {
			return numRef{Class: MustErr, Reason: "bigint:infinite"}
		}
		if !r.IsInt() {
			return numRef{Class: MustErr, Reason: "bigint:fraction"}
		}
		return numRef{Class: MustOK, Int: new(big.Int).Set(r.Num())}
	case rt == bigFloatT:
		return numRef{Class: MustOK, Big: x}
	}
	return numRef{Class: MustErr, Reason: "not-a-numeric-target"}
}

// checkStoredNumber compares what was stored in target (a value of the
// numeric type, pointers already followed) with the reference.
func checkStoredNumber(target reflect.Value, ref numRef) string {
	for target.Kind() == reflect.Ptr {
		if target.IsNil() {
			return "nil pointer stored for a number"
		}
		target = target.Elem()
	}
	k := target.Kind()
	switch {
	case isIntKind(k):
		if !ref.Int.IsInt64() || target.Int() != ref.Int.Int64() {
			return fmt.Sprintf("stored %d, the number is %s", target.Int(), ref.Int)
		}
	case isUintKind(k):
		if !ref.Int.IsUint64() || target.Uint() != ref.Int.Uint64() {
			return fmt.Sprintf("stored %d, the number is %s", target.Uint(), ref.Int)
		}
	case isFloatKind(k):
		got := target.Float()
		for _, f := range ref.Floats {
			if got == f {
				return ""
			}
		}
		return fmt.Sprintf("stored %v, acceptable %v (exact=%t)", got, ref.Floats, ref.Exact)
	case target.Type() == bigIntT:
		g := target.Interface().(big.Int)
		if g.Cmp(ref.Int) != 0 {
			return fmt.Sprintf("stored %s, the number is %s", g.String(), ref.Int)
		}
	case target.Type() == bigFloatT:
		g := target.Interface().(big.Float)
		if g.IsInf() != ref.Big.IsInf() || g.Cmp(ref.Big) != 0 {
			return fmt.Sprintf("stored %s, the number is %s", g.Text('g', 50), ref.Big.Text('g', 50))
		}
	default:
		return "not a numeric target"
	}
	return ""
}
