package c18

import (
	"fmt"
	"math/big"
	"reflect"
	"strings"

	"github.com/zclconf/go-cty/cty"
	"github.com/zclconf/go-cty/cty/gocty"
	"pgregory.net/rapid"

	"verif/harness/facet"
	"verif/harness/gen"
	"verif/harness/spec"
	"verif/harness/wf"
)

// ---------------------------------------------------------------- guarded calls into gocty

func callTo(g any, ty cty.Type) (v cty.Value, err error, pan any) {
	defer func() {
		if r := recover(); r != nil {
			pan = r
		}
	}()
	v, err = gocty.ToCtyValue(g, ty)
	return
}

func callFrom(v cty.Value, target any) (err error, pan any) {
	defer func() {
		if r := recover(); r != nil {
			pan = r
		}
	}()
	err = gocty.FromCtyValue(v, target)
	return
}

func callImplied(g any) (ty cty.Type, err error, pan any) {
	defer func() {
		if r := recover(); r != nil {
			pan = r
		}
	}()
	ty, err = gocty.ImpliedType(g)
	return
}

// ---------------------------------------------------------------- roundtrip/<go type>

// RT is the input of a round-trip facet.
type RT struct {
	Type  string `json:"type"`            // family type name
	G     GV     `json:"g"`               // the Go value
	Dirty *GV    `json:"dirty,omitempty"` // if set: a second decode goes into a target pre-populated with this value
}

const rtRule = "Go value of the facet's type drawn by a per-kind generator (integers biased to min, min+1, max-1, max of the width; floats to +-max, smallest subnormal, +-Inf, -0; NFC strings over the shared hostile alphabet; nil pointers/slices/maps; maps with distinct NFC keys; embedded cty values of one type per case, possibly null/unknown). " +
	"Non-trivial: the value holds a boundary number (integer min/min+1/max-1/max; float +-max, subnormal, -0, +-Inf, magnitude >= 2^63; big.Int beyond 18 digits; big.Float zero value or infinity), a bool, a non-ASCII string or key, a zero-length array, a null/unknown/nested embedded cty value, a nil pointer/slice/map, or the type has >= 2 levels of nesting. Distinct = hash of the input JSON."

func checkRoundTrip(c *facet.Ctx, in RT) error {
	rt, ok := family[in.Type]
	if !ok {
		return facet.Failf("harness", "unknown family type %q", in.Type)
	}
	gval := buildGo(rt, in.G)
	mt := modelType(rt)
	ty := mt.Cty()

	nest := nesting(rt)
	nils := countNil(rt, in.G)
	bnd := hasBoundary(rt, in.G)
	if bnd || nils > 0 || nest >= 2 {
		c.NonTrivial()
	}
	if bnd {
		c.Label("boundary-value")
	}
	if nils > 0 {
		c.Label("has-nil")
	}
	if nest >= 2 {
		c.Label("nesting>=2")
	}

	// the implied type (docs/gocty.md "Implied cty Type of a Go value")
	if !needsExplicitType(rt) {
		ity, err, pan := callImplied(gval.Interface())
		if pan != nil {
			return facet.Failf("implied-panic", "ImpliedType(%s) panicked: %v", rt, pan)
		}
		if err != nil {
			return facet.Failf("implied-error", "ImpliedType(%s): %v", rt, err)
		}
		if !ity.Equals(ty) || !spec.FromCty(ity).Equal(mt) {
			return facet.Failf("implied-type", "ImpliedType(%s) = %#v, documented mapping gives %s", rt, ity, mt)
		}
		c.Label("implied-type")
	} else {
		c.Label("explicit-type")
	}

	cv, err, pan := callTo(gval.Interface(), ty)
	if pan != nil {
		return facet.Failf("tocty-panic", "ToCtyValue(%s value, %s) panicked: %v", rt, mt, pan)
	}
	if err != nil {
		return facet.Failf("tocty-error", "ToCtyValue(%s value, %s): %v", rt, mt, err)
	}
	if f := wf.Check(cv); f != nil {
		return f
	}
	if d := diffCty(cv, rt, in.G, "$"); d != "" {
		return facet.Failf("tocty-value", "ToCtyValue(%s value, %s) = %#v: %s", rt, mt, cv, d)
	}

	target := reflect.New(rt)
	err, pan = callFrom(cv, target.Interface())
	if pan != nil {
		return facet.Failf("fromcty-panic", "FromCtyValue(%#v, *%s) panicked: %v", cv, rt, pan)
	}
	if err != nil {
		return facet.Failf("fromcty-error", "FromCtyValue(%#v, *%s): %v", cv, rt, err)
	}
	if d := diffGo(target.Elem(), gval, "$", true); d != "" {
		return facet.Failf("roundtrip-differs", "%s value did not survive ToCtyValue/FromCtyValue: %s (via %#v)", rt, d, cv)
	}
	if d := diffGo(target.Elem(), gval, "$", false); d != "" {
		return facet.Failf("roundtrip-zero-sign", "%s value lost the sign of a zero: %s", rt, d)
	}

	if in.Dirty != nil {
		c.Label("dirty-target")
		t2 := reflect.New(rt)
		fillGo(t2.Elem(), *in.Dirty)
		err, pan = callFrom(cv, t2.Interface())
		if pan != nil {
			return facet.Failf("fromcty-panic", "FromCtyValue(%#v, populated *%s) panicked: %v", cv, rt, pan)
		}
		if err != nil {
			return facet.Failf("fromcty-error", "FromCtyValue(%#v, populated *%s): %v", cv, rt, err)
		}
		if d := diffGo(t2.Elem(), gval, "$", true); d != "" {
			return facet.Failf("dirty-target-differs", "decoding into an already populated %s did not produce the value: %s (via %#v)", rt, d, cv)
		}
	}
	return nil
}

func genRT(name string) func(t *rapid.T) RT {
	rt := family[name]
	return func(t *rapid.T) RT {
		c := newGenCtx(t, rt)
		in := RT{Type: name, G: drawGV(t, rt, c)}
		if rapid.IntRange(0, 2).Draw(t, "dirty") == 0 {
			d := drawGV(t, rt, c)
			in.Dirty = &d
		}
		return in
	}
}

// ---------------------------------------------------------------- roundtrip/mixed-types

// MixedRT is a short history: round trips of values of several family types
// one after another in one process, so that anything the library keeps between
// calls (per-type tables, scratch buffers) is exercised across types.
type MixedRT struct {
	Steps []RT `json:"steps"`
}

func genMixed(t *rapid.T) MixedRT {
	n := rapid.IntRange(2, 4).Draw(t, "steps")
	structs := []string{"LocalRecA", "LocalRecB", "StructFlat", "StructCase", "StructPtrs", "StructDyn", "PtrStructFlat", "MapStructFlat"}
	var in MixedRT
	for i := 0; i < n; i++ {
		var name string
		if rapid.IntRange(0, 3).Draw(t, "structy") != 0 {
			name = rapid.SampledFrom(structs).Draw(t, "type")
		} else {
			name = rapid.SampledFrom(familyNames).Draw(t, "type")
		}
		in.Steps = append(in.Steps, genRT(name)(t))
	}
	return in
}

func checkMixed(c *facet.Ctx, in MixedRT) error {
	seen := map[string]bool{}
	for i, st := range in.Steps {
		seen[st.Type] = true
		if err := checkRoundTrip(c, st); err != nil {
			f := facet.AsFailure(err)
			f.Msg = fmt.Sprintf("step %d of %d (type %s): %s", i+1, len(in.Steps), st.Type, f.Msg)
			return f
		}
	}
	if len(seen) >= 2 {
		c.NonTrivial()
	}
	if seen["LocalRecA"] && seen["LocalRecB"] {
		c.Label("same-name-different-types")
	}
	return nil
}

// ---------------------------------------------------------------- numeric facets

// NumCase is one number decoded into one numeric target type.
type NumCase struct {
	N      spec.Num `json:"n"`
	Target string   `json:"target"`
}

func checkNum(c *facet.Ctx, in NumCase, always bool) error {
	x := in.N.Float()
	cv := in.N.Cty()
	if got := cv.AsBigFloat(); got.IsInf() != x.IsInf() || got.Cmp(x) != 0 {
		// the constructor did not build the number the spec denotes: not this property's business
		c.Skip()
		return nil
	}
	targets := []string{in.Target}
	if in.Target == "*" {
		targets = numericTargets
	}
	c.Key(in.Target + "|" + x.Text('g', 40) + "|" + in.N.Route)
	// With several targets per case the first failure that is not one of the
	// catalogued root causes is reported, so that a known finding on one
	// target cannot hide a new failure on another.
	var first, firstNew *facet.Failure
	for _, tg := range targets {
		f := checkNumTarget(c, in, x, cv, tg, always)
		if f == nil {
			continue
		}
		if first == nil {
			first = f
		}
		if firstNew == nil && !cataloguedNumeric(f) {
			firstNew = f
		}
	}
	if firstNew != nil {
		return firstNew
	}
	if first != nil {
		return first
	}
	return nil
}

func checkNumTarget(c *facet.Ctx, in NumCase, x *big.Float, cv cty.Value, tg string, always bool) *facet.Failure {
	rt, ok := family[tg]
	if !ok {
		return facet.Failf("harness", "unknown family type %q", tg)
	}
	ref := refNumber(x, rt)
	bk := baseKind(rt)
	switch ref.Class {
	case MustOK:
		c.Label(bk + ":representable")
	case MustErr:
		c.Label(bk + ":unrepresentable:" + ref.Reason[strings.Index(ref.Reason, ":")+1:])
	case Grey:
		c.Label(bk + ":grey")
	}
	if always || numNonTrivial(x, rt) {
		c.NonTrivial()
	}

	for _, dirty := range []bool{false, true} {
		target := reflect.New(rt)
		if dirty {
			prepopulate(target.Elem())
		}
		err, pan := callFrom(cv, target.Interface())
		fail := func(kind, f string, a ...any) *facet.Failure {
			return facet.Failf(kind, "number %s into %s: %s", in.N, rt, fmt.Sprintf(f, a...)).
				With("target", bk).With("reason", ref.Reason).With("stored", storedText(target.Elem()))
		}
		if pan != nil {
			return fail("panic", "FromCtyValue panicked: %v", pan)
		}
		switch ref.Class {
		case MustOK:
			if err != nil {
				return fail("refused-representable", "the number is representable but decoding failed: %v", err)
			}
			if d := checkStoredNumber(target.Elem(), ref); d != "" {
				return fail("stored-wrong", "%s", d)
			}
			if bk == "float32" && !ref.Exact && len(ref.Floats) == 2 {
				// measured only: which neighbour was stored (double rounding through float64)
				n, _ := exactRat(x).Float32()
				e := target.Elem()
				for e.Kind() == reflect.Ptr {
					e = e.Elem()
				}
				if e.Float() != float64(n) {
					c.Label("float32:stored-the-farther-neighbour")
				}
			}
		case MustErr:
			if err == nil {
				return fail("accepted-unrepresentable", "the number is not representable (%s) but decoding succeeded and stored %s", ref.Reason, storedText(target.Elem()))
			}
		case Grey:
			if err == nil {
				if d := checkStoredNumber(target.Elem(), ref); d != "" {
					return fail("stored-wrong", "%s", d)
				}
			}
		}
	}
	return nil
}

func baseKind(rt reflect.Type) string {
	for rt.Kind() == reflect.Ptr {
		rt = rt.Elem()
	}
	if rt == bigIntT {
		return "big.Int"
	}
	if rt == bigFloatT {
		return "big.Float"
	}
	return rt.Kind().String()
}

func storedText(v reflect.Value) string {
	for v.Kind() == reflect.Ptr {
		if v.IsNil() {
			return "nil"
		}
		v = v.Elem()
	}
	switch {
	case isIntKind(v.Kind()):
		return fmt.Sprint(v.Int())
	case isUintKind(v.Kind()):
		return fmt.Sprint(v.Uint())
	case isFloatKind(v.Kind()):
		return fmt.Sprint(v.Float())
	case v.Type() == bigIntT:
		b := v.Interface()
		return fmt.Sprintf("%v", &b)
	}
	return "?"
}

// prepopulate stores a non-zero value in a numeric target (pointers allocated).
func prepopulate(v reflect.Value) {
	switch {
	case v.Kind() == reflect.Ptr:
		p := reflect.New(v.Type().Elem())
		prepopulate(p.Elem())
		v.Set(p)
	case isIntKind(v.Kind()):
		v.SetInt(77)
	case isUintKind(v.Kind()):
		v.SetUint(77)
	case isFloatKind(v.Kind()):
		v.SetFloat(77.5)
	}
}

// ---------------------------------------------------------------- errors/unknown-null-shape and nopanic

// DecCase is one cty value decoded into one family type.
type DecCase struct {
	V      spec.V `json:"v"`
	Target string `json:"target"`
	Mode   string `json:"mode"`
	Dirty  *GV    `json:"dirty,omitempty"`
}

func checkDecode(c *facet.Ctx, in DecCase) error {
	rt, ok := family[in.Target]
	if !ok {
		return facet.Failf("harness", "unknown family type %q", in.Target)
	}
	if in.V.HasMarks() {
		c.Skip() // the property speaks about unmarked values
		return nil
	}
	// refinements that can collapse an unknown value into a known one are
	// dropped, so that "unknown" in the specification means unknown
	sv := dropCollapsingRefs(in.V)
	cv, berr := spec.Build(sv)
	if berr != nil {
		c.Skip()
		return nil
	}
	if sv.St == spec.Unknown && cv.IsKnown() {
		c.Skip() // a refinement collapsed the value after all
		return nil
	}
	class, reasons, exp := refDecode(sv, rt)
	c.Label("mode=" + in.Mode)
	switch class {
	case MustOK:
		c.Label("must-succeed")
	case MustErr:
		c.Label("must-fail:" + reasonClass(reasons))
	case Grey:
		c.Label("grey:" + reasonClass(reasons))
	}
	if class == MustErr || sv.Depth() >= 2 || nesting(rt) >= 2 {
		c.NonTrivial()
	}

	target := reflect.New(rt)
	if in.Dirty != nil {
		fillGo(target.Elem(), *in.Dirty)
		c.Label("dirty-target")
	}
	err, pan := callFrom(cv, target.Interface())
	rs := strings.Join(reasons, ",")
	if pan != nil {
		return facet.Failf("panic", "FromCtyValue(%#v, *%s) panicked: %v", cv, rt, pan).With("reasons", rs).With("panic", fmt.Sprint(pan))
	}
	switch class {
	case MustErr:
		if err == nil {
			return facet.Failf("accepted", "FromCtyValue(%#v, *%s) succeeded (stored %s); an error is required: %s", cv, rt, dumpGo(target.Elem()), rs).With("reasons", rs)
		}
	case MustOK:
		if err != nil {
			return facet.Failf("refused", "FromCtyValue(%#v, *%s) failed: %v; the value fits the target", cv, rt, err)
		}
		if in.Dirty == nil {
			if d := matchExpect(target.Elem(), exp, "$"); d != "" {
				return facet.Failf("stored-wrong", "FromCtyValue(%#v, *%s) stored %s: %s", cv, rt, dumpGo(target.Elem()), d)
			}
		}
	}
	return nil
}

// dropCollapsingRefs removes the refinements under which cty may return a
// known value for an "unknown" (refined to null; equal inclusive numeric
// bounds; equal length bounds), at every depth.
func dropCollapsingRefs(v spec.V) spec.V {
	if v.St == spec.Unknown && v.Ref != nil {
		r := v.Ref
		if r.Null == "null" || (r.Lo != nil && r.Hi != nil) || r.MaxLen != nil {
			v.Ref = nil
		}
	}
	if len(v.Elems) > 0 {
		es := make([]spec.V, len(v.Elems))
		for i, e := range v.Elems {
			es[i] = dropCollapsingRefs(e)
		}
		v.Elems = es
	}
	return v
}

var compositeNames = func() []string {
	var out []string
	for _, n := range familyNames {
		if nesting(family[n]) >= 1 && !(family[n].Kind() == reflect.Ptr && nesting(family[n]) == 1) {
			out = append(out, n)
		}
	}
	return out
}()

var structNames = func() []string {
	var out []string
	for _, n := range familyNames {
		if isPlainStruct(family[n]) {
			out = append(out, n)
		}
	}
	return out
}()

func drawTarget(t *rapid.T) string {
	if rapid.Bool().Draw(t, "composite") {
		return rapid.SampledFrom(compositeNames).Draw(t, "target")
	}
	return rapid.SampledFrom(familyNames).Draw(t, "target")
}

var tupleMemberTypes = []spec.T{spec.Bool, spec.Number, spec.String, spec.List(spec.Number), spec.List(spec.String), spec.Map(spec.Number)}

func genDecode(wild bool) func(t *rapid.T) DecCase {
	return func(t *rapid.T) DecCase {
		target := drawTarget(t)
		rt := family[target]
		vo := gen.ValOpts{Null: true, Unknown: true, Simple: rapid.Bool().Draw(t, "simple")}
		in := DecCase{Target: target}
		mode := rapid.IntRange(0, 9).Draw(t, "mode")
		if wild && mode < 5 {
			mode = 9
		}
		switch {
		case mode <= 2:
			in.Mode = "fitting-type"
			in.V = gen.Value(modelType(rt), vo).Draw(t, "v")
		case mode <= 4:
			in.Mode = "mutated-type"
			mty, _ := gen.MutateType(t, modelType(rt), gen.TypeOpts{Depth: 2, Dynamic: true})
			in.V = gen.Value(mty, vo).Draw(t, "v")
		case mode <= 6:
			in.Mode = "tuple"
			var ty spec.T
			if isPlainStruct(rt) {
				es := make([]spec.T, rt.NumField())
				for i := range es {
					es[i] = modelType(rt.Field(i).Type)
				}
				if rapid.IntRange(0, 3).Draw(t, "cut") == 0 && len(es) > 0 {
					es = es[:len(es)-1]
				}
				ty = spec.Tuple(es...)
			} else {
				n := rapid.SampledFrom([]int{0, 1, 2, 2, 3, 7}).Draw(t, "tuplelen")
				es := make([]spec.T, n)
				for i := range es {
					es[i] = rapid.SampledFrom(tupleMemberTypes).Draw(t, "member")
				}
				ty = spec.Tuple(es...)
			}
			in.V = gen.Value(ty, vo).Draw(t, "v")
		default:
			in.Mode = "independent"
			depth := 2
			if wild {
				depth = 3
			}
			in.V = gen.AnyValue(gen.TypeOpts{Depth: depth, Dynamic: true, Capsule: true}, vo).Draw(t, "v")
		}
		if wild && !hasDyn(rt) && rapid.Bool().Draw(t, "dirty") {
			d := drawGV(t, rt, newGenCtx(t, rt))
			in.Dirty = &d
		}
		return in
	}
}

// ---------------------------------------------------------------- registration

func init() {
	for _, name := range familyNames {
		name := name
		quick, thorough := 3000, 25000
		if nesting(family[name]) >= 2 {
			quick, thorough = 6000, 50000
		}
		facet.Register(facet.F[RT]{
			Prop: "C18", Name: "roundtrip/" + name, Rule: rtRule, Quick: quick, Thorough: thorough, Shards: 2,
			Gen:   genRT(name),
			Check: checkRoundTrip,
		})
	}

	facet.Register(facet.F[MixedRT]{
		Prop: "C18", Name: "roundtrip/mixed-types",
		Rule:  "2-4 round trips (as in roundtrip/<type>) of values of different family types one after another in one process, biased to the struct types, among them two distinct struct types that share their name (function-local types) but not their layout; non-trivial when at least two different types occur. Distinct = hash of the input JSON.",
		Quick: 20000, Thorough: 150000, Shards: 4,
		Gen:   genMixed,
		Check: checkMixed,
	})

	facet.Register(facet.F[NumCase]{
		Prop: "C18", Name: "numeric/boundary-table",
		Rule:       "EXHAUSTIVE table: for every integer width boundary (+-2^7, 2^8, +-2^15, 2^16, +-2^31, 2^32, +-2^63, 2^64) the values b-2..b+2, each whole, with .5 and with a 1e-21 fraction; 0, -0, small fractions, 2^53+-1, 2^70, 1e40, 1e+-400, +-Inf; the float32 and float64 maxima, MaxFloat+ulp/2 (first value that overflows under IEEE rounding) and their neighbours, smallest subnormals and halves of them; every applicable construction route (parsed decimal, NumberIntVal, NumberUIntVal, NumberFloatVal, big.Float at 24/64 bits) x every numeric target (10 integer widths, float32/64, pointers to each, 3 named types, big.Int, big.Float and pointers). Every case counts; distinct = target, exact value, route.",
		Exhaustive: boundaryTable,
		Check:      func(c *facet.Ctx, in NumCase) error { return checkNum(c, in, true) },
	})

	facet.Register(facet.F[NumCase]{
		Prop: "C18", Name: "numeric/random",
		Rule:  "number x EVERY numeric target of the family (31 per case); half of the numbers are drawn relative to one target (integer bounds +-2 with optional fraction; for floats: around MaxFloat, MaxFloat+ulp/2, float32 midpoints +- tiny, subnormals), half from the shared class generator (all routes, huge, fractions, infinities). Non-trivial: for some target the number is within 2 of an integer bound, above half the float maximum, not whole, infinite, or not exactly representable in a float target. Distinct = exact value and route.",
		Quick: 25000, Thorough: 120000, Shards: 8,
		Gen:   genNumCase,
		Check: func(c *facet.Ctx, in NumCase) error { return checkNum(c, in, false) },
	})

	facet.Register(facet.F[DecCase]{
		Prop: "C18", Name: "errors/unknown-null-shape",
		Rule:  "unmarked cty value x family target, compared with a reference decoder written from the property and docs/gocty.md (must-succeed with the expected stored value / must-fail / grey). Values: of the target's own type with nulls and unknowns at any depth (30%), of a one-position mutant of that type (20%), tuples shaped after the target struct's fields or random small tuples (20%), independent (30%). Non-trivial: an error is required, or value depth >= 2, or target nesting >= 2. Distinct = hash of the input JSON.",
		Quick: 40000, Thorough: 250000, Shards: 8,
		Gen:   genDecode(false),
		Check: checkDecode,
	})

	facet.Register(facet.F[DecCase]{
		Prop: "C18", Name: "nopanic",
		Rule:  "unmarked cty value of any type to depth 3 (dynamic, capsules, sets, refined unknowns, nulls) or tuples x family target, half of the targets already populated with another value; asserts no panic, and error/success per the reference decoder. Non-trivial as in errors/unknown-null-shape.",
		Quick: 40000, Thorough: 250000, Shards: 8,
		Gen:   genDecode(true),
		Check: checkDecode,
	})
}
