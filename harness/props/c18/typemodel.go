package c18

import (
	"reflect"

	"verif/harness/spec"
)

// modelType is the harness's own statement of the cty type that corresponds
// to a Go type, written from docs/gocty.md ("Implied cty Type of a Go value":
// ints, uints and floats -> number; bool -> bool; string -> string; slices ->
// lists; string-keyed maps -> maps; tagged structs -> objects; cty.Value ->
// dynamic; pointers are transparent), extended by the property's "arrays and
// big numbers to the corresponding list and number types".
func modelType(rt reflect.Type) spec.T {
	switch rt.Kind() {
	case reflect.Ptr:
		return modelType(rt.Elem())
	case reflect.Bool:
		return spec.Bool
	case reflect.Int, reflect.Int8, reflect.Int16, reflect.Int32, reflect.Int64,
		reflect.Uint, reflect.Uint8, reflect.Uint16, reflect.Uint32, reflect.Uint64,
		reflect.Float32, reflect.Float64:
		return spec.Number
	case reflect.String:
		return spec.String
	case reflect.Slice, reflect.Array:
		return spec.List(modelType(rt.Elem()))
	case reflect.Map:
		if rt.Key().Kind() != reflect.String {
			panic("c18: family map without string keys")
		}
		return spec.Map(modelType(rt.Elem()))
	case reflect.Struct:
		switch rt {
		case bigIntT, bigFloatT:
			return spec.Number
		case ctyValueT:
			return spec.Dynamic
		}
		var as []spec.Attr
		for i := 0; i < rt.NumField(); i++ {
			f := rt.Field(i)
			if tag := f.Tag.Get("cty"); tag != "" {
				as = append(as, spec.Attr{Name: tag, T: modelType(f.Type)})
			}
		}
		return spec.Object(as...)
	}
	panic("c18: no model type for " + rt.String())
}

// taggedFields returns tag -> field index for a family struct.
func taggedFields(rt reflect.Type) map[string]int {
	m := map[string]int{}
	for i := 0; i < rt.NumField(); i++ {
		if tag := rt.Field(i).Tag.Get("cty"); tag != "" {
			m[tag] = i
		}
	}
	return m
}

func isPlainStruct(rt reflect.Type) bool {
	return rt.Kind() == reflect.Struct && rt != bigIntT && rt != bigFloatT && rt != ctyValueT
}

func isIntKind(k reflect.Kind) bool {
	switch k {
	case reflect.Int, reflect.Int8, reflect.Int16, reflect.Int32, reflect.Int64:
		return true
	}
	return false
}

func isUintKind(k reflect.Kind) bool {
	switch k {
	case reflect.Uint, reflect.Uint8, reflect.Uint16, reflect.Uint32, reflect.Uint64:
		return true
	}
	return false
}

func isFloatKind(k reflect.Kind) bool { return k == reflect.Float32 || k == reflect.Float64 }
