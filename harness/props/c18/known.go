package c18

import (
	"encoding/json"
	"regexp"
	"strings"

	"verif/harness/facet"
	"verif/harness/spec"
)

// Predicates of the known findings of C18. Each recognises one root cause.
//
// Reason tags come from the reference decoder (numref.go / decodemodel.go):
// a "must-fail" verdict lists every reason an error is required. A violation
// of kind "accepted" (decode succeeded where an error is required) is
// attributed to a finding only when *every* listed reason is one of the
// catalogued root causes and at least one is the predicate's own; any other
// reason in the list means the decode should have failed for a cause no
// finding explains, and the violation stands.

var (
	reF32Overflow   = regexp.MustCompile(`^(num:)?float32:overflow$`)
	reUintFracShort = regexp.MustCompile(`^(num:)?uint(8|16|32|64)?:fraction:short$`)
)

func catalogued(r string) bool { return reF32Overflow.MatchString(r) || reUintFracShort.MatchString(r) }

func acceptedBecause(reasons string, own *regexp.Regexp) bool {
	if reasons == "" {
		return false
	}
	mine := false
	for _, r := range strings.Split(reasons, ",") {
		if !catalogued(r) {
			return false
		}
		if own.MatchString(r) {
			mine = true
		}
	}
	return mine
}

func numericFacet(name string) bool { return strings.HasPrefix(name, "numeric/") }
func decodeFacet(name string) bool  { return name == "errors/unknown-null-shape" || name == "nopanic" }

// cataloguedNumeric: the failure of a numeric facet has one of the catalogued
// root causes (used to pick which failure of a multi-target case to report).
func cataloguedNumeric(f *facet.Failure) bool {
	return predFloat32Overflow("numeric/random", nil, f) || predUintFraction("numeric/random", nil, f)
}

// C18-float32-overflow: a finite number at or beyond MaxFloat32 + ulp/2
// decoded into a float32 target stores +-Inf and returns no error
// (fromCtyNumberFloat checks only the float64 range, then narrows).
func predFloat32Overflow(name string, raw json.RawMessage, f *facet.Failure) bool {
	switch {
	case numericFacet(name):
		if f.Data["target"] != "float32" || (f.Data["stored"] != "+Inf" && f.Data["stored"] != "-Inf") {
			return false
		}
		if f.Kind == "stored-wrong" && f.Data["reason"] == "float32:above-max-rounds-to-max" {
			// MaxFloat32 < |x| < MaxFloat32+ulp/2: refusing or storing +-MaxFloat32 is
			// accepted, but the float64 intermediate can round such an x up to the tie,
			// and the unchecked narrowing then yields +-Inf
			return true
		}
		return f.Kind == "accepted-unrepresentable" && reF32Overflow.MatchString(f.Data["reason"])
	case decodeFacet(name):
		return f.Kind == "accepted" && acceptedBecause(f.Data["reasons"], reF32Overflow)
	}
	return false
}

// C18-uint-fraction: a non-integral number >= 1 whose mantissa fits 64 bits
// decoded into an unsigned integer target is truncated silently
// (big.Float.Uint64 of the Go 1.23 toolchain reports Exact for it and
// fromCtyNumberUInt relies on that alone).
func predUintFraction(name string, raw json.RawMessage, f *facet.Failure) bool {
	switch {
	case numericFacet(name):
		return f.Kind == "accepted-unrepresentable" && strings.HasPrefix(f.Data["target"], "uint") && reUintFracShort.MatchString(f.Data["reason"])
	case decodeFacet(name):
		return f.Kind == "accepted" && acceptedBecause(f.Data["reasons"], reUintFracShort)
	}
	return false
}

// C18-null-into-ptr-array: a null list decoded into a pointer to an array is
// refused ("null value is not allowed") although the pointer can represent
// it; so a nil *[N]T does not survive the round trip. (*[2]bool is the only
// pointer-to-array position of the family.)
func predNullIntoPtrArray(name string, raw json.RawMessage, f *facet.Failure) bool {
	switch {
	case name == "roundtrip/PtrArray2Bool":
		var in RT
		if json.Unmarshal(raw, &in) != nil {
			return false
		}
		return f.Kind == "fromcty-error" && in.G.Nil && strings.Contains(f.Msg, "null value is not allowed")
	case decodeFacet(name):
		var in DecCase
		if json.Unmarshal(raw, &in) != nil {
			return false
		}
		return f.Kind == "refused" && in.Target == "PtrArray2Bool" && in.V.St == spec.Null && in.V.T.K == spec.KList &&
			strings.Contains(f.Msg, "null value is not allowed")
	}
	return false
}

// C18-tuple-into-big-panic: a tuple decoded into big.Int / big.Float (struct
// kinds with unexported fields) panics inside reflect instead of returning
// "number required".
func predTupleIntoBigPanic(name string, raw json.RawMessage, f *facet.Failure) bool {
	if !decodeFacet(name) || f.Kind != "panic" {
		return false
	}
	if !strings.Contains(f.Data["panic"], "using value obtained using unexported field") {
		return false
	}
	for _, r := range strings.Split(f.Data["reasons"], ",") {
		if r == "shape:tuple-into-big" {
			return true
		}
	}
	return false
}

func init() {
	facet.RegisterKnown("c18Float32Overflow", predFloat32Overflow)
	facet.RegisterKnown("c18UintFraction", predUintFraction)
	facet.RegisterKnown("c18NullIntoPtrArray", predNullIntoPtrArray)
	facet.RegisterKnown("c18TupleIntoBigPanic", predTupleIntoBigPanic)
}
