// Package c18: Go-value bridging (package gocty) is exact or refuses.
//
// The Go types of the family are declared here (gocty works by reflection over
// real Go types, so they must exist at compile time). A facet input never
// holds a Go value: it holds the *name* of a family type plus a tagged tree
// (GV, gv.go) from which the Go value is rebuilt by reflection inside Check.
package c18

import (
	"math/big"
	"reflect"
	"sort"

	"github.com/zclconf/go-cty/cty"
)

// ---- named types (gocty works on reflect.Kind, so aliases must behave like the underlying type)

type AliasInt8 int8
type AliasUint16 uint16
type AliasFloat32 float32
type AliasString string

// ---- struct types. Every tagged field is public (documented precondition);
// tag names are NFC. Declared field order matters for tuple decoding.

// StructFlat is the documentation's example shape.
type StructFlat struct {
	Name  string  `cty:"name"`
	Age   int     `cty:"age"`
	Ok    bool    `cty:"ok"`
	Ratio float64 `cty:"ratio"`
}

// StructCase has attribute names that differ only by case, and a non-ASCII (NFC) one.
type StructCase struct {
	A string `cty:"name"`
	B int16  `cty:"Name"`
	C bool   `cty:"NAME"`
	D uint8  `cty:"é"`
}

// StructPtrs has only nil-able fields.
type StructPtrs struct {
	P *int32         `cty:"p"`
	S *string        `cty:"s"`
	L []string       `cty:"l"`
	M map[string]int `cty:"m"`
	Q *StructFlat    `cty:"q"`
}

// StructNested nests structs three ways and carries an untagged field (which
// gocty must ignore for objects; generated values keep it zero).
type StructNested struct {
	Inner StructFlat            `cty:"inner"`
	List  []StructFlat          `cty:"list"`
	Map   map[string]StructPtrs `cty:"map"`
	Note  int
	U     uint32 `cty:"u"`
}

// StructDyn embeds a dynamically-typed value.
type StructDyn struct {
	Name  string    `cty:"name"`
	Extra cty.Value `cty:"extra"`
}

// StructBig holds the types ImpliedType does not cover (type given explicitly).
type StructBig struct {
	I big.Int    `cty:"i"`
	F *big.Float `cty:"f"`
	A [2]int8    `cty:"a"`
}

// StructWidths has one field per numeric width.
type StructWidths struct {
	I8  int8    `cty:"i8"`
	I16 int16   `cty:"i16"`
	I32 int32   `cty:"i32"`
	I64 int64   `cty:"i64"`
	U8  uint8   `cty:"u8"`
	U16 uint16  `cty:"u16"`
	U32 uint32  `cty:"u32"`
	U64 uint64  `cty:"u64"`
	F32 float32 `cty:"f32"`
	F64 float64 `cty:"f64"`
}

// Two DIFFERENT struct types that share their name (and so their
// reflect.Type.String(), "c18.Rec") but not their layout: declared in function
// scope. Anything the library remembers about a Go type must be remembered per
// type identity, not per type name.
func localRecA() any {
	type Rec struct {
		Name string `cty:"name"`
		N    *int   `cty:"n"`
	}
	return Rec{}
}

func localRecB() any {
	type Rec struct {
		N    int8   `cty:"n"`
		Skip int
		Ok   bool   `cty:"ok"`
		Name string `cty:"label"`
	}
	return Rec{}
}

var (
	bigIntT   = reflect.TypeOf(big.Int{})
	bigFloatT = reflect.TypeOf(big.Float{})
	ctyValueT = reflect.TypeOf(cty.Value{})
)

// family maps the facet-safe name of each family type to its reflect.Type.
// Names contain only [A-Za-z0-9] so that file stems derived from facet names
// stay distinct.
var family, familyNames = buildFamily()

func buildFamily() (map[string]reflect.Type, []string) {
	family := map[string]reflect.Type{}
	var familyNames []string
	reg := func(name string, zero any) {
		if _, dup := family[name]; dup {
			panic("duplicate family type " + name)
		}
		family[name] = reflect.TypeOf(zero)
	}
	// scalars: every integer width, both float widths, string, bool
	reg("Int", int(0))
	reg("Int8", int8(0))
	reg("Int16", int16(0))
	reg("Int32", int32(0))
	reg("Int64", int64(0))
	reg("Uint", uint(0))
	reg("Uint8", uint8(0))
	reg("Uint16", uint16(0))
	reg("Uint32", uint32(0))
	reg("Uint64", uint64(0))
	reg("Float32", float32(0))
	reg("Float64", float64(0))
	reg("String", "")
	reg("Bool", false)
	// pointers to each
	reg("PtrInt", (*int)(nil))
	reg("PtrInt8", (*int8)(nil))
	reg("PtrInt16", (*int16)(nil))
	reg("PtrInt32", (*int32)(nil))
	reg("PtrInt64", (*int64)(nil))
	reg("PtrUint", (*uint)(nil))
	reg("PtrUint8", (*uint8)(nil))
	reg("PtrUint16", (*uint16)(nil))
	reg("PtrUint32", (*uint32)(nil))
	reg("PtrUint64", (*uint64)(nil))
	reg("PtrFloat32", (*float32)(nil))
	reg("PtrFloat64", (*float64)(nil))
	reg("PtrString", (*string)(nil))
	reg("PtrBool", (*bool)(nil))
	// named types
	reg("AliasInt8", AliasInt8(0))
	reg("AliasUint16", AliasUint16(0))
	reg("AliasFloat32", AliasFloat32(0))
	reg("AliasString", AliasString(""))
	// big numbers (type given explicitly: cty.Number)
	reg("BigInt", big.Int{})
	reg("BigFloat", big.Float{})
	reg("PtrBigInt", (*big.Int)(nil))
	reg("PtrBigFloat", (*big.Float)(nil))
	// slices
	reg("SliceInt", []int(nil))
	reg("SliceUint8", []uint8(nil))
	reg("SliceFloat32", []float32(nil))
	reg("SliceString", []string(nil))
	reg("SliceBool", []bool(nil))
	reg("SlicePtrInt64", []*int64(nil))
	reg("SliceSliceString", [][]string(nil))
	reg("SliceMapUint16", []map[string]uint16(nil))
	reg("SliceBigInt", []*big.Int(nil))
	// arrays (type given explicitly: lists)
	reg("Array3Int16", [3]int16{})
	reg("Array0String", [0]string{})
	reg("Array2SliceInt", [2][]int{})
	reg("Array2Array2Uint8", [2][2]uint8{})
	reg("PtrArray2Bool", (*[2]bool)(nil))
	reg("SliceArray2Float64", [][2]float64(nil))
	// maps
	reg("MapInt64", map[string]int64(nil))
	reg("MapString", map[string]string(nil))
	reg("MapPtrString", map[string]*string(nil))
	reg("MapSliceInt", map[string][]int(nil))
	reg("MapMapBool", map[string]map[string]bool(nil))
	reg("MapStructFlat", map[string]StructFlat(nil))
	// structs
	reg("StructFlat", StructFlat{})
	reg("StructCase", StructCase{})
	reg("StructPtrs", StructPtrs{})
	reg("StructNested", StructNested{})
	reg("StructDyn", StructDyn{})
	reg("StructBig", StructBig{})
	reg("StructWidths", StructWidths{})
	reg("PtrStructFlat", (*StructFlat)(nil))
	reg("PtrStructNested", (*StructNested)(nil))
	reg("SliceStructDyn", []StructDyn(nil))
	reg("SlicePtrStructFlat", []*StructFlat(nil))
	reg("LocalRecA", localRecA())
	reg("LocalRecB", localRecB())
	// embedded dynamic values
	reg("Dyn", cty.Value{})
	reg("SliceDyn", []cty.Value(nil))
	reg("MapDyn", map[string]cty.Value(nil))

	for n := range family {
		familyNames = append(familyNames, n)
	}
	sort.Strings(familyNames)
	return family, familyNames
}

// numericTargets are the family types that accept a cty number directly.
var numericTargets = []string{
	"Int", "Int8", "Int16", "Int32", "Int64", "Uint", "Uint8", "Uint16", "Uint32", "Uint64", "Float32", "Float64",
	"PtrInt", "PtrInt8", "PtrInt16", "PtrInt32", "PtrInt64", "PtrUint", "PtrUint8", "PtrUint16", "PtrUint32", "PtrUint64", "PtrFloat32", "PtrFloat64",
	"AliasInt8", "AliasUint16", "AliasFloat32", "BigInt", "BigFloat", "PtrBigInt", "PtrBigFloat",
}

// needsExplicitType reports whether the type contains an array or a big
// number, which gocty.ImpliedType does not map (docs/gocty.md lists the
// mapping; arrays and big numbers are not in it).
func needsExplicitType(rt reflect.Type) bool {
	switch rt.Kind() {
	case reflect.Ptr, reflect.Slice, reflect.Map:
		return needsExplicitType(rt.Elem())
	case reflect.Array:
		return true
	case reflect.Struct:
		if rt == bigIntT || rt == bigFloatT {
			return true
		}
		if rt == ctyValueT {
			return false
		}
		for i := 0; i < rt.NumField(); i++ {
			if rt.Field(i).Tag.Get("cty") != "" && needsExplicitType(rt.Field(i).Type) {
				return true
			}
		}
	}
	return false
}

// nesting is the number of container levels (pointer, slice, array, map,
// struct) above the deepest leaf.
func nesting(rt reflect.Type) int {
	switch rt.Kind() {
	case reflect.Ptr, reflect.Slice, reflect.Map, reflect.Array:
		return 1 + nesting(rt.Elem())
	case reflect.Struct:
		if rt == bigIntT || rt == bigFloatT || rt == ctyValueT {
			return 0
		}
		d := 0
		for i := 0; i < rt.NumField(); i++ {
			if x := nesting(rt.Field(i).Type); x > d {
				d = x
			}
		}
		return 1 + d
	}
	return 0
}

// hasDyn reports whether a cty.Value occurs in the type.
func hasDyn(rt reflect.Type) bool {
	switch rt.Kind() {
	case reflect.Ptr, reflect.Slice, reflect.Map, reflect.Array:
		return hasDyn(rt.Elem())
	case reflect.Struct:
		if rt == ctyValueT {
			return true
		}
		if rt == bigIntT || rt == bigFloatT {
			return false
		}
		for i := 0; i < rt.NumField(); i++ {
			if hasDyn(rt.Field(i).Type) {
				return true
			}
		}
	}
	return false
}
