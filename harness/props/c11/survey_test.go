package c11

import (
	"encoding/json"
	"fmt"
	"os"
	"regexp"
	"sort"
	"testing"

	"pgregory.net/rapid"

	"verif/harness/facet"
	"verif/harness/stdreg"
)

var digits = regexp.MustCompile(`[0-9]+`)

// TestSurvey (development aid, VERIF_SURVEY=1) runs every function through the
// three generators without stopping at failures and prints the failures
// grouped by function, kind and normalised panic text.
func TestSurvey(t *testing.T) {
	if os.Getenv("VERIF_SURVEY") == "" {
		t.Skip("set VERIF_SURVEY=1")
	}
	type group struct {
		n       int
		example string
		known   string
	}
	groups := map[string]*group{}
	for _, mode := range []string{"total", "accepts", "vs"} {
		for _, e := range stdreg.All() {
			es := []stdreg.Entry{e}
			var g func(*rapid.T) Case
			switch mode {
			case "total":
				g = genTotal(es)
			case "accepts":
				g = genAccepts(es)
			default:
				g = genVs(es)
			}
			rapid.Check(t, func(rt *rapid.T) {
				in := g(rt)
				c := &facet.Ctx{}
				var err error
				func() {
					defer func() {
						if r := recover(); r != nil {
							err = facet.Failf("harness-panic", "%v", r)
						}
					}()
					err = check(c, in, mode)
				}()
				if err == nil {
					return
				}
				f := facet.AsFailure(err)
				raw, _ := json.Marshal(in)
				key := fmt.Sprintf("%-22s %-26s %s", in.Fn, f.Kind, digits.ReplaceAllString(short(f.Data["panic"]), "N"))
				if f.Data["panic"] == "" {
					m := f.Msg
					if i := len(in.Fn); len(m) > i {
						// drop the argument rendering
						if j := indexAfterArgs(m); j > 0 {
							m = m[j:]
						}
					}
					key = fmt.Sprintf("%-22s %-26s %s", in.Fn, f.Kind, digits.ReplaceAllString(short(m), "N"))
				}
				if len(key) > 260 {
					key = key[:260]
				}
				gr := groups[key]
				if gr == nil {
					gr = &group{example: string(raw)}
					if len(f.Msg) < 600 {
						gr.example = f.Msg
					}
					gr.known = matchKnownForSurvey(mode, raw, f)
					groups[key] = gr
				}
				gr.n++
			})
		}
	}
	keys := make([]string, 0, len(groups))
	for k := range groups {
		keys = append(keys, k)
	}
	sort.Strings(keys)
	for _, k := range keys {
		fmt.Printf("%5d  [%s] %s\n         e.g. %s\n", groups[k].n, groups[k].known, k, groups[k].example)
	}
	fmt.Printf("groups: %d\n", len(groups))
}

func indexAfterArgs(m string) int {
	for _, marker := range []string{"): "} {
		for i := len(m) - len(marker); i >= 0; i-- {
			if m[i:i+len(marker)] == marker {
				return i + len(marker)
			}
		}
	}
	return -1
}
