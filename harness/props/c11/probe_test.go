package c11

import (
	"fmt"
	"os"
	"testing"

	"github.com/zclconf/go-cty/cty"
	"github.com/zclconf/go-cty/cty/function"
	"github.com/zclconf/go-cty/cty/function/stdlib"
)

func probe(name string, fn function.Function, args ...cty.Value) {
	defer func() {
		if r := recover(); r != nil {
			fmt.Printf("%s: GO PANIC %v\n", name, r)
		}
	}()
	v, err := fn.Call(args)
	fmt.Printf("%s: %#v  err=%v\n", name, v, err)
}

func TestProbe(t *testing.T) {
	if os.Getenv("VERIF_PROBE") == "" {
		t.Skip()
	}
	st := cty.SetVal([]cty.Value{cty.ObjectVal(map[string]cty.Value{"a": cty.StringVal("x")}), cty.ObjectVal(map[string]cty.Value{"a": cty.StringVal("y")})})
	probe("sethaselement partial", stdlib.SetHasElementFunc, st, cty.ObjectVal(map[string]cty.Value{"a": cty.UnknownVal(cty.String)}))
	probe("contains partial", stdlib.ContainsFunc, st, cty.ObjectVal(map[string]cty.Value{"a": cty.UnknownVal(cty.String)}))
	st2 := cty.SetVal([]cty.Value{cty.TupleVal([]cty.Value{cty.StringVal("x")}), cty.TupleVal([]cty.Value{cty.StringVal("y")})})
	probe("sethaselement partial tuple", stdlib.SetHasElementFunc, st2, cty.TupleVal([]cty.Value{cty.UnknownVal(cty.String)}))
}
