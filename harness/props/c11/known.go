package c11

import (
	"encoding/json"
	"math"
	"math/big"
	"regexp"
	"strings"

	"github.com/zclconf/go-cty/cty"

	"verif/harness/facet"
	"verif/harness/spec"
	"verif/harness/stdreg"
)

// Known-finding predicates of C11. Each recognises one root cause, keyed on
// the function name, the failure kind, the text of the internal panic and the
// shape of the arguments, so that any other totality or type-soundness
// violation of the same function still fails the check.

// knownPreds lists the predicates by name (also used by the development
// survey to show which failure groups are already explained).
var knownPreds = map[string]facet.KnownPredicate{}

// A predicate sees the decoded input with its argument values built (so that
// refinements that collapse an unknown into a null or a known value are seen
// as what they are), marks removed.
type builtCase struct {
	Fn   string
	Args []spec.V
	Vals []cty.Value
}

func regKnown(name string, p func(in builtCase, f *facet.Failure) bool) {
	kp := func(_ string, raw json.RawMessage, f *facet.Failure) bool {
		var in Case
		if json.Unmarshal(raw, &in) != nil || f == nil {
			return false
		}
		e, ok := stdreg.ByName(in.Fn)
		if !ok {
			return false
		}
		vals, err := e.Build(in.Args)
		if err != nil {
			return false
		}
		for i := range vals {
			vals[i], _ = vals[i].UnmarkDeep()
		}
		return p(builtCase{Fn: in.Fn, Args: in.Args, Vals: vals}, f)
	}
	knownPreds[name] = kp
	facet.RegisterKnown(name, kp)
}

func matchKnownForSurvey(mode string, raw json.RawMessage, f *facet.Failure) string {
	for name, p := range knownPreds {
		if p("total/x", raw, f) {
			return name
		}
	}
	return ""
}

func anyArg(in builtCase, pred func(v cty.Value) bool) bool {
	for _, a := range in.Vals {
		if pred(a) {
			return true
		}
	}
	return false
}

func isDyn(v cty.Value) bool { return v.Type() == cty.DynamicPseudoType }

func isPanicErr(f *facet.Failure) bool  { return f.Kind == "panic-error" }
func panicText(f *facet.Failure) string { return f.Data["panic"] }

func knownNum(v cty.Value) (*big.Float, bool) {
	if v.Type() != cty.Number || !v.IsKnown() || v.IsNull() {
		return nil, false
	}
	return v.AsBigFloat(), true
}

func f64(x *big.Float) float64 { f, _ := x.Float64(); return f }

var setOps = map[string]bool{"setunion": true, "setintersection": true, "setsubtract": true, "setsymmetricdifference": true}

var hugeArgIndex = regexp.MustCompile(`\[[0-9]{19,}\]`)

func init() {
	// merge: a null object-typed argument contributes no attributes to the
	// result, but (a) when all argument types are equal the Type callback
	// answers that object type and Impl's empty object then fails the
	// framework's conformance assertion, and (b) the type-only prediction
	// (unknown arguments) counts the attributes of every object argument.
	regKnown("c11MergeNullObject", func(in builtCase, f *facet.Failure) bool {
		if in.Fn != "merge" {
			return false
		}
		if !(f.Kind == "static-prediction-unsound" || (isPanicErr(f) && strings.Contains(panicText(f), "does not conform to expected return type"))) {
			return false
		}
		return anyArg(in, func(v cty.Value) bool { return v.IsNull() && v.Type().IsObjectType() })
	})

	// merge: a dynamically-typed (null) argument makes the Type callback answer
	// "dynamic" at once, before later arguments are validated; Impl then
	// iterates an argument that is not a map or object.
	regKnown("c11MergeDynamicSkipsValidation", func(in builtCase, f *facet.Failure) bool {
		if in.Fn != "merge" || !isPanicErr(f) {
			return false
		}
		dyn := anyArg(in, isDyn)
		bad := anyArg(in, func(v cty.Value) bool { return !isDyn(v) && !v.Type().IsMapType() && !v.Type().IsObjectType() })
		return dyn && bad
	})

	// set operations: the shared Type callback asks a dynamically-typed
	// argument for its element type.
	regKnown("c11SetOpDynamicArg", func(in builtCase, f *facet.Failure) bool {
		return setOps[in.Fn] && isPanicErr(f) && panicText(f) == "not a collection type" &&
			anyArg(in, isDyn)
	})

	// set operations: with a known set whose element type is the dynamic
	// placeholder the unified element type is dynamic, conversion to
	// set(dynamic) is a no-op, and sets with different rules are combined.
	regKnown("c11SetOpDynamicElems", func(in builtCase, f *facet.Failure) bool {
		return setOps[in.Fn] && isPanicErr(f) && strings.HasPrefix(panicText(f), "incompatible set rules") &&
			anyArg(in, func(v cty.Value) bool { return v.Type().IsSetType() && v.Type().ElementType() == cty.DynamicPseudoType })
	})

	// concat: same shape for lists: list(dynamic) argument, unified type
	// list(dynamic), members of different types collected into one list.
	regKnown("c11ConcatDynamicElems", func(in builtCase, f *facet.Failure) bool {
		return in.Fn == "concat" && isPanicErr(f) && strings.HasPrefix(panicText(f), "inconsistent list element types") &&
			anyArg(in, func(v cty.Value) bool {
				return v.Type().IsListType() && v.Type().ElementType() == cty.DynamicPseudoType
			})
	})

	// setproduct: a tuple argument with a dynamically-typed member unifies to
	// the dynamic placeholder, per-element conversion is then a no-op and
	// tuples of different types are collected into one list / set.
	regKnown("c11SetProductTupleDynamicMember", func(in builtCase, f *facet.Failure) bool {
		if in.Fn != "setproduct" || !isPanicErr(f) || !(strings.HasPrefix(panicText(f), "inconsistent list element types") || strings.HasPrefix(panicText(f), "inconsistent set element types")) {
			return false
		}
		return anyArg(in, func(v cty.Value) bool {
			if !v.Type().IsTupleType() {
				return false
			}
			for _, et := range v.Type().TupleElementTypes() {
				if et == cty.DynamicPseudoType {
					return true
				}
			}
			return false
		})
	})

	// slice: an unknown list whose length bounds coincide has a known Length(),
	// and the index check then calls LengthInt on the unknown list.
	regKnown("c11SliceUnknownExactLength", func(in builtCase, f *facet.Failure) bool {
		if in.Fn != "slice" || !isPanicErr(f) || panicText(f) != "value is not known" || len(in.Args) == 0 {
			return false
		}
		a := in.Vals[0]
		return !a.IsKnown() && a.Type().IsListType() && a.Range().LengthLowerBound() == a.Range().LengthUpperBound()
	})

	// MakeToFunc(list(string)): converting a set that holds an unknown member
	// (unknown length) to a list answers an unknown list typed with the
	// source's element type instead of the target's (cty/convert).
	regKnown("c11ToListSetUnknownMember", func(in builtCase, f *facet.Failure) bool {
		if !strings.HasPrefix(in.Fn, "to/list") || !isPanicErr(f) || !strings.Contains(panicText(f), "does not conform to expected return type") || len(in.Args) != 1 {
			return false
		}
		a := in.Vals[0]
		return a.IsKnown() && !a.IsNull() && a.Type().IsSetType() && !a.IsWhollyKnown()
	})

	// zipmap with a list of values: a null key is only rejected on the tuple path.
	regKnown("c11ZipmapNullKey", func(in builtCase, f *facet.Failure) bool {
		if in.Fn != "zipmap" || !isPanicErr(f) || panicText(f) != "value is null" || len(in.Args) == 0 {
			return false
		}
		a := in.Vals[0]
		if !a.IsKnown() || a.IsNull() || !a.Type().IsListType() {
			return false
		}
		for it := a.ElementIterator(); it.Next(); {
			if _, e := it.Element(); e.IsNull() {
				return true
			}
		}
		return false
	})

	// bytesslice: offset+length overflows int.
	regKnown("c11BytesSliceOverflow", func(in builtCase, f *facet.Failure) bool {
		if in.Fn != "bytesslice" || !isPanicErr(f) || !strings.HasPrefix(panicText(f), "runtime error: slice bounds out of range") || len(in.Args) != 3 {
			return false
		}
		off, ok1 := knownNum(in.Vals[1])
		ln, ok2 := knownNum(in.Vals[2])
		if !ok1 || !ok2 || off.IsInf() || ln.IsInf() {
			return false
		}
		sum := new(big.Float).SetPrec(200).Add(off, ln)
		return sum.Cmp(new(big.Float).SetInt64(math.MaxInt64)) > 0
	})

	// indent: negative count reaches strings.Repeat.
	regKnown("c11IndentNegative", func(in builtCase, f *facet.Failure) bool {
		if in.Fn != "indent" || !isPanicErr(f) || panicText(f) != "strings: negative Repeat count" || len(in.Args) == 0 {
			return false
		}
		n, ok := knownNum(in.Vals[0])
		return ok && n.Sign() < 0
	})

	// int: an infinity has no big.Int (nil) and is passed to SetInt.
	regKnown("c11IntInfinity", func(in builtCase, f *facet.Failure) bool {
		if in.Fn != "int" || !isPanicErr(f) || !strings.Contains(panicText(f), "nil pointer dereference") || len(in.Args) != 1 {
			return false
		}
		n, ok := knownNum(in.Vals[0])
		return ok && n.IsInf()
	})

	// log / pow: a float64 NaN result is handed to NumberFloatVal.
	regKnown("c11LogNaN", func(in builtCase, f *facet.Failure) bool {
		if in.Fn != "log" || !isPanicErr(f) || !strings.Contains(panicText(f), "NaN") || len(in.Args) != 2 {
			return false
		}
		a, ok1 := knownNum(in.Vals[0])
		b, ok2 := knownNum(in.Vals[1])
		return ok1 && ok2 && math.IsNaN(math.Log(f64(a))/math.Log(f64(b)))
	})
	regKnown("c11PowNaN", func(in builtCase, f *facet.Failure) bool {
		if in.Fn != "pow" || !isPanicErr(f) || !strings.Contains(panicText(f), "NaN") || len(in.Args) != 2 {
			return false
		}
		a, ok1 := knownNum(in.Vals[0])
		b, ok2 := knownNum(in.Vals[1])
		return ok1 && ok2 && math.IsNaN(math.Pow(f64(a), f64(b)))
	})

	// range: start and step are infinities of opposite signs; start+step is NaN.
	regKnown("c11RangeOppositeInfinities", func(in builtCase, f *facet.Failure) bool {
		if in.Fn != "range" || !isPanicErr(f) || !strings.Contains(panicText(f), "infinities with opposite signs") || len(in.Args) != 3 {
			return false
		}
		a, ok1 := knownNum(in.Vals[0])
		s, ok2 := knownNum(in.Vals[2])
		return ok1 && ok2 && a.IsInf() && s.IsInf() && a.Sign() != s.Sign()
	})

	// format / formatlist: an explicit argument index of 19+ digits overflows
	// int to a negative number, which is used as a slice index.
	regKnown("c11FormatArgIndexOverflow", func(in builtCase, f *facet.Failure) bool {
		if (in.Fn != "format" && in.Fn != "formatlist") || !isPanicErr(f) || !strings.HasPrefix(panicText(f), "runtime error: index out of range [-") || len(in.Args) == 0 {
			return false
		}
		a := in.Vals[0]
		return a.Type() == cty.String && a.IsKnown() && !a.IsNull() && hugeArgIndex.MatchString(a.AsString())
	})
}
