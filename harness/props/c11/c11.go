// Package c11: standard functions are total and their predicted types are sound.
//
// Facets (DESIGN.md 5 C11, Appendix D):
//
//	total/<family>                   in-domain arguments + hostile injections; no Go panic out of Call /
//	                                 ReturnType / ReturnTypeForValues, no function.PanicError, success =>
//	                                 result type conforms to both predictions and is well-formed
//	types/static-accepts/<group>     wholly-known (perturbed) arguments: evaluation succeeded => the
//	                                 type-only prediction did not reject
//	types/static-vs-dynamic/<group>  in-domain arguments weakened to unknown / dynamic: success => the
//	                                 result type conforms to the type-only and the value prediction
//
// Functions are grouped by source file; inside a facet the function is a
// uniform rapid draw, so every function gets the same budget, and the
// per-function counts appear as labels "fn=<name>" (all cases) and
// "nt=<name>" (non-trivial cases).
package c11

import (
	"errors"
	"fmt"
	"strings"

	"github.com/zclconf/go-cty/cty"
	"github.com/zclconf/go-cty/cty/function"
	"pgregory.net/rapid"

	"verif/harness/facet"
	"verif/harness/gen"
	"verif/harness/spec"
	"verif/harness/stdreg"
	"verif/harness/wf"
)

// Case is the input of every C11 facet.
type Case struct {
	Fn   string   `json:"fn"`
	Args []spec.V `json:"args"`
	Inj  []string `json:"inj,omitempty"` // labels of the edits applied to the in-domain list (documentation only)
}

// reaches reports whether the protocol described in docs/functions.md lets
// the argument list through to the function's Type callback: right arity, no
// null where nulls are not allowed, no dynamically-typed argument where that is
// not allowed, every other argument type conforming to its parameter's
// constraint. Used only to classify cases, never as an oracle.
func reaches(fn function.Function, vals []cty.Value) bool {
	ps, vp := fn.Params(), fn.VarParam()
	if len(vals) < len(ps) || (vp == nil && len(vals) != len(ps)) {
		return false
	}
	for i, v := range vals {
		var p function.Parameter
		if i < len(ps) {
			p = ps[i]
		} else {
			p = *vp
		}
		if v.IsNull() && !p.AllowNull {
			return false
		}
		if v.Type() == cty.DynamicPseudoType {
			if !p.AllowDynamicType {
				return false
			}
			continue
		}
		if !spec.FromCty(v.Type()).Conforms(spec.FromCty(p.Type)) {
			return false
		}
	}
	return true
}

func short(s string) string {
	s = strings.ReplaceAll(s, "\n", " | ")
	if len(s) > 700 {
		s = s[:700] + "..."
	}
	return s
}

// conforms checks "type got conforms to type constraint want" with the
// harness's structural model and, independently, with the library's own
// TestConformance (they are required to agree by C07; a disagreement here is
// reported as such rather than hidden).
func conforms(got, want cty.Type) (bool, string) {
	m := spec.FromCty(got).Conforms(spec.FromCty(want))
	l := len(got.TestConformance(want)) == 0
	if m != l {
		return false, fmt.Sprintf("model conformance %t but TestConformance %t", m, l)
	}
	return m, ""
}

func allWhollyKnown(vals []cty.Value) bool {
	for _, v := range vals {
		if !v.IsWhollyKnown() {
			return false
		}
	}
	return true
}

// check is the oracle shared by all C11 facets. mode selects the
// non-triviality rule: "total" (>= 1 injection reached the callbacks),
// "accepts" (known arguments, call succeeded), "vs" (>= 1 unknown argument
// part, call succeeded).
func check(c *facet.Ctx, in Case, mode string) error {
	e, ok := stdreg.ByName(in.Fn)
	if !ok {
		return facet.Failf("harness", "no function %q in the registry", in.Fn)
	}
	vals, err := e.Build(in.Args)
	if err != nil {
		// inconsistent spec (e.g. a list whose members ended up with different types): not a library call
		c.Skip()
		return nil
	}
	c.Label("fn=" + in.Fn)
	for _, l := range in.Inj {
		c.Label("inj=" + l)
	}
	fail := func(kind, f string, a ...any) *facet.Failure {
		return facet.Failf(kind, "%s(%s): %s", in.Fn, short(stdreg.Describe(in.Args)), short(fmt.Sprintf(f, a...))).With("fn", in.Fn)
	}
	reached := reaches(e.Fn, vals)
	known := allWhollyKnown(vals)

	// ---- the three entry points must return, never panic, never report an internal panic
	o := stdreg.Call(e.Fn, vals)
	if o.Panicked {
		return fail("go-panic", "Go panic out of Call: %s", o.Panic).With("via", "Call").With("panic", short(o.Panic))
	}
	var pe function.PanicError
	if errors.As(o.Err, &pe) {
		return fail("panic-error", "Call returned an internal-panic error: %v", pe.Value).With("via", "Call").With("panic", short(fmt.Sprint(pe.Value)))
	}
	tv := stdreg.ReturnTypeForValues(e.Fn, vals)
	if tv.Panicked {
		return fail("go-panic", "Go panic out of ReturnTypeForValues: %s", tv.Panic).With("via", "ReturnTypeForValues").With("panic", short(tv.Panic))
	}
	if errors.As(tv.Err, &pe) {
		return fail("panic-error", "ReturnTypeForValues returned an internal-panic error: %v", pe.Value).With("via", "ReturnTypeForValues").With("panic", short(fmt.Sprint(pe.Value)))
	}
	tt := stdreg.ReturnType(e.Fn, vals)
	if tt.Panicked {
		return fail("go-panic", "Go panic out of ReturnType: %s", tt.Panic).With("via", "ReturnType").With("panic", short(tt.Panic))
	}
	if errors.As(tt.Err, &pe) {
		return fail("panic-error", "ReturnType returned an internal-panic error: %v", pe.Value).With("via", "ReturnType").With("panic", short(fmt.Sprint(pe.Value)))
	}

	// ---- classification
	switch mode {
	case "total":
		if len(in.Inj) > 0 && reached {
			c.NonTrivial()
			c.Label("nt=" + in.Fn)
		}
	case "accepts":
		if o.Err == nil && known {
			c.NonTrivial()
			c.Label("nt=" + in.Fn)
		}
	case "vs":
		if o.Err == nil && !known {
			c.NonTrivial()
			c.Label("nt=" + in.Fn)
		}
	}
	switch {
	case !reached:
		c.Label("out=stopped-by-protocol")
	case o.Err != nil:
		c.Label("out=error")
	case !o.Val.IsKnown():
		c.Label("out=unknown")
	default:
		c.Label("out=value")
	}

	if o.Err != nil {
		return nil
	}

	// ---- success: the result is a value, well-formed, typed as predicted
	if o.Val == cty.NilVal {
		return fail("nil-result", "Call returned no error and cty.NilVal")
	}
	if f := wf.Check(o.Val); f != nil {
		return fail(f.Kind, "result %#v is not well-formed: %s", o.Val, f.Msg).With("wf", f.Kind)
	}
	rt := o.Val.Type()
	if tv.Err != nil {
		return fail("value-prediction-rejects", "Call succeeded with %#v but ReturnTypeForValues on the same arguments failed: %v", o.Val, tv.Err)
	}
	if ok, note := conforms(rt, tv.Ty); !ok {
		return fail("value-prediction-unsound", "result type %#v does not conform to ReturnTypeForValues %#v %s", rt, tv.Ty, note)
	}
	if tt.Err != nil {
		if known {
			return fail("static-rejects", "evaluation on wholly-known arguments succeeded (%#v) but ReturnType on the argument types failed: %v", o.Val, tt.Err)
		}
		c.Label("static-rejects-with-unknown-args")
		return nil
	}
	if ok, note := conforms(rt, tt.Ty); !ok {
		return fail("static-prediction-unsound", "result type %#v does not conform to ReturnType(argument types) = %#v %s", rt, tt.Ty, note)
	}
	return nil
}

// ---------------------------------------------------------------- generators

func genTotal(es []stdreg.Entry) func(t *rapid.T) Case {
	return func(t *rapid.T) Case {
		e := stdreg.Pick(t, es)
		args := e.Args(t)
		if rapid.IntRange(0, 19).Draw(t, "pristine") == 0 {
			return Case{Fn: e.Name, Args: args}
		}
		hostile, labels := stdreg.Inject(t, e, args, stdreg.InjectOpts{})
		return Case{Fn: e.Name, Args: hostile, Inj: labels}
	}
}

func genAccepts(es []stdreg.Entry) func(t *rapid.T) Case {
	return func(t *rapid.T) Case {
		e := stdreg.Pick(t, es)
		args := e.Args(t)
		if rapid.IntRange(0, 2).Draw(t, "pristine") > 0 {
			return Case{Fn: e.Name, Args: args}
		}
		hostile, labels := stdreg.Inject(t, e, args, stdreg.InjectOpts{KnownOnly: true, Min: 1, Max: 2})
		return Case{Fn: e.Name, Args: hostile, Inj: labels}
	}
}

func genVs(es []stdreg.Entry) func(t *rapid.T) Case {
	return func(t *rapid.T) Case {
		e := stdreg.Pick(t, es)
		args := e.Args(t)
		out := make([]spec.V, len(args))
		var labels []string
		for i, a := range args {
			if a.T.K == spec.KCapsule || rapid.IntRange(0, 2).Draw(t, "weakenarg") == 0 {
				out[i] = a
				continue
			}
			w, kinds := gen.Weaken(t, a, true)
			out[i] = w
			for _, k := range kinds {
				labels = append(labels, "weak-"+strings.SplitN(k, "-", 2)[0])
			}
		}
		return Case{Fn: e.Name, Args: out, Inj: dedup(labels)}
	}
}

func dedup(ss []string) []string {
	seen := map[string]bool{}
	var out []string
	for _, s := range ss {
		if !seen[s] {
			seen[s] = true
			out = append(out, s)
		}
	}
	return out
}

// ---------------------------------------------------------------- registration

func entriesOf(fams ...string) []stdreg.Entry {
	var out []stdreg.Entry
	for _, f := range fams {
		es := stdreg.Family(f)
		if len(es) == 0 {
			panic("c11: empty family " + f)
		}
		out = append(out, es...)
	}
	return out
}

func names(es []stdreg.Entry) string {
	ns := make([]string, len(es))
	for i, e := range es {
		ns[i] = e.Name
	}
	return strings.Join(ns, " ")
}

func init() {
	// total/<family>: one facet per source-file family
	for _, fam := range stdreg.Families() {
		es := stdreg.Family(fam)
		n := len(es)
		per := 5000
		if n <= 2 {
			per = 20000 // format / formatlist: the format mini-language deserves a bigger share
		}
		facet.Register(facet.F[Case]{
			Prop: "C11", Name: "total/" + fam,
			Rule: "function drawn uniformly from {" + names(es) + "}; in-domain wholly-known arguments from the registry generator, then 1-3 hostile edits " +
				"(null, dynamic null, typed unknown unrefined/refined, DynamicVal, marks, each at argument level and nested; negative/fractional/huge/infinite numbers; " +
				"empty/malformed strings incl. hostile format, regexp, timestamp, duration, JSON, CSV texts; empty collections; other types; argument count +-1; swapped arguments); " +
				"count-like arguments (indent) are bounded to 2^16, format widths/precisions to 4 digits; 1 case in 20 is left pristine. " +
				"Non-trivial: >= 1 edit and the argument list passes the declared parameter protocol (arity, null, dynamic, type conformance), i.e. reaches the function's own Type/Impl callbacks. " +
				"Labels fn=<name> / nt=<name> give per-function totals / non-trivial counts. Distinct = hash of the input JSON.",
			Quick: per * n, Thorough: per * n * 5 / 2, Shards: 4,
			Gen:   genTotal(es),
			Check: func(c *facet.Ctx, in Case) error { return check(c, in, "total") },
		})
	}

	groups := []struct {
		name string
		fams []string
	}{
		{"collection", []string{"collection"}},
		{"setseq-conversion", []string{"set-sequence", "conversion"}},
		{"number", []string{"number"}},
		{"general", []string{"general"}},
		{"string", []string{"string"}},
		{"format-encoding", []string{"format", "encoding"}},
	}
	for _, g := range groups {
		es := entriesOf(g.fams...)
		n := len(es)
		facet.Register(facet.F[Case]{
			Prop: "C11", Name: "types/static-accepts/" + g.name,
			Rule: "function drawn uniformly from {" + names(es) + "}; wholly-known unmarked arguments: the in-domain list, in 1 case of 3 with 1-2 known-preserving edits " +
				"(hostile numbers/strings, empties, nested nulls, other types, argument count/order). Non-trivial: every argument wholly known and Call succeeded " +
				"(then ReturnType on the argument types must not reject, and the result type must conform to both predictions). Distinct = hash of the input JSON.",
			Quick: 2000 * n, Thorough: 6000 * n, Shards: 4,
			Gen:   genAccepts(es),
			Check: func(c *facet.Ctx, in Case) error { return check(c, in, "accepts") },
		})
		facet.Register(facet.F[Case]{
			Prop: "C11", Name: "types/static-vs-dynamic/" + g.name,
			Rule: "function drawn uniformly from {" + names(es) + "}; in-domain arguments, each with probability 2/3 weakened (gen.Weaken: any sub-value replaced by a typed unknown, " +
				"unrefined or refined consistently with the replaced part, or by DynamicVal at argument level and in tuple/object members). Non-trivial: >= 1 unknown part and Call succeeded " +
				"(then the result type must conform to ReturnType(argument types) and to ReturnTypeForValues(arguments)). Distinct = hash of the input JSON.",
			Quick: 2000 * n, Thorough: 6000 * n, Shards: 4,
			Gen:   genVs(es),
			Check: func(c *facet.Ctx, in Case) error { return check(c, in, "vs") },
		})
	}
}
