package c11

import (
	"encoding/json"
	"fmt"
	"os"
	"path/filepath"
	"testing"

	"verif/harness/facet"
	"verif/harness/spec"
)

func num(n spec.Num) spec.V { return spec.KnownNum(n) }
func i64(i int64) spec.V    { return spec.KnownNum(spec.NInt(i)) }
func sv(s string) spec.V    { return spec.KnownStr(s) }
func lst(et spec.T, es ...spec.V) spec.V {
	return spec.V{T: spec.List(et), St: spec.Known, Elems: es}
}
func set(et spec.T, es ...spec.V) spec.V {
	return spec.V{T: spec.Set(et), St: spec.Known, Elems: es}
}

type witness struct {
	id, facet, pred, mode string
	in                    Case
}

func ip(i int) *int { return &i }

var witnesses = []witness{
	{"C11-merge-null-object", "total/collection", "c11MergeNullObject", "total",
		Case{Fn: "merge", Args: []spec.V{spec.NullOf(spec.Object(spec.Attr{Name: "a", T: spec.String}))}, Inj: []string{"null"}}},
	{"C11-merge-dynamic-skips-validation", "total/collection", "c11MergeDynamicSkipsValidation", "total",
		Case{Fn: "merge", Args: []spec.V{spec.NullOf(spec.Dynamic), lst(spec.Number, i64(1))}, Inj: []string{"dynnull", "wrongtype"}}},
	{"C11-setop-dynamic-arg", "total/set-sequence", "c11SetOpDynamicArg", "total",
		Case{Fn: "setunion", Args: []spec.V{set(spec.String, sv("a")), spec.DynamicVal()}, Inj: []string{"dynamic"}}},
	{"C11-setop-dynamic-elems", "total/set-sequence", "c11SetOpDynamicElems", "total",
		Case{Fn: "setunion", Args: []spec.V{set(spec.Dynamic, spec.DynamicVal()), set(spec.List(spec.String), lst(spec.String, sv("a")))}, Inj: []string{"dyn-members"}}},
	{"C11-concat-dynamic-elems", "total/set-sequence", "c11ConcatDynamicElems", "total",
		Case{Fn: "concat", Args: []spec.V{lst(spec.Dynamic, spec.DynamicVal()), lst(spec.Number, i64(1)), lst(spec.Bool, spec.KnownBool(true))}, Inj: []string{"dyn-members"}}},
	{"C11-setproduct-tuple-dynamic-member", "total/collection", "c11SetProductTupleDynamicMember", "total",
		Case{Fn: "setproduct", Args: []spec.V{spec.V{T: spec.Tuple(), St: spec.Known, Elems: []spec.V{i64(1), {T: spec.Object(), St: spec.Known}, spec.DynamicVal()}}.Retype(), lst(spec.Bool, spec.KnownBool(true))}, Inj: []string{"wrongtype"}}},
	{"C11-slice-unknown-exact-length", "total/collection", "c11SliceUnknownExactLength", "total",
		Case{Fn: "slice", Args: []spec.V{{T: spec.List(spec.String), St: spec.Unknown, Ref: &spec.Ref{MinLen: ip(1), MaxLen: ip(1)}}, i64(0), i64(1)}, Inj: []string{"unknown"}}},
	{"C11-tolist-set-unknown-member", "total/conversion", "c11ToListSetUnknownMember", "total",
		Case{Fn: "to/list-of-string", Args: []spec.V{set(spec.Number, i64(1), spec.UnknownOf(spec.Number))}, Inj: []string{"nested-unknown"}}},
	{"C11-zipmap-null-key", "total/collection", "c11ZipmapNullKey", "total",
		Case{Fn: "zipmap", Args: []spec.V{lst(spec.String, spec.NullOf(spec.String)), lst(spec.String, sv("v"))}, Inj: []string{"nested-null"}}},
	{"C11-bytesslice-overflow", "total/general", "c11BytesSliceOverflow", "total",
		Case{Fn: "bytesslice", Args: []spec.V{sv("hello"), i64(1), i64(9223372036854775807)}, Inj: []string{"num"}}},
	{"C11-indent-negative", "total/string", "c11IndentNegative", "total",
		Case{Fn: "indent", Args: []spec.V{i64(-1), sv("a\nb")}, Inj: []string{"num"}}},
	{"C11-int-infinity", "total/number", "c11IntInfinity", "total",
		Case{Fn: "int", Args: []spec.V{num(spec.Num{Route: "+inf"})}, Inj: []string{"num"}}},
	{"C11-log-nan", "total/number", "c11LogNaN", "total",
		Case{Fn: "log", Args: []spec.V{i64(-1), i64(2)}, Inj: []string{"num"}}},
	{"C11-pow-nan", "total/number", "c11PowNaN", "total",
		Case{Fn: "pow", Args: []spec.V{i64(-1), num(spec.NFloat(0.5))}, Inj: []string{"num"}}},
	{"C11-range-opposite-infinities", "total/set-sequence", "c11RangeOppositeInfinities", "total",
		Case{Fn: "range", Args: []spec.V{num(spec.Num{Route: "+inf"}), i64(0), num(spec.Num{Route: "-inf"})}, Inj: []string{"allnums"}}},
	{"C11-format-argindex-overflow", "total/format", "c11FormatArgIndexOverflow", "total",
		Case{Fn: "format", Args: []spec.V{sv("%[18446744073709551615]v"), i64(1)}, Inj: []string{"str"}}},
}

// TestWitnesses (development aid, VERIF_WITNESS=<dir>) writes the witness
// replay files of the known findings and checks that each fails and is
// recognised by its own predicate and by no other.
func TestWitnesses(t *testing.T) {
	dir := os.Getenv("VERIF_WITNESS")
	if dir == "" {
		t.Skip("set VERIF_WITNESS=<dir>")
	}
	for _, w := range witnesses {
		c := &facet.Ctx{}
		err := check(c, w.in, w.mode)
		if err == nil {
			t.Errorf("%s: witness does not fail", w.id)
			continue
		}
		f := facet.AsFailure(err)
		raw, _ := json.Marshal(w.in)
		for name, p := range knownPreds {
			if got := p(w.facet, raw, f); got != (name == w.pred) {
				t.Errorf("%s: predicate %s = %t (failure %s)", w.id, name, got, f.Kind)
			}
		}
		rec := facet.FailRecord{Property: "C11", Facet: w.facet, Failure: f, Input: raw}
		b, _ := json.MarshalIndent(rec, "", " ")
		if err := os.WriteFile(filepath.Join(dir, w.id+".json"), b, 0o644); err != nil {
			t.Fatal(err)
		}
		fmt.Printf("%s  %s :: %s\n", w.id, f.Kind, short(f.Msg))
	}
}

// regressions are passing cases kept as regression replays (replay/C11): the
// nearest well-behaved neighbours of the known findings, so that an
// over-broad check or predicate shows up as a replay failure.
var regressions = []struct {
	name, facet, mode string
	in                Case
}{
	{"merge-null-map", "total/collection", "total", Case{Fn: "merge", Args: []spec.V{spec.NullOf(spec.Map(spec.String)), {T: spec.Map(spec.String), St: spec.Known, Keys: []string{"k"}, Elems: []spec.V{sv("v")}}}, Inj: []string{"null"}}},
	{"setunion-unknown-set", "total/set-sequence", "total", Case{Fn: "setunion", Args: []spec.V{set(spec.String, sv("a")), spec.UnknownOf(spec.Set(spec.String))}, Inj: []string{"unknown"}}},
	{"slice-unknown-list-range", "total/collection", "total", Case{Fn: "slice", Args: []spec.V{{T: spec.List(spec.String), St: spec.Unknown, Ref: &spec.Ref{MinLen: ip(1), MaxLen: ip(3)}}, i64(0), i64(1)}, Inj: []string{"unknown"}}},
	{"zipmap-null-key-tuple", "total/collection", "total", Case{Fn: "zipmap", Args: []spec.V{lst(spec.String, spec.NullOf(spec.String)), spec.V{T: spec.Tuple(), St: spec.Known, Elems: []spec.V{sv("v")}}.Retype()}, Inj: []string{"nested-null"}}},
	{"bytesslice-out-of-range", "total/general", "total", Case{Fn: "bytesslice", Args: []spec.V{sv("hello"), i64(1), i64(9)}, Inj: []string{"num"}}},
	{"indent-zero", "total/string", "total", Case{Fn: "indent", Args: []spec.V{i64(0), sv("a\nb")}, Inj: []string{"num"}}},
	{"indent-fractional", "total/string", "total", Case{Fn: "indent", Args: []spec.V{num(spec.NFloat(0.5)), sv("a\nb")}, Inj: []string{"num"}}},
	{"int-huge", "total/number", "total", Case{Fn: "int", Args: []spec.V{num(spec.NParse("1e400"))}, Inj: []string{"num"}}},
	{"log-zero", "total/number", "total", Case{Fn: "log", Args: []spec.V{i64(0), i64(2)}, Inj: []string{"num"}}},
	{"pow-overflow", "total/number", "total", Case{Fn: "pow", Args: []spec.V{num(spec.NFloat(1e300)), i64(2)}, Inj: []string{"num"}}},
	{"range-infinite-end", "total/set-sequence", "total", Case{Fn: "range", Args: []spec.V{num(spec.Num{Route: "+inf"})}, Inj: []string{"num"}}},
	{"format-index-too-big", "total/format", "total", Case{Fn: "format", Args: []spec.V{sv("%[7]v"), i64(1)}, Inj: []string{"str"}}},
	{"format-known", "types/static-accepts/format-encoding", "accepts", Case{Fn: "format", Args: []spec.V{sv("%s=%05d%%"), sv("a"), i64(42)}}},
	{"jsondecode-known", "types/static-accepts/format-encoding", "accepts", Case{Fn: "jsondecode", Args: []spec.V{sv("{\"a\":[1,true,null]}")}}},
	{"lookup-unknown-key", "types/static-vs-dynamic/collection", "vs", Case{Fn: "lookup", Args: []spec.V{{T: spec.Object(spec.Attr{Name: "a", T: spec.String}), St: spec.Known, Keys: []string{"a"}, Elems: []spec.V{sv("x")}}, spec.UnknownOf(spec.String), i64(1)}, Inj: []string{"weak-unrefined"}}},
}

// TestRegressions (development aid, VERIF_REGRESS=<dir>) writes the regression replays.
func TestRegressions(t *testing.T) {
	dir := os.Getenv("VERIF_REGRESS")
	if dir == "" {
		t.Skip("set VERIF_REGRESS=<dir>")
	}
	for _, r := range regressions {
		c := &facet.Ctx{}
		if err := check(c, r.in, r.mode); err != nil {
			t.Errorf("%s: regression case fails: %v", r.name, err)
			continue
		}
		raw, _ := json.Marshal(r.in)
		rec := facet.FailRecord{Property: "C11", Facet: r.facet, Input: raw}
		b, _ := json.MarshalIndent(rec, "", " ")
		if err := os.WriteFile(filepath.Join(dir, r.name+".json"), b, 0o644); err != nil {
			t.Fatal(err)
		}
	}
}
