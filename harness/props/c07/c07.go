// Package c07: type equality, conformance and type serialisation obey their algebra.
package c07

import (
	"encoding/json"
	"fmt"

	"github.com/zclconf/go-cty/cty"
	"github.com/zclconf/go-cty/cty/function/stdlib"
	ctyjson "github.com/zclconf/go-cty/cty/json"
	"pgregory.net/rapid"

	"verif/harness/facet"
	"verif/harness/gen"
	"verif/harness/spec"
)

var topts = gen.TypeOpts{Depth: 3, Dynamic: true, Optional: true, Capsule: true, Long: 10}

// Pair is two related type specs.
type Pair struct {
	A   spec.T `json:"a"`
	B   spec.T `json:"b"`
	Rel string `json:"rel"`
}

// Triple is three related type specs.
type Triple struct {
	A, B, C spec.T
	Rel     string
}

func genPair(t *rapid.T) Pair {
	a := gen.Type(topts).Draw(t, "a")
	switch rapid.IntRange(0, 3).Draw(t, "rel") {
	case 0:
		return Pair{a, gen.Type(topts).Draw(t, "b"), "independent"}
	case 1:
		return Pair{a, cloneT(a), "clone"}
	default:
		b, l := gen.MutateType(t, a, topts)
		return Pair{a, b, "mutant:" + l}
	}
}

func cloneT(a spec.T) spec.T {
	b, _ := json.Marshal(a)
	var out spec.T
	if err := json.Unmarshal(b, &out); err != nil {
		panic(err)
	}
	// permute attribute order so that the rebuilt object type is constructed differently
	var rec func(x *spec.T)
	rec = func(x *spec.T) {
		if x.E != nil {
			rec(x.E)
		}
		for i := range x.Elems {
			rec(&x.Elems[i])
		}
		for i := range x.Attrs {
			rec(&x.Attrs[i].T)
		}
		for i, j := 0, len(x.Attrs)-1; i < j; i, j = i+1, j-1 {
			x.Attrs[i], x.Attrs[j] = x.Attrs[j], x.Attrs[i]
		}
	}
	rec(&out)
	return out
}

func classifyPair(c *facet.Ctx, p Pair) {
	c.Label("rel=" + p.Rel)
	if p.A.HasDynamic() || p.B.HasDynamic() {
		c.Label("has-dynamic")
	}
	if p.A.HasOptional() || p.B.HasOptional() {
		c.Label("has-optional")
	}
	if (len(p.Rel) > 6 && p.Rel[:6] == "mutant" && p.A.Depth() >= 1) || p.A.HasDynamic() || p.A.HasOptional() || p.B.HasDynamic() || p.B.HasOptional() {
		c.NonTrivial()
	}
}

const rule = "pair of types differing in exactly one position at depth >= 1, or containing a dynamic placeholder / optional attribute; distinct = hash of the JSON of the spec pair"

func init() {
	facet.Register(facet.F[Pair]{
		Prop: "C07", Name: "equals/model", Rule: rule, Quick: 40000, Thorough: 400000,
		Gen: genPair,
		Check: func(c *facet.Ctx, p Pair) error {
			classifyPair(c, p)
			a, b := p.A.Cty(), p.B.Cty()
			want := p.A.Equal(p.B)
			if got := a.Equals(b); got != want {
				return facet.Failf("equals-model", "Equals(%s, %s) = %t, model says %t", p.A, p.B, got, want)
			}
			if got := b.Equals(a); got != want {
				return facet.Failf("equals-symmetric", "Equals(%s, %s) = %t but the converse is %t", p.B, p.A, got, want)
			}
			if !a.Equals(p.A.Cty()) || !b.Equals(b) {
				return facet.Failf("equals-reflexive", "type not equal to its own rebuild: %s", p.A)
			}
			return nil
		},
	})

	facet.Register(facet.F[Triple]{
		Prop: "C07", Name: "equals/equivalence", Rule: "triple of related types (clones and one-position mutants); non-trivial when at least two of the three are model-equal and depth >= 1", Quick: 20000, Thorough: 200000,
		Gen: func(t *rapid.T) Triple {
			a := gen.Type(topts).Draw(t, "a")
			mk := func(l string) spec.T {
				switch rapid.IntRange(0, 2).Draw(t, l) {
				case 0:
					return cloneT(a)
				case 1:
					m, _ := gen.MutateType(t, a, topts)
					return m
				default:
					m, _ := gen.MutateType(t, a, topts)
					m2, _ := gen.MutateType(t, m, topts)
					return m2
				}
			}
			return Triple{A: a, B: mk("b"), C: mk("c")}
		},
		Check: func(c *facet.Ctx, tr Triple) error {
			a, b, cc := tr.A.Cty(), tr.B.Cty(), tr.C.Cty()
			ab, bc, ac := a.Equals(b), b.Equals(cc), a.Equals(cc)
			if (tr.A.Equal(tr.B) || tr.B.Equal(tr.C) || tr.A.Equal(tr.C)) && tr.A.Depth() >= 1 {
				c.NonTrivial()
			}
			if ab && bc && !ac {
				return facet.Failf("equals-transitive", "a=b and b=c but a!=c: %s / %s / %s", tr.A, tr.B, tr.C)
			}
			if ab != b.Equals(a) || bc != cc.Equals(b) || ac != cc.Equals(a) {
				return facet.Failf("equals-symmetric", "asymmetric equality among %s / %s / %s", tr.A, tr.B, tr.C)
			}
			// equal types must be indistinguishable by the third
			if ab && (ac != bc) {
				return facet.Failf("equals-congruent", "a=b but they compare differently with c: %s / %s / %s", tr.A, tr.B, tr.C)
			}
			return nil
		},
	})

	facet.Register(facet.F[Pair]{
		Prop: "C07", Name: "conform/model", Rule: rule, Quick: 40000, Thorough: 400000,
		Gen: genPair,
		Check: func(c *facet.Ctx, p Pair) error {
			classifyPair(c, p)
			for _, d := range [][2]spec.T{{p.A, p.B}, {p.B, p.A}} {
				given, want := d[0], d[1]
				errs := given.Cty().TestConformance(want.Cty())
				model := given.Conforms(want)
				if model {
					c.Label("conforms")
				}
				if (len(errs) == 0) != model {
					return facet.Failf("conform-model", "TestConformance(%s -> %s) returned %d errors, model says conforms=%t", given, want, len(errs), model)
				}
				if errs != nil && len(errs) == 0 {
					return facet.Failf("conform-empty-errors", "non-nil empty error list")
				}
				for _, e := range errs {
					if e == nil {
						return facet.Failf("conform-nil-error", "nil error in list")
					}
				}
			}
			return nil
		},
	})

	facet.Register(facet.F[spec.T]{
		Prop: "C07", Name: "hasdynamic", Rule: "type of depth >= 1; distinct = hash of spec", Quick: 30000, Thorough: 300000,
		Gen: func(t *rapid.T) spec.T { return gen.Type(topts).Draw(t, "t") },
		Check: func(c *facet.Ctx, ty spec.T) error {
			if ty.Depth() >= 1 {
				c.NonTrivial()
			}
			if ty.HasDynamic() {
				c.Label("dynamic")
			}
			if got := ty.Cty().HasDynamicTypes(); got != ty.HasDynamic() {
				return facet.Failf("hasdynamic", "HasDynamicTypes(%s) = %t, model %t", ty, got, ty.HasDynamic())
			}
			return nil
		},
	})

	jopts := topts
	jopts.Capsule = false
	decoyTypes := []cty.Type{
		cty.List(cty.Map(cty.Bool)),
		cty.ObjectWithOptionalAttrs(map[string]cty.Type{"decoy": cty.Tuple([]cty.Type{cty.Number, cty.DynamicPseudoType}), "x": cty.String}, []string{"x"}),
		cty.String,
	}
	facet.Register(facet.F[spec.T]{
		Prop: "C07", Name: "json/roundtrip", Rule: "capsule-free type of depth >= 1 or with optional attributes / dynamic", Quick: 30000, Thorough: 300000,
		Gen: func(t *rapid.T) spec.T { return gen.Type(jopts).Draw(t, "t") },
		Check: func(c *facet.Ctx, ty spec.T) error {
			if ty.Depth() >= 1 {
				c.NonTrivial()
			}
			if ty.HasOptional() {
				c.Label("optional")
			}
			origs := []cty.Type{ty.Cty()}
			if hasEmptyStruct(ty) {
				// the same type with its empty tuples / objects built from a nil
				// slice / map, and from empty non-nil ones
				origs = append(origs, ctyVariant(ty, 1), ctyVariant(ty, 2))
				c.Label("empty-struct-variants")
			}
			if hasPlainObject(ty) {
				// the same type with "no optional attributes" said through the
				// constructor that takes a list of them, given an empty one
				origs = append(origs, ctyVariant(ty, 3), ctyVariant(ty, 4))
				c.Label("empty-optional-list-variants")
			}
			for vi, orig := range origs {
				if vi > 0 && (!orig.Equals(origs[0]) || !origs[0].Equals(orig)) {
					return facet.Failf("equals-variant", "%s built with nil / empty element containers is not Equal to the same type built otherwise", ty)
				}
				for _, via := range []string{"method", "ctyjson"} {
					var b []byte
					var err error
					var back cty.Type
					if via == "method" {
						b, err = orig.MarshalJSON()
					} else {
						b, err = ctyjson.MarshalType(orig)
					}
					if err == nil {
						// other types are serialized before the bytes are read back: a
						// serialization must not depend on the serializer being left alone
						before := string(b)
						for _, d := range decoyTypes {
							if _, derr := d.MarshalJSON(); derr != nil {
								return facet.Failf("json-error", "decoy type %#v: %v", d, derr)
							}
							if _, derr := ctyjson.MarshalType(d); derr != nil {
								return facet.Failf("json-error", "decoy type %#v: %v", d, derr)
							}
						}
						if string(b) != before {
							return facet.Failf("json-output-overwritten", "%s: the bytes returned for %s were %s and read %s after other types had been serialized", via, ty, before, b)
						}
						if via == "method" {
							err = (&back).UnmarshalJSON(b)
						} else {
							back, err = ctyjson.UnmarshalType(b)
						}
					}
					if err != nil {
						return facet.Failf("json-error", "%s: type %s does not survive JSON: %v (bytes %s)", via, ty, err, b)
					}
					if !json.Valid(b) {
						return facet.Failf("json-invalid", "%s: invalid JSON %q", via, b)
					}
					if !back.Equals(orig) || !orig.Equals(back) {
						return facet.Failf("json-changed", "%s: %s came back as %#v (bytes %s)", via, ty, back, b)
					}
					if !spec.FromCty(back).Equal(ty) {
						return facet.Failf("json-changed-model", "%s: %s came back model-different: %s", via, ty, spec.FromCty(back))
					}
					// The returned bytes belong to the caller, who may reuse the
					// buffer: overwriting them must not change what the same type,
					// its leaf types, or any other type serialize to afterwards.
					want := string(b)
					for i := range b {
						b[i] = 'x'
					}
					for _, leaf := range []cty.Type{cty.String, cty.Number, cty.Bool, cty.DynamicPseudoType} {
						if lb, lerr := leaf.MarshalJSON(); lerr == nil {
							var lback cty.Type
							if uerr := (&lback).UnmarshalJSON(lb); uerr != nil || !lback.Equals(leaf) {
								return facet.Failf("json-shared-buffer", "after the bytes returned for %s were overwritten by their owner, %#v serializes to %q", ty, leaf, lb)
							}
							for i := range lb {
								lb[i] = 'y'
							}
						}
					}
					var b2 []byte
					if via == "method" {
						b2, err = orig.MarshalJSON()
					} else {
						b2, err = ctyjson.MarshalType(orig)
					}
					if err != nil || string(b2) != want {
						return facet.Failf("json-shared-buffer", "%s: %s serialized to %s, and to %s (%v) after the first result had been overwritten by its owner", via, ty, want, b2, err)
					}
				}
			}
			return nil
		},
	})

	facet.Register(facet.F[spec.T]{
		Prop: "C07", Name: "strip-optional", Rule: "type with at least one optional attribute", Quick: 30000, Thorough: 300000,
		Gen: func(t *rapid.T) spec.T { return gen.Type(topts).Draw(t, "t") },
		Check: func(c *facet.Ctx, ty spec.T) error {
			if ty.HasOptional() {
				c.NonTrivial()
			}
			orig := ty.Cty()
			got := orig.WithoutOptionalAttributesDeep()
			// "changes nothing else" includes the receiver itself: it must still
			// be the type it was built as
			if back := spec.FromCty(orig); !back.Equal(ty) || !orig.Equals(ty.Cty()) {
				return facet.Failf("strip-mutated-receiver", "WithoutOptionalAttributesDeep changed its receiver: built as %s, now %s", ty, back)
			}
			gs := spec.FromCty(got)
			if gs.HasOptional() {
				return facet.Failf("strip-left", "optional attributes left after stripping %s: %s", ty, gs)
			}
			if !gs.Equal(ty.StripOptional()) {
				return facet.Failf("strip-model", "stripping %s gave %s, model %s", ty, gs, ty.StripOptional())
			}
			if !got.Equals(ty.StripOptional().Cty()) {
				return facet.Failf("strip-model", "stripping %s gave a type not Equal to the model's", ty)
			}
			again := got.WithoutOptionalAttributesDeep()
			if !again.Equals(got) {
				return facet.Failf("strip-idempotent", "stripping twice changed %s", ty)
			}
			if !ty.HasOptional() && !got.Equals(ty.Cty()) {
				return facet.Failf("strip-changed", "stripping changed annotation-free %s", ty)
			}
			return nil
		},
	})

	facet.Register(facet.F[Pair]{
		Prop: "C07", Name: "ops/read-only", Quick: 30000, Thorough: 300000,
		Rule: "a pair of related types (clone / one-position mutant / independent); every type-level query and derivation (Equals, TestConformance both ways, HasDynamicTypes, MarshalJSON, GoString, FriendlyName, WithoutOptionalAttributesDeep, element/attribute accessors) is run, after which both types must still be model-equal to the specs they were built from and Equal to a fresh rebuild; non-trivial = depth >= 1 and (optional attributes or dynamic placeholders present)",
		Gen:  genPair,
		Check: func(c *facet.Ctx, p Pair) error {
			classifyPair(c, p)
			a, b := p.A.Cty(), p.B.Cty()
			_ = a.Equals(b)
			_ = a.TestConformance(b)
			_ = b.TestConformance(a)
			_ = a.HasDynamicTypes()
			_, _ = a.MarshalJSON()
			_, _ = b.MarshalJSON()
			_ = a.GoString()
			_ = a.FriendlyName()
			_ = a.WithoutOptionalAttributesDeep()
			_ = b.WithoutOptionalAttributesDeep().WithoutOptionalAttributesDeep()
			if a.IsObjectType() {
				_ = a.AttributeTypes()
				_ = a.OptionalAttributes()
			}
			for i, pr := range []struct {
				ty cty.Type
				sp spec.T
			}{{a, p.A}, {b, p.B}} {
				if back := spec.FromCty(pr.ty); !back.Equal(pr.sp) {
					return facet.Failf("type-mutated", "type %d was built as %s but reads back as %s after read-only queries and derivations", i, pr.sp, back)
				}
				if !pr.ty.Equals(pr.sp.Cty()) || !pr.sp.Cty().Equals(pr.ty) {
					return facet.Failf("type-mutated", "type %d (%s) no longer equals a fresh build of the same spec", i, pr.sp)
				}
			}
			return nil
		},
	})

	facet.Register(facet.F[Pair]{
		Prop: "C07", Name: "depth1/exhaustive", Rule: "all ordered pairs of types of depth <= 1 over {bool,number,string,dynamic,capsuleA,capsuleA2 (same name and native type, distinct identity)} x {list,set,map,tuple(0..2),object(0..2 attrs a,b with optional toggles)}; every pair counts",
		Exhaustive: func() []Pair {
			ts := depth1Types()
			var out []Pair
			for _, a := range ts {
				for _, b := range ts {
					out = append(out, Pair{a, b, "exh"})
				}
			}
			return out
		},
		Check: func(c *facet.Ctx, p Pair) error {
			c.NonTrivial()
			a, b := p.A.Cty(), p.B.Cty()
			if got, want := a.Equals(b), p.A.Equal(p.B); got != want {
				return facet.Failf("equals-model", "Equals(%s, %s) = %t, model says %t", p.A, p.B, got, want)
			}
			errs := a.TestConformance(b)
			if (len(errs) == 0) != p.A.Conforms(p.B) {
				return facet.Failf("conform-model", "TestConformance(%s -> %s) returned %d errors, model says %t", p.A, p.B, len(errs), p.A.Conforms(p.B))
			}
			if a.HasDynamicTypes() != p.A.HasDynamic() {
				return facet.Failf("hasdynamic", "HasDynamicTypes(%s)", p.A)
			}
			return nil
		},
	})
}

func depth1Types() []spec.T {
	leaves := []spec.T{spec.Bool, spec.Number, spec.String, spec.Dynamic, spec.CapsuleT("A"), spec.CapsuleT("A2")}
	out := append([]spec.T(nil), leaves...)
	for _, l := range leaves {
		out = append(out, spec.List(l), spec.Set(l), spec.Map(l))
	}
	out = append(out, spec.Tuple(), spec.Object())
	for _, l := range leaves {
		out = append(out, spec.Tuple(l))
		for _, opt := range []bool{false, true} {
			out = append(out, spec.Object(spec.Attr{Name: "a", T: l, Opt: opt}))
			out = append(out, spec.Object(spec.Attr{Name: "b", T: l, Opt: opt}))
		}
		for _, m := range leaves[:3] {
			out = append(out, spec.Tuple(l, m))
			for o := 0; o < 4; o++ {
				out = append(out, spec.Object(spec.Attr{Name: "a", T: l, Opt: o&1 != 0}, spec.Attr{Name: "b", T: m, Opt: o&2 != 0}))
			}
		}
	}
	_ = fmt.Sprint
	return out
}

// ---------------------------------------------------------------- equals/derived

// DerivedIn is the input of equals/derived: a tuple type and a sub-range of
// its element types.
type DerivedIn struct {
	T      spec.T `json:"t"`
	Lo, Hi int
	Via    string `json:"via"` // "elements" (cty.Tuple over a sub-slice of TupleElementTypes) or "slice" (the return type of the stdlib slice function)
}

func init() {
	facet.Register(facet.F[DerivedIn]{
		Prop: "C07", Name: "equals/derived",
		Rule:  "a tuple type with 1-5 elements (element types to depth 1, placeholders and optional attributes included) and the tuple type DERIVED from it over a sub-range [lo,hi) of its elements the way the library derives such types itself (cty.Tuple over a sub-slice of TupleElementTypes(), and the return type stdlib.SliceFunc predicts for an unknown value of the type): the derived type shares storage with the original, and must be equal to it exactly when the model says so (same length and element types); conformance and its converse likewise; non-trivial when the range is a proper prefix or suffix of length >= 1",
		Quick: 30000, Thorough: 300000,
		Gen: func(t *rapid.T) DerivedIn {
			n := rapid.IntRange(1, 5).Draw(t, "n")
			es := make([]spec.T, n)
			for i := range es {
				es[i] = gen.Type(gen.TypeOpts{Depth: 1, Dynamic: true, Optional: true}).Draw(t, "elem")
				if i > 0 && rapid.IntRange(0, 2).Draw(t, "same") == 0 {
					es[i] = es[i-1]
				}
			}
			lo := rapid.IntRange(0, n).Draw(t, "lo")
			if rapid.IntRange(0, 2).Draw(t, "prefix") != 0 {
				lo = 0
			}
			hi := rapid.IntRange(lo, n).Draw(t, "hi")
			return DerivedIn{T: spec.Tuple(es...), Lo: lo, Hi: hi, Via: rapid.SampledFrom([]string{"elements", "elements", "slice"}).Draw(t, "via")}
		},
		Check: func(c *facet.Ctx, in DerivedIn) error {
			if in.T.K != spec.KTuple || in.Lo < 0 || in.Hi > len(in.T.Elems) || in.Lo > in.Hi {
				c.Skip()
				return nil
			}
			orig := in.T.Cty()
			model := spec.Tuple(in.T.Elems[in.Lo:in.Hi]...)
			var derived cty.Type
			switch in.Via {
			case "slice":
				if in.T.HasOptional() {
					c.Skip() // values never have optional-attribute types
					return nil
				}
				var err error
				func() {
					defer func() {
						if r := recover(); r != nil {
							err = fmt.Errorf("panic: %v", r)
						}
					}()
					derived, err = stdlib.SliceFunc.ReturnTypeForValues([]cty.Value{cty.UnknownVal(orig), cty.NumberIntVal(int64(in.Lo)), cty.NumberIntVal(int64(in.Hi))})
				}()
				if err != nil {
					c.Label("slice-rejected")
					c.Skip()
					return nil
				}
			default:
				derived = cty.Tuple(orig.TupleElementTypes()[in.Lo:in.Hi])
			}
			c.Label("via=" + in.Via)
			if in.Hi-in.Lo >= 1 && in.Hi-in.Lo < len(in.T.Elems) && (in.Lo == 0 || in.Hi == len(in.T.Elems)) {
				c.NonTrivial()
			}
			if !spec.FromCty(derived).Equal(model) {
				return facet.Failf("derived-type", "type derived from %s over [%d,%d) via %s is %s, want %s", in.T, in.Lo, in.Hi, in.Via, spec.FromCty(derived), model)
			}
			want := model.Equal(in.T)
			if got := derived.Equals(orig); got != want {
				return facet.Failf("equals-derived", "the tuple type derived from %s over [%d,%d) (%s) Equals the original: %t, model says %t", in.T, in.Lo, in.Hi, model, got, want)
			}
			if got := orig.Equals(derived); got != want {
				return facet.Failf("equals-derived", "%s Equals the tuple type derived from it over [%d,%d) (%s): %t, model says %t", in.T, in.Lo, in.Hi, model, got, want)
			}
			if !derived.Equals(model.Cty()) || !model.Cty().Equals(derived) {
				return facet.Failf("equals-derived", "the tuple type derived from %s over [%d,%d) is not equal to an independently built %s", in.T, in.Lo, in.Hi, model)
			}
			for _, dir := range []struct {
				given, want cty.Type
				g, w        spec.T
			}{{derived, orig, model, in.T}, {orig, derived, in.T, model}} {
				errs := dir.given.TestConformance(dir.want)
				if conf := dir.g.Conforms(dir.w); conf != (len(errs) == 0) {
					return facet.Failf("conform-derived", "TestConformance(%s, %s) with one type derived from the other reports %d errors, model conformance is %t", dir.g, dir.w, len(errs), conf)
				}
			}
			return nil
		},
	})
}

// hasEmptyStruct reports whether an empty tuple or object type occurs in t.
func hasEmptyStruct(t spec.T) bool {
	switch t.K {
	case spec.KList, spec.KSet, spec.KMap:
		return hasEmptyStruct(*t.E)
	case spec.KTuple:
		if len(t.Elems) == 0 {
			return true
		}
		for _, e := range t.Elems {
			if hasEmptyStruct(e) {
				return true
			}
		}
	case spec.KObject:
		if len(t.Attrs) == 0 {
			return true
		}
		for _, a := range t.Attrs {
			if hasEmptyStruct(a.T) {
				return true
			}
		}
	}
	return false
}

// ctyVariant builds the cty type of t like spec.T.Cty, except that empty
// tuple and object types are built from nil containers (variant 1:
// cty.Tuple(nil), cty.Object(nil)) or from empty non-nil ones (variant 2).
func ctyVariant(t spec.T, variant int) cty.Type {
	switch t.K {
	case spec.KList:
		return cty.List(ctyVariant(*t.E, variant))
	case spec.KSet:
		return cty.Set(ctyVariant(*t.E, variant))
	case spec.KMap:
		return cty.Map(ctyVariant(*t.E, variant))
	case spec.KTuple:
		if len(t.Elems) == 0 {
			if variant == 1 {
				return cty.Tuple(nil)
			}
			return cty.Tuple(make([]cty.Type, 0, 4))
		}
		es := make([]cty.Type, len(t.Elems))
		for i, e := range t.Elems {
			es[i] = ctyVariant(e, variant)
		}
		return cty.Tuple(es)
	case spec.KObject:
		if len(t.Attrs) == 0 {
			if variant == 1 {
				return cty.Object(nil)
			}
			return cty.Object(map[string]cty.Type{})
		}
		as := map[string]cty.Type{}
		var opt []string
		for _, a := range t.Attrs {
			as[a.Name] = ctyVariant(a.T, variant)
			if a.Opt {
				opt = append(opt, a.Name)
			}
		}
		if len(opt) > 0 {
			return cty.ObjectWithOptionalAttrs(as, opt)
		}
		switch variant {
		case 3:
			// no optional attributes, said with an empty (non-nil) list
			return cty.ObjectWithOptionalAttrs(as, []string{})
		case 4:
			return cty.ObjectWithOptionalAttrs(as, make([]string, 0, 4))
		}
		return cty.Object(as)
	}
	return t.Cty()
}

// hasPlainObject: an object type with attributes and no optional ones occurs in t.
func hasPlainObject(t spec.T) bool {
	switch t.K {
	case spec.KList, spec.KSet, spec.KMap:
		return hasPlainObject(*t.E)
	case spec.KTuple:
		for _, e := range t.Elems {
			if hasPlainObject(e) {
				return true
			}
		}
	case spec.KObject:
		opt := false
		for _, a := range t.Attrs {
			if a.Opt {
				opt = true
			}
			if hasPlainObject(a.T) {
				return true
			}
		}
		return len(t.Attrs) > 0 && !opt
	}
	return false
}
