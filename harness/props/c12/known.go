package c12

import (
	"encoding/json"

	"github.com/zclconf/go-cty/cty"

	"verif/harness/facet"
	"verif/harness/spec"
	"verif/harness/stdreg"
)

var knownPreds = map[string]facet.KnownPredicate{}

// builtCase is the decoded input with both argument lists built, marks removed.
type builtCase struct {
	Fn         string
	Args, Weak []spec.V
	CV, WV     []cty.Value
}

func regKnown(name string, p func(in builtCase, f *facet.Failure) bool) {
	kp := func(_ string, raw json.RawMessage, f *facet.Failure) bool {
		var in Case
		if json.Unmarshal(raw, &in) != nil || f == nil {
			return false
		}
		e, ok := stdreg.ByName(in.Fn)
		if !ok {
			return false
		}
		cv, err := e.Build(in.Args)
		if err != nil {
			return false
		}
		wv, err := e.Build(in.Weak)
		if err != nil {
			return false
		}
		return p(builtCase{Fn: in.Fn, Args: in.Args, Weak: in.Weak, CV: cv, WV: wv}, f)
	}
	knownPreds[name] = kp
	facet.RegisterKnown(name, kp)
}

func matchKnownForSurvey(raw json.RawMessage, f *facet.Failure) string {
	for name, p := range knownPreds {
		if p("sound/x", raw, f) {
			return name
		}
	}
	return ""
}

func isSeq(v cty.Value) bool {
	ty := v.Type()
	return ty.IsListType() || ty.IsSetType() || ty.IsTupleType()
}

func init() {
	// setproduct: an argument whose length is unknown may be empty, yet the
	// result is refined with a length lower bound of 1.
	regKnown("c12SetProductPossiblyEmpty", func(in builtCase, f *facet.Failure) bool {
		if in.Fn != "setproduct" || (f.Kind != "admits/length" && f.Kind != "admits/known-differs") || f.Data["path"] != "" || len(in.CV) != len(in.WV) {
			return false
		}
		for i := range in.CV {
			c, w := in.CV[i], in.WV[i]
			if c.IsKnown() && !c.IsNull() && c.LengthInt() == 0 && !(w.IsKnown() && w.Length().IsKnown()) {
				return true
			}
		}
		return false
	})

	// reverselist accepts a set and reads it in iteration order even when some
	// members are unknown: neither the order nor the number of members is
	// settled yet, but the result is a known list.
	regKnown("c12ReverseListSetUnknownMembers", func(in builtCase, f *facet.Failure) bool {
		if in.Fn != "reverselist" || len(f.Kind) < 7 || f.Kind[:7] != "admits/" || len(in.WV) != 1 {
			return false
		}
		w := in.WV[0]
		return w.Type().IsSetType() && w.IsKnown() && !w.IsNull() && !w.IsWhollyKnown()
	})

	// merge: a null object contributes no attributes, an unknown object of the
	// same type is assumed to contribute all of them (see C11-merge-null-object).
	regKnown("c12MergeNullObject", func(in builtCase, f *facet.Failure) bool {
		if in.Fn != "merge" || f.Kind != "admits/type" || len(in.CV) != len(in.WV) {
			return false
		}
		for i := range in.CV {
			if in.CV[i].IsNull() && in.CV[i].Type().IsObjectType() && !in.WV[i].IsKnown() {
				return true
			}
		}
		return false
	})

	// formatlist: when one sequence yields an unknown element the iteration is
	// abandoned before the later sequences are advanced, so every later result
	// is formatted from stale elements of those sequences.
	regKnown("c12FormatListStaleIterators", func(in builtCase, f *facet.Failure) bool {
		if in.Fn != "formatlist" || f.Kind != "admits/known-differs" || len(in.WV) < 3 {
			return false
		}
		seenUnknownElem := false
		for _, w := range in.WV[1:] {
			if !(isSeq(w) && w.IsKnown() && !w.IsNull()) {
				continue
			}
			if seenUnknownElem {
				return true // a later sequence exists
			}
			if !w.IsWhollyKnown() {
				seenUnknownElem = true
			}
		}
		return false
	})

	// formatlist: a null tuple is formatted as a single value, an unknown tuple
	// (which may be that null) is required to have the sequences' length.
	regKnown("c12FormatListNullTuple", func(in builtCase, f *facet.Failure) bool {
		if in.Fn != "formatlist" || f.Kind != "weakened-fails" || len(in.CV) != len(in.WV) {
			return false
		}
		for i := range in.CV {
			if in.CV[i].IsNull() && in.CV[i].Type().IsTupleType() && !in.WV[i].IsKnown() {
				return true
			}
		}
		return false
	})

	// the two internal-panic shapes of C11 reached by weakening
	regKnown("c12SliceUnknownExactLength", func(in builtCase, f *facet.Failure) bool {
		if in.Fn != "slice" || f.Kind != "panic-error" || f.Data["panic"] != "value is not known" || len(in.WV) == 0 {
			return false
		}
		a := in.WV[0]
		return !a.IsKnown() && a.Type().IsListType() && a.Range().LengthLowerBound() == a.Range().LengthUpperBound()
	})
	regKnown("c12ToListSetUnknownMember", func(in builtCase, f *facet.Failure) bool {
		if len(in.Fn) < 7 || in.Fn[:7] != "to/list" || f.Kind != "panic-error" || len(in.WV) != 1 {
			return false
		}
		a := in.WV[0]
		return a.IsKnown() && !a.IsNull() && a.Type().IsSetType() && !a.IsWhollyKnown()
	})
}
