// Package c12: standard functions treat unknown arguments soundly.
//
// Facets (DESIGN.md 5 C12, Appendix D):
//
//	sound/<family>     in-domain wholly-known arguments on which the call succeeds, then some arguments
//	                   or nested members are replaced by TYPED unknowns that admit the replaced part
//	                   (gen.Weaken, no DynamicVal): the weakened call must succeed and its result must
//	                   admit the concrete result (model.Admits: type, nullness, numeric and length
//	                   bounds, string prefix, every known part)
//	converse/<group>   wholly-known arguments, call succeeded => the result is wholly known
//
// The function is a uniform rapid draw inside each facet; labels fn=<name>
// (all cases), nt=<name> (non-trivial), cf=<name> (concrete call failed: the
// in-domain generator missed the domain; nothing about unknowns is asserted).
package c12

import (
	"bytes"
	"errors"
	"fmt"
	"strings"

	"github.com/zclconf/go-cty/cty"
	"github.com/zclconf/go-cty/cty/function"
	"github.com/zclconf/go-cty/cty/function/stdlib"
	"pgregory.net/rapid"

	"verif/harness/facet"
	"verif/harness/gen"
	"verif/harness/model"
	"verif/harness/spec"
	"verif/harness/stdreg"
	"verif/harness/wf"
)

// Case is the input of every C12 facet. Weak is nil for converse facets.
type Case struct {
	Fn    string   `json:"fn"`
	Args  []spec.V `json:"args"`            // wholly known
	Weak  []spec.V `json:"weak,omitempty"`  // the same list with parts replaced by typed unknowns
	Kinds []string `json:"kinds,omitempty"` // weakening kinds / edits used (documentation only)
}

func short(s string) string {
	s = strings.ReplaceAll(s, "\n", " | ")
	if len(s) > 700 {
		s = s[:700] + "..."
	}
	return s
}

func whollyKnownSpecs(vs []spec.V) bool {
	for _, v := range vs {
		if !v.WhollyKnown() {
			return false
		}
	}
	return true
}

// admits is model.Admits, except that two known stdlib.Bytes capsules (which
// have no equality operations, so the model would compare pointers) are
// compared by content.
func admits(a, c cty.Value) *facet.Failure {
	a, c = model.Strip(a), model.Strip(c)
	if a.Type().Equals(stdlib.Bytes) && c.Type().Equals(stdlib.Bytes) && a.IsKnown() && c.IsKnown() && !a.IsNull() && !c.IsNull() {
		ab, cb := a.EncapsulatedValue().(*[]byte), c.EncapsulatedValue().(*[]byte)
		if !bytes.Equal(*ab, *cb) {
			return facet.Failf("admits/known-differs", "known byte buffers differ: %q vs %q", *ab, *cb)
		}
		return nil
	}
	return model.Admits(a, c)
}

func classifyErr(name, what string, o stdreg.Outcome, fail func(kind, f string, a ...any) *facet.Failure) *facet.Failure {
	if o.Panicked {
		return fail("go-panic", "%s call: Go panic out of Call: %s", what, o.Panic).With("panic", short(o.Panic)).With("call", what)
	}
	var pe function.PanicError
	if errors.As(o.Err, &pe) {
		return fail("panic-error", "%s call returned an internal-panic error: %v", what, pe.Value).With("panic", short(fmt.Sprint(pe.Value))).With("call", what)
	}
	return nil
}

func checkSound(c *facet.Ctx, in Case) error {
	e, ok := stdreg.ByName(in.Fn)
	if !ok {
		return facet.Failf("harness", "no function %q in the registry", in.Fn)
	}
	if !whollyKnownSpecs(in.Args) {
		return facet.Failf("harness", "concrete argument list is not wholly known")
	}
	cv, err1 := e.Build(in.Args)
	wv, err2 := e.Build(in.Weak)
	if err1 != nil || err2 != nil {
		c.Skip()
		return nil
	}
	c.Label("fn=" + in.Fn)
	fail := func(kind, f string, a ...any) *facet.Failure {
		return facet.Failf(kind, "%s: concrete (%s) weakened (%s): %s", in.Fn, short(stdreg.Describe(in.Args)), short(stdreg.Describe(in.Weak)), short(fmt.Sprintf(f, a...))).With("fn", in.Fn)
	}
	conc := stdreg.Call(e.Fn, cv)
	if conc.Panicked || conc.Err != nil {
		// not in the function's domain: nothing to say about unknowns (C11 owns failures on known values)
		c.Label("cf=" + in.Fn)
		c.Label("concrete-failed")
		return nil
	}
	if conc.Val == cty.NilVal || !conc.Val.IsWhollyKnown() {
		// the converse clause, also checked here because the comparison below needs a wholly-known concrete result
		return fail("not-wholly-known", "every argument is wholly known but the concrete result %#v is not", conc.Val)
	}
	weakened := !whollyKnownSpecs(in.Weak)
	for _, k := range in.Kinds {
		c.Label("weak=" + k)
	}
	if weakened {
		c.NonTrivial()
		c.Label("nt=" + in.Fn)
	}
	weak := stdreg.Call(e.Fn, wv)
	if f := classifyErr(in.Fn, "weakened", weak, fail); f != nil {
		return f
	}
	if weak.Err != nil {
		return fail("weakened-fails", "the concrete call succeeded (%#v) but the weakened call failed: %v", conc.Val, weak.Err).With("error", short(weak.Err.Error()))
	}
	if weak.Val == cty.NilVal {
		return fail("nil-result", "weakened call returned no error and cty.NilVal")
	}
	if f := wf.Check(weak.Val); f != nil {
		return fail(f.Kind, "weakened result %#v is not well-formed: %s", weak.Val, f.Msg)
	}
	if weak.Val.IsKnown() {
		c.Label("out=known")
	} else if weak.Val.Type() == cty.DynamicPseudoType {
		c.Label("out=dynamic")
	} else if g := weak.Val.GoString(); g != cty.UnknownVal(weak.Val.Type()).GoString() && g != cty.UnknownVal(weak.Val.Type()).RefineNotNull().GoString() {
		c.Label("out=unknown-refined")
	} else {
		c.Label("out=unknown")
	}
	if f := admits(weak.Val, conc.Val); f != nil {
		ff := fail(f.Kind, "weakened result %#v does not admit the concrete result %#v: %s", weak.Val, conc.Val, f.Msg)
		ff.Margin = f.Margin
		for k, v := range f.Data {
			ff.With(k, v)
		}
		return ff
	}
	return nil
}

func checkConverse(c *facet.Ctx, in Case) error {
	e, ok := stdreg.ByName(in.Fn)
	if !ok {
		return facet.Failf("harness", "no function %q in the registry", in.Fn)
	}
	if !whollyKnownSpecs(in.Args) {
		return facet.Failf("harness", "argument list is not wholly known")
	}
	cv, err := e.Build(in.Args)
	if err != nil {
		c.Skip()
		return nil
	}
	c.Label("fn=" + in.Fn)
	for _, k := range in.Kinds {
		c.Label("edit=" + k)
	}
	o := stdreg.Call(e.Fn, cv)
	if o.Panicked || o.Err != nil {
		c.Label("call-failed") // per function: fn=<name> minus nt=<name>
		return nil
	}
	c.NonTrivial()
	c.Label("nt=" + in.Fn)
	if o.Val == cty.NilVal {
		return facet.Failf("nil-result", "%s(%s) returned no error and cty.NilVal", in.Fn, short(stdreg.Describe(in.Args))).With("fn", in.Fn)
	}
	if !o.Val.IsWhollyKnown() {
		return facet.Failf("not-wholly-known", "%s(%s): every argument is wholly known but the result %#v is not", in.Fn, short(stdreg.Describe(in.Args)), o.Val).With("fn", in.Fn)
	}
	if f := wf.Check(o.Val); f != nil {
		return facet.Failf(f.Kind, "%s(%s): result %#v is not well-formed: %s", in.Fn, short(stdreg.Describe(in.Args)), o.Val, f.Msg).With("fn", in.Fn)
	}
	return nil
}

// ---------------------------------------------------------------- generators

func genSound(es []stdreg.Entry) func(t *rapid.T) Case {
	return func(t *rapid.T) Case {
		e := stdreg.Pick(t, es)
		args := e.Args(t)
		weak := make([]spec.V, len(args))
		copy(weak, args)
		var kinds []string
		if len(args) > 0 && rapid.IntRange(0, 19).Draw(t, "farlenall") == 10 {
			// every collection argument becomes an unknown collection whose only
			// length information is one shared upper bound far above the true
			// lengths: sums and products of such bounds overflow (2^32 * 2^32,
			// 65536^4, (2^62+1) + (2^62+1)), which is where derived bounds go wrong
			far := gen.FarLen(t)
			notNull := rapid.Bool().Draw(t, "farnotnull")
			for i, a := range args {
				if a.St == spec.Known && a.T.IsColl() && len(a.Marks) == 0 && len(a.Elems) <= far {
					u := spec.UnknownOf(a.T)
					hi := far
					u.Ref = &spec.Ref{MaxLen: &hi}
					if notNull {
						u.Ref.Null = "notnull"
					}
					weak[i] = u
					kinds = append(kinds, "farlen")
				}
			}
			if len(kinds) > 0 {
				return Case{Fn: e.Name, Args: args, Weak: weak, Kinds: dedup(kinds)}
			}
		}
		if len(args) > 0 {
			// always weaken at least one argument; the others with probability 1/3
			must := rapid.IntRange(0, len(args)-1).Draw(t, "must")
			for i, a := range args {
				if i != must && rapid.IntRange(0, 2).Draw(t, "also") != 0 {
					continue
				}
				for try := 0; try < 4; try++ {
					w, ks := gen.Weaken(t, a, false)
					if len(ks) > 0 || try == 3 {
						weak[i] = w
						for _, k := range ks {
							kinds = append(kinds, strings.SplitN(k, "-", 2)[0])
						}
						break
					}
				}
			}
		}
		return Case{Fn: e.Name, Args: args, Weak: weak, Kinds: dedup(kinds)}
	}
}

func genConverse(es []stdreg.Entry) func(t *rapid.T) Case {
	return func(t *rapid.T) Case {
		e := stdreg.Pick(t, es)
		args := e.Args(t)
		if rapid.IntRange(0, 2).Draw(t, "pristine") > 0 {
			return Case{Fn: e.Name, Args: args}
		}
		edited, labels := stdreg.Inject(t, e, args, stdreg.InjectOpts{KnownOnly: true, Min: 1, Max: 2})
		return Case{Fn: e.Name, Args: edited, Kinds: labels}
	}
}

func dedup(ss []string) []string {
	seen := map[string]bool{}
	var out []string
	for _, s := range ss {
		if !seen[s] {
			seen[s] = true
			out = append(out, s)
		}
	}
	return out
}

func names(es []stdreg.Entry) string {
	ns := make([]string, len(es))
	for i, e := range es {
		ns[i] = e.Name
	}
	return strings.Join(ns, " ")
}

func entriesOf(fams ...string) []stdreg.Entry {
	var out []stdreg.Entry
	for _, f := range fams {
		es := stdreg.Family(f)
		if len(es) == 0 {
			panic("c12: empty family " + f)
		}
		out = append(out, es...)
	}
	return out
}

func init() {
	type part struct {
		name string
		es   []stdreg.Entry
	}
	var parts []part
	for _, fam := range stdreg.Families() {
		es := stdreg.Family(fam)
		if len(es) > 12 {
			// keep the per-function label table (fn=/nt=/cf=) readable
			h := (len(es) + 1) / 2
			parts = append(parts, part{fam + "-1", es[:h]}, part{fam + "-2", es[h:]})
		} else {
			parts = append(parts, part{fam, es})
		}
	}
	for _, p := range parts {
		es := p.es
		n := len(es)
		per := 5000
		if n <= 2 {
			per = 15000
		}
		facet.Register(facet.F[Case]{
			Prop: "C12", Name: "sound/" + p.name,
			Rule: "function drawn uniformly from {" + names(es) + "}; wholly-known in-domain arguments from the registry generator; one argument always, the others with probability 1/3, " +
				"weakened by gen.Weaken(allowDyn=false): any sub-value at any depth replaced by a typed unknown that admits it (unrefined; not-null; numeric bounds inclusive/exclusive incl. ties; " +
				"true string prefix; length bounds incl. empty witnesses; set members). Non-trivial: the concrete call succeeded and >= 1 part was weakened. " +
				"Labels fn= / nt= / cf= (concrete call failed) per function, weak=<kind>, out=<class of the weakened result>. Distinct = hash of the input JSON.",
			Quick: per * n, Thorough: per * n * 5 / 2, Shards: 4,
			Gen:   genSound(es),
			Check: checkSound,
		})
	}
	groups := []struct {
		name string
		fams []string
	}{
		{"collection", []string{"collection"}},
		{"setseq-conversion", []string{"set-sequence", "conversion"}},
		{"number", []string{"number"}},
		{"general", []string{"general"}},
		{"string", []string{"string"}},
		{"format-encoding", []string{"format", "encoding"}},
	}
	for _, g := range groups {
		es := entriesOf(g.fams...)
		n := len(es)
		facet.Register(facet.F[Case]{
			Prop: "C12", Name: "converse/" + g.name,
			Rule: "function drawn uniformly from {" + names(es) + "}; wholly-known unmarked arguments: the in-domain list, in 1 case of 3 with 1-2 known-preserving hostile edits. " +
				"Non-trivial: the call succeeded (then the result must be wholly known). Labels fn= / nt= per function (the difference is the number of failed calls). Distinct = hash of the input JSON.",
			Quick: 2500 * n, Thorough: 7500 * n, Shards: 4,
			Gen:   genConverse(es),
			Check: checkConverse,
		})
	}
}
