package c12

import (
	"encoding/json"
	"fmt"
	"os"
	"regexp"
	"sort"
	"testing"

	"pgregory.net/rapid"

	"verif/harness/facet"
	"verif/harness/stdreg"
)

var digits = regexp.MustCompile(`[0-9]+`)

// TestSurvey (development aid, VERIF_SURVEY=1): every function through both
// generators without stopping at failures; failures grouped by function and kind.
func TestSurvey(t *testing.T) {
	if os.Getenv("VERIF_SURVEY") == "" {
		t.Skip("set VERIF_SURVEY=1")
	}
	type group struct {
		n       int
		example string
		known   string
	}
	groups := map[string]*group{}
	type cnt struct{ n, cf, nt int }
	counts := map[string]*cnt{}
	for _, mode := range []string{"sound", "converse"} {
		for _, e := range stdreg.All() {
			es := []stdreg.Entry{e}
			g := genSound(es)
			chk := checkSound
			if mode == "converse" {
				g, chk = genConverse(es), checkConverse
			}
			cn := &cnt{}
			counts[mode+" "+e.Name] = cn
			rapid.Check(t, func(rt *rapid.T) {
				in := g(rt)
				c := &facet.Ctx{}
				var err error
				func() {
					defer func() {
						if r := recover(); r != nil {
							err = facet.Failf("harness-panic", "%v", r)
						}
					}()
					err = chk(c, in)
				}()
				cn.n++
				if err == nil {
					return
				}
				f := facet.AsFailure(err)
				raw, _ := json.Marshal(in)
				extra := f.Data["panic"] + f.Data["error"]
				key := fmt.Sprintf("%-9s %-22s %-24s %s", mode, in.Fn, f.Kind, digits.ReplaceAllString(short(extra), "N"))
				if len(key) > 200 {
					key = key[:200]
				}
				gr := groups[key]
				if gr == nil {
					gr = &group{example: f.Msg}
					if len(gr.example) > 1500 {
						gr.example = gr.example[:1500]
					}
					groups[key] = gr
				}
				if k := matchKnownForSurvey(raw, f); k != "" {
					gr.known = k
				} else if gr.known != "" {
					gr.known += "?"
				}
				gr.n++
			})
		}
	}
	keys := make([]string, 0, len(groups))
	for k := range groups {
		keys = append(keys, k)
	}
	sort.Strings(keys)
	for _, k := range keys {
		fmt.Printf("%5d  [%s] %s\n         e.g. %s\n", groups[k].n, groups[k].known, k, groups[k].example)
	}
	fmt.Printf("groups: %d\n", len(groups))
}
