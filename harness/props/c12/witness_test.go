package c12

import (
	"encoding/json"
	"fmt"
	"os"
	"path/filepath"
	"testing"

	"verif/harness/facet"
	"verif/harness/spec"
)

func i64(i int64) spec.V { return spec.KnownNum(spec.NInt(i)) }
func sv(s string) spec.V { return spec.KnownStr(s) }
func lst(et spec.T, es ...spec.V) spec.V {
	return spec.V{T: spec.List(et), St: spec.Known, Elems: es}
}
func set(et spec.T, es ...spec.V) spec.V {
	return spec.V{T: spec.Set(et), St: spec.Known, Elems: es}
}
func ip(i int) *int { return &i }

type witness struct {
	id, facet, pred string
	in              Case
}

var objA = spec.Object(spec.Attr{Name: "a", T: spec.String})
var tupNS = spec.Tuple(spec.Number, spec.String)

var witnesses = []witness{
	{"C12-setproduct-possibly-empty", "sound/collection-2", "c12SetProductPossiblyEmpty", Case{Fn: "setproduct",
		Args:  []spec.V{lst(spec.String, sv("a")), lst(spec.String)},
		Weak:  []spec.V{lst(spec.String, sv("a")), {T: spec.List(spec.String), St: spec.Unknown, Ref: &spec.Ref{MaxLen: ip(2)}}},
		Kinds: []string{"maxlen"}}},
	{"C12-reverselist-set-unknown-members", "sound/collection-2", "c12ReverseListSetUnknownMembers", Case{Fn: "reverselist",
		Args:  []spec.V{set(spec.Number, i64(1), i64(2), i64(3))},
		Weak:  []spec.V{set(spec.Number, i64(1), spec.UnknownOf(spec.Number), i64(3))},
		Kinds: []string{"unrefined"}}},
	{"C12-merge-null-object", "sound/collection-2", "c12MergeNullObject", Case{Fn: "merge",
		Args:  []spec.V{spec.NullOf(objA), {T: spec.Map(spec.String), St: spec.Known, Keys: []string{"k"}, Elems: []spec.V{sv("v")}}},
		Weak:  []spec.V{spec.UnknownOf(objA), {T: spec.Map(spec.String), St: spec.Known, Keys: []string{"k"}, Elems: []spec.V{sv("v")}}},
		Kinds: []string{"unrefined"}}},
	{"C12-formatlist-stale-iterators", "sound/format", "c12FormatListStaleIterators", Case{Fn: "formatlist",
		Args:  []spec.V{sv("%s%d"), lst(spec.String, sv("a"), sv("b")), lst(spec.Number, i64(1), i64(2))},
		Weak:  []spec.V{sv("%s%d"), lst(spec.String, spec.UnknownOf(spec.String), sv("b")), lst(spec.Number, i64(1), i64(2))},
		Kinds: []string{"unrefined"}}},
	{"C12-formatlist-null-tuple", "sound/format", "c12FormatListNullTuple", Case{Fn: "formatlist",
		Args:  []spec.V{sv("%v%d"), spec.NullOf(tupNS), lst(spec.Number)},
		Weak:  []spec.V{sv("%v%d"), spec.UnknownOf(tupNS), lst(spec.Number)},
		Kinds: []string{"unrefined"}}},
	{"C12-slice-unknown-exact-length", "sound/collection-2", "c12SliceUnknownExactLength", Case{Fn: "slice",
		Args:  []spec.V{lst(spec.String, sv("a")), i64(0), i64(1)},
		Weak:  []spec.V{{T: spec.List(spec.String), St: spec.Unknown, Ref: &spec.Ref{MinLen: ip(1), MaxLen: ip(1)}}, i64(0), i64(1)},
		Kinds: []string{"minlen", "maxlen"}}},
	{"C12-tolist-set-unknown-member", "sound/conversion", "c12ToListSetUnknownMember", Case{Fn: "to/list-of-string",
		Args:  []spec.V{set(spec.Number, i64(1), i64(2))},
		Weak:  []spec.V{set(spec.Number, i64(1), spec.UnknownOf(spec.Number))},
		Kinds: []string{"unrefined"}}},
}

// TestWitnesses (development aid, VERIF_WITNESS=<dir>) writes the witness
// replay files of the known findings and checks that each fails and is
// recognised by its own predicate and by no other.
func TestWitnesses(t *testing.T) {
	dir := os.Getenv("VERIF_WITNESS")
	if dir == "" {
		t.Skip("set VERIF_WITNESS=<dir>")
	}
	for _, w := range witnesses {
		c := &facet.Ctx{}
		err := checkSound(c, w.in)
		if err == nil {
			t.Errorf("%s: witness does not fail", w.id)
			continue
		}
		f := facet.AsFailure(err)
		raw, _ := json.Marshal(w.in)
		for name, p := range knownPreds {
			if got := p(w.facet, raw, f); got != (name == w.pred) {
				t.Errorf("%s: predicate %s = %t (failure %s)", w.id, name, got, f.Kind)
			}
		}
		rec := facet.FailRecord{Property: "C12", Facet: w.facet, Failure: f, Input: raw}
		b, _ := json.MarshalIndent(rec, "", " ")
		if err := os.WriteFile(filepath.Join(dir, w.id+".json"), b, 0o644); err != nil {
			t.Fatal(err)
		}
		fmt.Printf("%s  %s :: %s\n", w.id, f.Kind, short(f.Msg))
	}
}

// regressions are passing cases kept as regression replays (replay/C12): the
// nearest well-behaved neighbours of the known findings.
var regressions = []struct {
	name, facet string
	in          Case
}{
	{"setproduct-nonempty-unknown", "sound/collection-2", Case{Fn: "setproduct",
		Args:  []spec.V{lst(spec.String, sv("a")), lst(spec.String, sv("b"))},
		Weak:  []spec.V{lst(spec.String, sv("a")), {T: spec.List(spec.String), St: spec.Unknown, Ref: &spec.Ref{MinLen: ip(1), MaxLen: ip(2)}}},
		Kinds: []string{"minlen", "maxlen"}}},
	{"reverselist-list-unknown-members", "sound/collection-2", Case{Fn: "reverselist",
		Args:  []spec.V{lst(spec.Number, i64(1), i64(2), i64(3))},
		Weak:  []spec.V{lst(spec.Number, i64(1), spec.UnknownOf(spec.Number), i64(3))},
		Kinds: []string{"unrefined"}}},
	{"merge-unknown-map", "sound/collection-2", Case{Fn: "merge",
		Args:  []spec.V{{T: spec.Map(spec.String), St: spec.Known, Keys: []string{"k"}, Elems: []spec.V{sv("v")}}},
		Weak:  []spec.V{spec.UnknownOf(spec.Map(spec.String))},
		Kinds: []string{"unrefined"}}},
	{"formatlist-unknown-last-sequence", "sound/format", Case{Fn: "formatlist",
		Args:  []spec.V{sv("%s%d"), lst(spec.String, sv("a"), sv("b")), lst(spec.Number, i64(1), i64(2))},
		Weak:  []spec.V{sv("%s%d"), lst(spec.String, sv("a"), sv("b")), lst(spec.Number, spec.UnknownOf(spec.Number), i64(2))},
		Kinds: []string{"unrefined"}}},
	{"strlen-prefix", "sound/string-1", Case{Fn: "strlen",
		Args:  []spec.V{sv("e\u0301x")},
		Weak:  []spec.V{{T: spec.String, St: spec.Unknown, Ref: &spec.Ref{Null: "notnull", Prefix: sp("\u00e9"), PrefixFull: true}}},
		Kinds: []string{"prefix"}}},
	{"jsondecode-prefix-null", "sound/encoding", Case{Fn: "jsondecode",
		Args:  []spec.V{sv("null")},
		Weak:  []spec.V{{T: spec.String, St: spec.Unknown, Ref: &spec.Ref{Prefix: sp("nu"), PrefixFull: true}}},
		Kinds: []string{"prefix"}}},
	{"jsonencode-nullable-unknown", "sound/encoding", Case{Fn: "jsonencode",
		Args:  []spec.V{spec.NullOf(spec.String)},
		Weak:  []spec.V{spec.UnknownOf(spec.String)},
		Kinds: []string{"unrefined"}}},
}

func sp(s string) *string { return &s }

// TestRegressions (development aid, VERIF_REGRESS=<dir>) writes the regression replays.
func TestRegressions(t *testing.T) {
	dir := os.Getenv("VERIF_REGRESS")
	if dir == "" {
		t.Skip("set VERIF_REGRESS=<dir>")
	}
	for _, r := range regressions {
		c := &facet.Ctx{}
		if err := checkSound(c, r.in); err != nil {
			t.Errorf("%s: regression case fails: %v", r.name, err)
			continue
		}
		raw, _ := json.Marshal(r.in)
		rec := facet.FailRecord{Property: "C12", Facet: r.facet, Input: raw}
		b, _ := json.MarshalIndent(rec, "", " ")
		if err := os.WriteFile(filepath.Join(dir, r.name+".json"), b, 0o644); err != nil {
			t.Fatal(err)
		}
	}
}
