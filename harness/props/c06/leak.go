package c06

import (
	"fmt"

	"github.com/zclconf/go-cty/cty"
	"github.com/zclconf/go-cty/cty/convert"
	"pgregory.net/rapid"

	"verif/harness/convgen"
	"verif/harness/facet"
	"verif/harness/spec"
)

// out/convert-optional-leak: conversions whose TARGET is dense in
// optional-attribute annotations (optional attributes whose own types again
// hold objects with optional attributes, below lists, sets, maps and tuples)
// and whose INPUT reaches the places where the conversion code does not build
// the result from converted members but from a type: null, unknown, empty
// collections, sets of unknown length (a known set holding an unknown member),
// members of the placeholder type, and element types whose shape does not match
// the target's (an empty object where a map is wanted ...). The clause decided
// is "no value's type carries optional-attribute annotations".

func optObj(depth int, t *rapid.T) spec.T {
	inner := spec.String
	if depth > 0 {
		switch rapid.IntRange(0, 4).Draw(t, "inner") {
		case 0:
			inner = optObj(depth-1, t)
		case 1:
			e := optObj(depth-1, t)
			inner = spec.List(e)
		case 2:
			e := optObj(depth-1, t)
			inner = spec.Map(e)
		case 3:
			inner = spec.Tuple(optObj(depth-1, t))
		default:
			inner = spec.Dynamic
		}
	}
	as := []spec.Attr{{Name: "o", T: inner, Opt: true}}
	if rapid.Bool().Draw(t, "req") {
		as = append(as, spec.Attr{Name: "a", T: spec.String, Opt: rapid.Bool().Draw(t, "aopt")})
	}
	if rapid.IntRange(0, 3).Draw(t, "name") == 0 {
		as = append(as, spec.Attr{Name: "name", T: spec.Dynamic, Opt: true})
	}
	return spec.Object(as...)
}

// leakTargetElem draws an element type dense in optional attributes.
func leakTargetElem(t *rapid.T) spec.T {
	o := optObj(rapid.IntRange(0, 2).Draw(t, "odepth"), t)
	switch rapid.IntRange(0, 5).Draw(t, "wrap") {
	case 0:
		return spec.Map(o)
	case 1:
		return spec.List(o)
	case 2:
		return spec.Tuple(o)
	case 3:
		return spec.Set(o)
	default:
		return o
	}
}

var leakSrcElems = []spec.T{
	spec.Object(), spec.Object(spec.Attr{Name: "a", T: spec.String}), spec.Dynamic, spec.Map(spec.String), spec.Tuple(),
	spec.Object(spec.Attr{Name: "o", T: spec.Object()}), spec.Object(spec.Attr{Name: "o", T: spec.Map(spec.String)}), spec.List(spec.Object()),
	spec.Map(spec.Object()), spec.Tuple(spec.Object()), spec.String,
}

// leakMember draws a member of type et: known (canonical), null or unknown.
func leakMember(t *rapid.T, et spec.T, label string) spec.V {
	switch rapid.IntRange(0, 3).Draw(t, label) {
	case 0:
		return spec.NullOf(et)
	case 1:
		u := spec.UnknownOf(et)
		if et.K != spec.KDynamic && rapid.Bool().Draw(t, label+"/nn") {
			u.Ref = &spec.Ref{Null: "notnull"}
		}
		return u
	}
	return leakKnown(et)
}

func leakKnown(et spec.T) spec.V {
	switch et.K {
	case spec.KString:
		return spec.KnownStr("s")
	case spec.KDynamic:
		return spec.NullOf(spec.Dynamic)
	case spec.KList, spec.KSet, spec.KMap:
		return spec.V{T: et, St: spec.Known}
	case spec.KTuple:
		v := spec.V{T: et, St: spec.Known}
		for _, e := range et.Elems {
			v.Elems = append(v.Elems, leakKnown(e))
		}
		return v
	case spec.KObject:
		v := spec.V{T: et, St: spec.Known}
		for _, a := range et.Attrs {
			v.Keys = append(v.Keys, a.Name)
			v.Elems = append(v.Elems, leakKnown(a.T))
		}
		return v
	}
	return spec.NullOf(et)
}

func genLeak(t *rapid.T) convgen.Case {
	te := leakTargetElem(t)
	se := rapid.SampledFrom(leakSrcElems).Draw(t, "srcelem")
	var v spec.V
	var target spec.T
	shape := rapid.SampledFrom([]string{"set>list/unknown-length", "set>list/unknown-length", "set>set", "list>list", "list>set", "empty", "null", "unknown", "tuple>list", "tuple>set", "map>map", "object>map", "single"}).Draw(t, "shape")
	members := func(n int) []spec.V {
		var ms []spec.V
		for i := 0; i < n; i++ {
			ms = append(ms, leakMember(t, se, fmt.Sprintf("m%d", i)))
		}
		return ms
	}
	switch shape {
	case "set>list/unknown-length":
		ms := members(rapid.IntRange(1, 2).Draw(t, "n"))
		ms = append(ms, spec.UnknownOf(se)) // at least one unknown member: the set's length is unknown
		v, target = spec.V{T: spec.Set(se), St: spec.Known, Elems: ms}, spec.List(te)
	case "set>set":
		v, target = spec.V{T: spec.Set(se), St: spec.Known, Elems: members(rapid.IntRange(0, 2).Draw(t, "n"))}, spec.Set(te)
	case "list>list":
		v, target = spec.V{T: spec.List(se), St: spec.Known, Elems: members(rapid.IntRange(0, 2).Draw(t, "n"))}, spec.List(te)
	case "list>set":
		v, target = spec.V{T: spec.List(se), St: spec.Known, Elems: members(rapid.IntRange(0, 2).Draw(t, "n"))}, spec.Set(te)
	case "empty":
		k := rapid.SampledFrom([]string{spec.KList, spec.KSet, spec.KMap}).Draw(t, "ekind")
		e := se
		v = spec.V{T: spec.T{K: k, E: &e}, St: spec.Known}
		k2 := rapid.SampledFrom([]string{spec.KList, spec.KSet, spec.KMap}).Draw(t, "ekind2")
		if k == spec.KMap || k2 == spec.KMap {
			k2 = k
		}
		e2 := te
		target = spec.T{K: k2, E: &e2}
	case "null", "unknown":
		st := rapid.SampledFrom([]spec.T{spec.List(se), spec.Set(se), spec.Map(se), spec.Tuple(se, se), spec.Object(spec.Attr{Name: "k", T: se}), se, spec.Dynamic}).Draw(t, "srctype")
		if shape == "null" {
			v = spec.NullOf(st)
		} else {
			v = spec.UnknownOf(st)
		}
		target = rapid.SampledFrom([]spec.T{spec.List(te), spec.Set(te), spec.Map(te), te, spec.Tuple(te, te), spec.Object(spec.Attr{Name: "k", T: te}, spec.Attr{Name: "z", T: te, Opt: true})}).Draw(t, "tgt")
	case "tuple>list", "tuple>set":
		ms := members(rapid.IntRange(0, 3).Draw(t, "n"))
		v = spec.V{T: spec.Tuple(), St: spec.Known, Elems: ms}.Retype()
		if shape == "tuple>list" {
			target = spec.List(te)
		} else {
			target = spec.Set(te)
		}
	case "map>map":
		ms := members(rapid.IntRange(0, 2).Draw(t, "n"))
		v = spec.V{T: spec.Map(se), St: spec.Known, Elems: ms, Keys: []string{"k", "l"}[:len(ms)]}
		target = spec.Map(te)
	case "object>map":
		ms := members(rapid.IntRange(0, 2).Draw(t, "n"))
		v = spec.V{T: spec.Object(), St: spec.Known, Elems: ms, Keys: []string{"k", "l"}[:len(ms)]}.Retype()
		target = spec.Map(te)
	default:
		v, target = leakMember(t, se, "single"), te
	}
	if rapid.IntRange(0, 3).Draw(t, "nest") == 0 {
		// the same one level down, as an attribute of an object
		v = spec.V{T: spec.Object(), St: spec.Known, Keys: []string{"w"}, Elems: []spec.V{v}}.Retype()
		target = spec.Object(spec.Attr{Name: "w", T: target}, spec.Attr{Name: "x", T: te, Opt: true})
	}
	return convgen.Case{V: v, Target: target, Edits: []string{shape, "src=" + se.String()}}
}

func init() {
	facet.Register(facet.F[convgen.Case]{
		Prop: "C06", Name: "out/convert-optional-leak", Quick: 60000, Thorough: 400000, Shards: 4,
		Rule: "conversion requests built to reach the type-driven result paths: the target element type is dense in optional attributes (optional attributes whose types are objects with optional attributes, below lists, maps, sets and tuples, and placeholder-typed optional attributes); the input is a set of unknown length, an empty collection, a null, an unknown, or a collection/tuple/map/object of null, unknown and minimal known members, of 11 source element types (empty object, object, placeholder, map, tuple, string, nested forms: shapes that match the target and shapes that do not), optionally one level down inside an object; every successful result of Convert and of the conversion returned by GetConversionUnsafe must be well-formed (in particular: no optional-attribute annotation anywhere in its type); non-trivial = the conversion succeeded; distinct = hash of the input JSON",
		Gen:  genLeak,
		Check: func(c *facet.Ctx, in convgen.Case) error {
			v, err := spec.Build(in.V)
			if err != nil {
				c.Skip()
				return nil
			}
			for _, e := range in.Edits {
				c.Label(e)
			}
			ty := in.Target.Cty()
			ok := false
			for _, via := range []string{"Convert", "GetConversionUnsafe"} {
				var got cty.Value
				var cerr error
				func() {
					defer func() {
						if r := recover(); r != nil {
							cerr = fmt.Errorf("panic: %v", r) // panics are C08's business
						}
					}()
					if via == "Convert" {
						got, cerr = convert.Convert(v, ty)
						return
					}
					conv := convert.GetConversionUnsafe(v.Type(), ty)
					if conv == nil {
						cerr = fmt.Errorf("not offered")
						return
					}
					got, cerr = conv(v)
				}()
				if cerr != nil {
					continue
				}
				ok = true
				if err := wfAll(c, fmt.Sprintf("%s(%#v, %s)", via, v, in.Target), got); err != nil {
					return err
				}
			}
			if !ok {
				c.Label("no-conversion")
				c.Skip()
				return nil
			}
			c.NonTrivial()
			return nil
		},
	})
}
