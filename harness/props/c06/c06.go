// Package c06: every value the library returns is well-formed for its type.
//
// Each facet drives one family of value-producing API calls with generated
// arguments and runs the validity predicate wf.Check (public-API walk plus the
// tag-guarded cty.VerifWellFormed hook) over every value that comes back.
package c06

import (
	"fmt"
	"math"
	"math/big"
	"strings"

	"github.com/zclconf/go-cty/cty"
	"github.com/zclconf/go-cty/cty/convert"
	"github.com/zclconf/go-cty/cty/gocty"
	ctyjson "github.com/zclconf/go-cty/cty/json"
	"github.com/zclconf/go-cty/cty/msgpack"
	"pgregory.net/rapid"

	"verif/harness/codecgen"
	"verif/harness/convgen"
	"verif/harness/facet"
	"verif/harness/gen"
	"verif/harness/ops"
	"verif/harness/spec"
	"verif/harness/stdreg"
	"verif/harness/wf"
)

func interesting(v cty.Value) bool {
	u, _ := v.UnmarkDeep()
	if v.ContainsMarked() || !u.IsWhollyKnown() {
		return true
	}
	if u.IsNull() {
		return true
	}
	depth := 0
	var rec func(x cty.Value, d int)
	nullInside := false
	emptyCompound := false
	rec = func(x cty.Value, d int) {
		if d > depth {
			depth = d
		}
		if x.IsNull() {
			nullInside = true
			return
		}
		if !x.IsKnown() || !x.CanIterateElements() {
			return
		}
		if x.Type().IsCollectionType() && x.LengthInt() == 0 && !x.Type().ElementType().IsPrimitiveType() {
			emptyCompound = true
		}
		for it := x.ElementIterator(); it.Next(); {
			_, e := it.Element()
			rec(e, d+1)
		}
	}
	rec(u, 0)
	return depth >= 2 || nullInside || emptyCompound
}

func wfAll(c *facet.Ctx, api string, vs ...cty.Value) error {
	for _, v := range vs {
		if interesting(v) {
			c.NonTrivial()
		}
		if f := wf.Check(v); f != nil {
			f.Msg = fmt.Sprintf("value returned by %s is malformed: %s\n  value: %#v", api, f.Msg, v)
			return f.With("api", api)
		}
	}
	return nil
}

const ntRule = "non-trivial = a checked value has nesting depth >= 2, or contains a null / unknown / marked member, or an empty collection of compound element type; distinct = hash of the input JSON"

// UnifyIn is the input of out/unify.
type UnifyIn struct {
	Types  []spec.T `json:"types"`
	Vals   []spec.V `json:"vals"`
	Unsafe bool     `json:"unsafe"`
}

// WrapIn is the input of out/decoder-wrappers.
type WrapIn struct {
	Target  spec.T   `json:"target"`
	Desc    spec.T   `json:"desc"`
	JSON    string   `json:"json"`
	Msgpack []byte   `json:"msgpack"`
	Labels  []string `json:"labels,omitempty"`
}

// TransformIn is the input of out/transform.
type TransformIn struct {
	V       spec.V `json:"v"`
	Replace int    `json:"replace"` // visit index whose value is replaced by a null / unknown of its type
	Mode    int    `json:"mode"`
}

// GoIn is the input of out/gocty.
type GoIn struct {
	Kind int      `json:"kind"`
	Ints []int64  `json:"ints"`
	Strs []string `json:"strs"`
	Nil  bool     `json:"nil"`
}

type goStruct struct {
	Name  string            `cty:"name"`
	Count *int              `cty:"count"`
	Tags  map[string]string `cty:"tags"`
	List  []float64         `cty:"list"`
	Dyn   cty.Value         `cty:"dyn"`
}

func init() {
	valOpts := gen.ValOpts{Null: true, Unknown: true, Marks: true}

	facet.Register(facet.F[spec.V]{
		Prop: "C06", Name: "ctor/all", Quick: 60000, Thorough: 600000, Shards: 4,
		Rule: "a value specification of any kind (depth <= 3; nulls, refined unknowns, DynamicVal, marks at every depth, capsules, NFC-changing strings/keys/attribute names) built through the public constructors (BoolVal ... ObjectVal, SetVal, NullVal, UnknownVal + Refine().NewValue(), Mark); then UnmarkDeep, UnknownAsNull and a rebuild through AsValueSlice/AsValueMap; " + ntRule,
		Gen: func(t *rapid.T) spec.V {
			if rapid.IntRange(0, 27).Draw(t, "tieset") == 14 {
				// a set of numbers in which one real number is held at two
				// precisions (a float64 and the same value held at 64 bits): the
				// two have different shortest decimal texts, so they are either two
				// members or one - never two members the library itself calls equal
				v := spec.V{T: spec.Set(spec.Number), St: spec.Known}
				fs := rapid.Permutation([]float64{0.1, 0.2, 0.3, 1e-7, -0.1, 2.675, 1.1}).Draw(t, "tiefloats")
				for _, f := range fs[:rapid.IntRange(1, 2).Draw(t, "nties")] {
					exact := strings.TrimRight(new(big.Float).SetFloat64(f).Text('f', 1100), "0")
					v.Elems = append(v.Elems, spec.KnownNum(spec.NFloat(f)), spec.KnownNum(spec.Num{Route: "big", Text: exact, Prec: 64}))
				}
				if rapid.Bool().Draw(t, "nested") {
					return spec.V{T: spec.T{K: spec.KTuple}, St: spec.Known, Elems: []spec.V{v, spec.KnownStr("k")}}.Retype()
				}
				return v
			}
			if rapid.IntRange(0, 11).Draw(t, "capsuleset") == 6 {
				// a set of values of a capsule type without a hash key: all its
				// members share one hash bucket
				return gen.Value(spec.Set(spec.CapsuleT("A")), gen.ValOpts{MaxElems: 4, RootKnown: true}).Draw(t, "capset")
			}
			return gen.AnyValue(gen.TypeOpts{Depth: 3, Dynamic: true, Capsule: true}, valOpts).Draw(t, "v")
		},
		Check: func(c *facet.Ctx, in spec.V) error {
			v, err := spec.Build(in)
			if err != nil {
				return facet.Failf("harness-build", "%v", err)
			}
			if err := wfAll(c, "constructors", v); err != nil {
				return err
			}
			u, _ := v.UnmarkDeep()
			if err := wfAll(c, "UnmarkDeep", u); err != nil {
				return err
			}
			if err := wfAll(c, "UnknownAsNull", cty.UnknownAsNull(u)); err != nil {
				return err
			}
			// marking an already marked value, by any of the marking APIs, must still give a single layer
			other := cty.StringVal("o").Mark(spec.Mark("w"))
			if err := wfAll(c, "Mark / WithMarks / WithSameMarks / MarkWithPaths on a possibly marked value",
				v.Mark(spec.Mark("x")).Mark(spec.Mark("y")),
				v.WithMarks(cty.NewValueMarks(spec.Mark("z"))).Mark(spec.Mark("z")),
				v.WithSameMarks(other), v.WithSameMarks(v), v.WithSameMarks(other, v).WithSameMarks(u),
				v.Mark(spec.Mark("x")).WithMarks(cty.NewValueMarks(spec.Mark("y")), cty.NewValueMarks(spec.Mark("x"))),
				v.MarkWithPaths([]cty.PathValueMarks{{Path: cty.Path{}, Marks: cty.NewValueMarks(spec.Mark("p"))}}),
			); err != nil {
				return err
			}
			// a set and the same set built from its members in reverse order are one
			// value: a set of the two - through the constructor, through a ValueSet and
			// through list-to-set conversion - holds a single member
			if in.T.K == spec.KSet && in.St == spec.Known && len(in.Elems) >= 2 && in.WhollyKnown() && !in.HasMarks() {
				twin := in.Clone()
				for i, j := 0, len(twin.Elems)-1; i < j; i, j = i+1, j-1 {
					twin.Elems[i], twin.Elems[j] = twin.Elems[j], twin.Elems[i]
				}
				if tv, err := spec.Build(twin); err == nil {
					c.Label("set-of-permuted-twins")
					var outs []cty.Value
					guardedPanic(func() { outs = append(outs, cty.SetVal([]cty.Value{v, tv}), cty.SetVal([]cty.Value{tv, v})) })
					guardedPanic(func() {
						vs := cty.NewValueSet(v.Type())
						vs.Add(v)
						vs.Add(tv)
						outs = append(outs, cty.SetValFromValueSet(vs))
					})
					guardedPanic(func() {
						if r, err := convert.Convert(cty.ListVal([]cty.Value{v, tv, v}), cty.Set(v.Type())); err == nil {
							outs = append(outs, r)
						}
					})
					if err := wfAll(c, "a set built from a set value and its permuted twin", outs...); err != nil {
						return err
					}
				}
			}
			// the marking APIs given empty mark sets (nil, empty literal, the empty
			// set UnmarkDeep returns for an unmarked value, NewValueMarks()) must
			// return a value that is not marked at all (IsMarked: "at least one mark")
			_, noMarks := u.UnmarkDeep()
			_, noMarksShallow := u.Unmark()
			if err := wfAll(c, "WithMarks / WithSameMarks / MarkWithPaths with empty mark sets",
				u.WithMarks(cty.ValueMarks{}), u.WithMarks(make(cty.ValueMarks, 4)), u.WithMarks(nil), u.WithMarks(noMarks), u.WithMarks(noMarksShallow),
				u.WithMarks(cty.NewValueMarks()), u.WithMarks(cty.ValueMarks{}, nil), u.WithMarks(noMarks, cty.ValueMarks{}, noMarksShallow),
				v.WithMarks(cty.ValueMarks{}), v.WithMarks(noMarks), u.WithSameMarks(u), u.WithSameMarks(), u.WithSameMarks(u, u),
				u.MarkWithPaths(nil), u.MarkWithPaths([]cty.PathValueMarks{{Path: cty.Path{}, Marks: cty.ValueMarks{}}}),
				u.MarkWithPaths([]cty.PathValueMarks{{Path: cty.Path{}, Marks: noMarks}}),
			); err != nil {
				return err
			}
			// the ValueSet routes into a set, fed with the members of a list as they
			// are (only the list's own marks removed: members may carry marks
			// nested inside them): refused (panic) or a well-formed set
			if sh, _ := v.Unmark(); sh.IsKnown() && !sh.IsNull() && sh.Type().IsListType() && sh.LengthInt() > 0 {
				ety := sh.Type().ElementType()
				for _, route := range []string{"ValueSet.Add", "AsValueSet", "Union"} {
					var set cty.Value
					var extra []cty.Value
					refused := false
					func() {
						defer func() {
							if recover() != nil {
								refused = true
							}
						}()
						switch route {
						case "ValueSet.Add":
							vs := cty.NewValueSet(ety)
							for _, m := range sh.AsValueSlice() {
								vs.Add(m)
							}
							set = cty.SetValFromValueSet(vs)
							// the builder goes on being used: members are taken out
							// of it and of a copy of it, in the middle of buckets too;
							// the set values made from it on the way are checked below
							cp := vs.Copy()
							early := []cty.Value{cty.SetValFromValueSet(cp)}
							for i, m := range sh.AsValueSlice() {
								if i%2 == 0 {
									vs.Remove(m)
									early = append(early, cty.SetValFromValueSet(vs.Copy()))
								}
							}
							extra = append(extra, early...)
							extra = append(extra, cty.SetValFromValueSet(cp), cty.SetValFromValueSet(vs))
						case "AsValueSet":
							set = cty.SetValFromValueSet(sh.AsValueSet())
						default:
							a, b := cty.NewValueSet(ety), cty.NewValueSet(ety)
							for i, m := range sh.AsValueSlice() {
								if i%2 == 0 {
									a.Add(m)
								} else {
									b.Add(m)
								}
							}
							set = cty.SetValFromValueSet(a.Union(b))
						}
					}()
					if refused {
						c.Label("valueset-route-refused")
						continue
					}
					if sh.ContainsMarked() {
						c.Label("valueset-route-with-nested-marks")
					}
					if err := wfAll(c, "SetValFromValueSet via "+route+" over the members of "+fmt.Sprintf("%#v", sh), set); err != nil {
						return err
					}
					if err := wfAll(c, "SetValFromValueSet of a ValueSet (or a copy of it) that members were removed from, over the members of "+fmt.Sprintf("%#v", sh), extra...); err != nil {
						return err
					}
				}
			}
			// rebuild collections from their own accessors
			if u.IsKnown() && !u.IsNull() {
				ty := u.Type()
				var rebuilt cty.Value
				ok := true
				func() {
					defer func() {
						if recover() != nil {
							ok = false
						}
					}()
					switch {
					case ty.IsListType() && u.LengthInt() > 0:
						rebuilt = cty.ListVal(u.AsValueSlice())
					case ty.IsSetType() && u.LengthInt() > 0:
						rebuilt = cty.SetVal(u.AsValueSlice())
					case ty.IsTupleType():
						rebuilt = cty.TupleVal(u.AsValueSlice())
					case ty.IsMapType() && u.LengthInt() > 0:
						rebuilt = cty.MapVal(u.AsValueMap())
					case ty.IsObjectType():
						rebuilt = cty.ObjectVal(u.AsValueMap())
					default:
						ok = false
					}
				}()
				if ok {
					if err := wfAll(c, "constructor(accessor(v))", rebuilt); err != nil {
						return err
					}
				}
			}
			return nil
		},
	})

	facet.Register(facet.F[CollideIn]{
		Prop: "C06", Name: "ctor/colliding-sets", Quick: 40000, Thorough: 400000, Shards: 4,
		Rule: "2..6 set members drawn from a collision pool (the same number through different routes and precisions incl. whole numbers beyond 2^53 and 2^64, NFC-equal strings, tuples of those, nulls, unknowns), built with SetVal and through ValueSet Add/Union + SetValFromValueSet; the set must hold no two equal members and satisfy every other well-formedness rule; non-trivial = at least two members are equal by the documented equality but differently constructed",
		Gen: func(t *rapid.T) CollideIn {
			in := CollideIn{Kind: rapid.IntRange(0, 2).Draw(t, "kind"), Via: rapid.IntRange(0, 2).Draw(t, "via")}
			n := rapid.IntRange(2, 6).Draw(t, "n")
			for i := 0; i < n; i++ {
				in.Picks = append(in.Picks, rapid.IntRange(0, 63).Draw(t, "pick"))
			}
			return in
		},
		Check: func(c *facet.Ctx, in CollideIn) error {
			pool := collidePool(in.Kind)
			var members []cty.Value
			seenText := map[string]int{}
			for _, p := range in.Picks {
				m := pool[p%len(pool)]
				members = append(members, m.v)
				seenText[m.class]++
			}
			for _, n := range seenText {
				if n >= 2 {
					c.NonTrivial()
				}
			}
			var set cty.Value
			if guardedPanic(func() {
				switch in.Via {
				case 0:
					set = cty.SetVal(members)
				case 1:
					vs := cty.NewValueSet(members[0].Type())
					for _, m := range members {
						vs.Add(m)
					}
					set = cty.SetValFromValueSet(vs)
				default:
					a, b := cty.NewValueSet(members[0].Type()), cty.NewValueSet(members[0].Type())
					for i, m := range members {
						if i%2 == 0 {
							a.Add(m)
						} else {
							b.Add(m)
						}
					}
					set = cty.SetValFromValueSet(a.Union(b))
				}
			}) {
				return facet.Failf("ctor-panic", "building a set from %#v panicked", members)
			}
			return wfAll(c, fmt.Sprintf("set constructor (route %d) over %#v", in.Via, members), set)
		},
	})

	facet.Register(facet.F[KeysIn]{
		Prop: "C06", Name: "ctor/colliding-keys", Quick: 30000, Thorough: 300000, Shards: 4,
		Rule: "ObjectVal / MapVal / cty.Object called with Go maps whose keys collide after NFC normalisation (precomposed vs decomposed, compatibility singleton, Hangul jamo vs syllable), the colliding entries holding values of different types for objects; whichever entry wins, the result must be well-formed (attribute types match payloads, names normalised). Every case is non-trivial when at least two keys collide",
		Gen: func(t *rapid.T) KeysIn {
			in := KeysIn{Map: rapid.Bool().Draw(t, "map")}
			groups := [][]string{{"\u00e9", "e\u0301"}, {"\u00c5", "A\u030a", "\u212b"}, {"\uac00", "\u1100\u1161"}, {"plain"}, {"other"}}
			n := rapid.IntRange(2, 5).Draw(t, "n")
			for i := 0; i < n; i++ {
				g := rapid.SampledFrom(groups).Draw(t, "group")
				in.Keys = append(in.Keys, rapid.SampledFrom(g).Draw(t, "key"))
				in.Kinds = append(in.Kinds, rapid.IntRange(0, 3).Draw(t, "kind"))
			}
			return in
		},
		Check: func(c *facet.Ctx, in KeysIn) error {
			vals := []cty.Value{cty.StringVal("s"), cty.NumberIntVal(7), cty.True, cty.ListVal([]cty.Value{cty.StringVal("l")})}
			m := map[string]cty.Value{}
			seen := map[string]int{}
			for i, k := range in.Keys {
				v := vals[in.Kinds[i]%len(vals)]
				if in.Map {
					v = cty.NumberIntVal(int64(i))
				}
				m[k] = v
				seen[spec.NFC(k)]++
			}
			if len(m) > len(seen) {
				c.NonTrivial()
			}
			var got cty.Value
			if guardedPanic(func() {
				if in.Map {
					got = cty.MapVal(m)
				} else {
					got = cty.ObjectVal(m)
				}
			}) {
				return facet.Failf("ctor-panic", "constructor panicked for keys %q", in.Keys)
			}
			if err := wfAll(c, fmt.Sprintf("ObjectVal/MapVal with keys %q", in.Keys), got); err != nil {
				return err
			}
			// every accessor must agree with the type
			if !in.Map {
				for name, aty := range got.Type().AttributeTypes() {
					var av cty.Value
					if guardedPanic(func() { av = got.GetAttr(name) }) {
						return facet.Failf("wf/accessor-panic", "GetAttr(%q) panicked on %#v", name, got)
					}
					if !av.Type().Equals(aty) {
						return facet.Failf("wf/elemtype", "attribute %q is declared %#v but GetAttr returns a %#v", name, aty, av.Type())
					}
					if guardedPanic(func() { _ = fmt.Sprintf("%#v", av); _ = av.RawEquals(av) }) {
						return facet.Failf("wf/accessor-panic", "attribute %q of %#v cannot be printed/compared", name, got.Type())
					}
				}
			}
			return nil
		},
	})

	facet.Register(facet.F[wrappedCase]{
		Prop: "C06", Name: "ambient/ops", Quick: 80000, Thorough: 800000, Shards: 4,
		Rule: "an operation-method call as explored by C01/C04 (operands by class, weakened to unknowns at any depth, marks placed at any depth); the result of every succeeding call is checked; " + ntRule,
		Gen: func(t *rapid.T) wrappedCase {
			cs := ops.AnyConcrete().Draw(t, "case")
			for i, a := range cs.Args {
				if rapid.Bool().Draw(t, "weaken") {
					a, _ = gen.Weaken(t, a, true)
				}
				if rapid.IntRange(0, 2).Draw(t, "mark") == 0 {
					a, _ = gen.PlaceMarks(t, a, false)
				}
				cs.Args[i] = a
			}
			return wrappedCase{C: cs}
		},
		Check: func(c *facet.Ctx, in wrappedCase) error {
			c.Label("op=" + in.C.Op)
			out, _, err := ops.Run(in.C)
			if err != nil {
				return facet.Failf("harness-build", "%v", err)
			}
			if out.Panicked {
				c.Skip()
				return nil
			}
			return wfAll(c, in.C.Op, out.Val)
		},
	})

	facet.Register(facet.F[convgen.Case]{
		Prop: "C06", Name: "out/convert", Quick: 80000, Thorough: 800000, Shards: 4,
		Rule: "(value, target type) conversion requests from the C08 generator: targets with nested optional attributes, dynamic placeholders, kind changes; values with nulls, empty collections, refined unknowns and marks at every depth; every successful result of Convert and of the function returned by GetConversionUnsafe is checked (in particular: no optional-attribute annotations anywhere in the result's type); " + ntRule,
		Gen: func(t *rapid.T) convgen.Case {
			return convgen.Pair(convgen.Opts{Type: gen.TypeOpts{Depth: 3, Dynamic: true, Long: 12}, Val: valOpts}).Draw(t, "case")
		},
		Check: func(c *facet.Ctx, in convgen.Case) error {
			v, err := spec.Build(in.V)
			if err != nil {
				return facet.Failf("harness-build", "%v", err)
			}
			for _, e := range in.Edits {
				c.Label("edit=" + e)
			}
			ty := in.Target.Cty()
			var got cty.Value
			var cerr error
			func() {
				defer func() {
					if r := recover(); r != nil {
						cerr = fmt.Errorf("panic: %v", r) // panics are C08's business
					}
				}()
				got, cerr = convert.Convert(v, ty)
			}()
			if cerr != nil {
				c.Label("no-conversion")
				c.Skip()
				return nil
			}
			return wfAll(c, fmt.Sprintf("convert.Convert(%#v, %s)", v, in.Target), got)
		},
	})

	facet.Register(facet.F[convgen.Case]{
		Prop: "C06", Name: "out/convert-weakened", Quick: 60000, Thorough: 600000, Shards: 4,
		Rule: "as out/convert, but the value is a wholly-known value of which any subset of sub-values (at any depth) has been replaced by unknowns that admit them (unrefined, not-null, bounds, prefixes, length bounds, DynamicVal): sets of unknown length, unknown members of collections and structures, unknown roots; targets biased to kind changes and added (nested) optional attributes; every successful result of Convert is checked; " + ntRule,
		Gen: func(t *rapid.T) convgen.Case {
			o := convgen.Opts{Type: gen.TypeOpts{Depth: 2, Dynamic: true}, Val: gen.ValOpts{Null: true, Simple: rapid.IntRange(0, 3).Draw(t, "fullvalues") != 0}}
			cs := convgen.Pair(o).Draw(t, "case")
			a, kinds := gen.Weaken(t, cs.V, !cs.Target.HasDynamic())
			cs.V = a
			cs.Edits = append(cs.Edits, kinds...)
			return cs
		},
		Check: func(c *facet.Ctx, in convgen.Case) error {
			v, err := spec.Build(in.V)
			if err != nil {
				c.Skip()
				return nil
			}
			ty := in.Target.Cty()
			var got cty.Value
			var cerr error
			func() {
				defer func() {
					if r := recover(); r != nil {
						cerr = fmt.Errorf("panic: %v", r) // panics are C08's business
					}
				}()
				got, cerr = convert.Convert(v, ty)
			}()
			if cerr != nil {
				c.Label("no-conversion")
				c.Skip()
				return nil
			}
			if !v.IsWhollyKnown() {
				c.Label("weakened")
			}
			return wfAll(c, fmt.Sprintf("convert.Convert(%#v, %s)", v, in.Target), got)
		},
	})

	facet.Register(facet.F[UnifyIn]{
		Prop: "C06", Name: "out/unify", Quick: 40000, Thorough: 400000, Shards: 4,
		Rule: "1..4 related types (a base type and one-position mutants: tuple<->list, object<->map, element type changes, dynamic inserted), unified with Unify / UnifyUnsafe; each returned conversion is applied to a generated value of its input type and the result checked; " + ntRule,
		Gen: func(t *rapid.T) UnifyIn {
			to := gen.TypeOpts{Depth: 2, Dynamic: true}
			base := gen.Type(to).Draw(t, "base")
			in := UnifyIn{Unsafe: rapid.Bool().Draw(t, "unsafe")}
			n := rapid.IntRange(1, 4).Draw(t, "n")
			for i := 0; i < n; i++ {
				ty := base
				if i > 0 && rapid.IntRange(0, 3).Draw(t, "mutate") > 0 {
					ty, _ = gen.MutateType(t, base, to)
				}
				in.Types = append(in.Types, ty)
				in.Vals = append(in.Vals, gen.Value(ty, gen.ValOpts{Null: true, Unknown: true, Simple: true}).Draw(t, "val"))
			}
			return in
		},
		Check: func(c *facet.Ctx, in UnifyIn) error {
			tys := make([]cty.Type, len(in.Types))
			for i, ty := range in.Types {
				tys[i] = ty.Cty()
			}
			var rt cty.Type
			var convs []convert.Conversion
			if guardedPanic(func() {
				if in.Unsafe {
					rt, convs = convert.UnifyUnsafe(tys)
				} else {
					rt, convs = convert.Unify(tys)
				}
			}) || rt == cty.NilType {
				c.Skip()
				return nil
			}
			for i, vs := range in.Vals {
				v, err := spec.Build(vs)
				if err != nil {
					return facet.Failf("harness-build", "%v", err)
				}
				if i >= len(convs) || convs[i] == nil {
					continue
				}
				var got cty.Value
				var cerr error
				if guardedPanic(func() { got, cerr = convs[i](v) }) || cerr != nil {
					continue
				}
				c.Label("applied")
				if err := wfAll(c, fmt.Sprintf("unify conversion %d of %v", i, in.Types), got); err != nil {
					return err
				}
			}
			return nil
		},
	})

	facet.Register(facet.F[TransformIn]{
		Prop: "C06", Name: "out/transform", Quick: 60000, Thorough: 600000, Shards: 4,
		Rule: "a generated value (nulls, unknowns, marks at every depth) through cty.Transform with the identity callback or a callback replacing the k-th visited member by a null / unknown / marked copy of the same type, through UnknownAsNull, UnmarkDeepWithPaths+MarkWithPaths and Walk-collected members; " + ntRule,
		Gen: func(t *rapid.T) TransformIn {
			return TransformIn{
				V:       gen.AnyValue(gen.TypeOpts{Depth: 3, Dynamic: true}, valOpts).Draw(t, "v"),
				Replace: rapid.IntRange(-1, 8).Draw(t, "replace"),
				Mode:    rapid.IntRange(0, 2).Draw(t, "mode"),
			}
		},
		Check: func(c *facet.Ctx, in TransformIn) error {
			v, err := spec.Build(in.V)
			if err != nil {
				return facet.Failf("harness-build", "%v", err)
			}
			n := 0
			var got cty.Value
			var terr error
			if guardedPanic(func() {
				got, terr = cty.Transform(v, func(p cty.Path, x cty.Value) (cty.Value, error) {
					n++
					if n-1 != in.Replace {
						return x, nil
					}
					switch in.Mode {
					case 0:
						return cty.NullVal(x.Type()), nil
					case 1:
						return cty.UnknownVal(x.Type()), nil
					default:
						return x.Mark(spec.Mark("t")), nil
					}
				})
			}) || terr != nil {
				c.Skip()
				return nil
			}
			if err := wfAll(c, "Transform", got); err != nil {
				return err
			}
			var members []cty.Value
			_ = cty.Walk(v, func(p cty.Path, x cty.Value) (bool, error) { members = append(members, x); return true, nil })
			if err := wfAll(c, "Walk callback", members...); err != nil {
				return err
			}
			u, pvm := v.UnmarkDeepWithPaths()
			if err := wfAll(c, "UnmarkDeepWithPaths/MarkWithPaths", u, u.MarkWithPaths(pvm)); err != nil {
				return err
			}
			return wfAll(c, "UnknownAsNull", cty.UnknownAsNull(u))
		},
	})

	type fnIn struct {
		Fn     string   `json:"fn"`
		Args   []spec.V `json:"args"`
		Labels []string `json:"labels,omitempty"`
	}
	for _, fam := range stdreg.Families() {
		fam := fam
		q := 4000 * len(stdreg.Family(fam))
		if q > 60000 {
			q = 60000
		}
		facet.Register(facet.F[fnIn]{
			Prop: "C06", Name: "out/stdlib/" + fam, Quick: q, Thorough: q * 10, Shards: 4,
			Rule: "a standard-library function of the family (uniform draw) called on in-domain arguments with 0..3 hostile injections (nulls, typed unknowns, DynamicVal, marks, nested unknowns, odd numbers and strings); the result of every succeeding call is checked; " + ntRule,
			Gen: func(t *rapid.T) fnIn {
				e := stdreg.Pick(t, stdreg.Family(fam))
				args := e.Args(t)
				var labels []string
				if rapid.IntRange(0, 3).Draw(t, "inject") > 0 {
					args, labels = stdreg.Inject(t, e, args, stdreg.InjectOpts{})
				}
				return fnIn{Fn: e.Name, Args: args, Labels: labels}
			},
			Check: func(c *facet.Ctx, in fnIn) error {
				e, ok := stdreg.ByName(in.Fn)
				if !ok {
					return facet.Failf("harness", "no function %q", in.Fn)
				}
				c.Label("fn=" + in.Fn)
				args, err := e.Build(in.Args)
				if err != nil {
					c.Skip() // hostile injection produced an unbuildable spec
					return nil
				}
				o := stdreg.Call(e.Fn, args)
				if o.Panicked || o.Err != nil {
					c.Label("failed-call")
					c.Skip()
					return nil
				}
				return wfAll(c, in.Fn, o.Val)
			},
		})
	}

	facet.Register(facet.F[codecgen.Case]{
		Prop: "C06", Name: "out/json", Quick: 50000, Thorough: 500000, Shards: 4,
		Rule: "a wholly known value with a type constraint it conforms to (dynamic placeholders at any position), marshalled with cty/json and unmarshalled with the same constraint; also unmarshalled with the document's implied type; every decoded value is checked; " + ntRule,
		Gen:  func(t *rapid.T) codecgen.Case { return codecgen.Draw(t, codecgen.Opts{}) },
		Check: func(c *facet.Ctx, in codecgen.Case) error {
			v, err := spec.Build(in.V)
			if err != nil {
				return facet.Failf("harness-build", "%v", err)
			}
			ty := in.C.Cty()
			var b []byte
			var merr error
			if guardedPanic(func() { b, merr = ctyjson.Marshal(v, ty) }) || merr != nil {
				c.Skip()
				return nil
			}
			var got cty.Value
			var uerr error
			if !guardedPanic(func() { got, uerr = ctyjson.Unmarshal(b, ty) }) && uerr == nil {
				if err := wfAll(c, "json.Unmarshal", got); err != nil {
					return err
				}
			}
			var ity cty.Type
			var ierr error
			if !guardedPanic(func() { ity, ierr = ctyjson.ImpliedType(b) }) && ierr == nil {
				var got2 cty.Value
				if !guardedPanic(func() { got2, uerr = ctyjson.Unmarshal(b, ity) }) && uerr == nil {
					if err := wfAll(c, "json.Unmarshal(implied type)", got2); err != nil {
						return err
					}
				}
			}
			return nil
		},
	})

	facet.Register(facet.F[codecgen.Case]{
		Prop: "C06", Name: "out/msgpack", Quick: 50000, Thorough: 500000, Shards: 4,
		Rule: "a value with refined unknowns at any depth and a type constraint it conforms to, marshalled with cty/msgpack and unmarshalled with the same constraint; every decoded value is checked; " + ntRule,
		Gen:  func(t *rapid.T) codecgen.Case { return codecgen.Draw(t, codecgen.Opts{Unknown: true, Inf: true}) },
		Check: func(c *facet.Ctx, in codecgen.Case) error {
			v, err := spec.Build(in.V)
			if err != nil {
				return facet.Failf("harness-build", "%v", err)
			}
			ty := in.C.Cty()
			var b []byte
			var merr error
			if guardedPanic(func() { b, merr = msgpack.Marshal(v, ty) }) || merr != nil {
				c.Skip()
				return nil
			}
			var got cty.Value
			var uerr error
			if guardedPanic(func() { got, uerr = msgpack.Unmarshal(b, ty) }) || uerr != nil {
				c.Label("decode-failed")
				c.Skip()
				return nil
			}
			return wfAll(c, "msgpack.Unmarshal", got)
		},
	})

	facet.Register(facet.F[WrapIn]{
		Prop: "C06", Name: "out/decoder-wrappers", Quick: 50000, Thorough: 400000, Shards: 4,
		Rule: "hand-written dynamic-value wrappers (type description + value; codecgen.DrawWrapperDoc) decoded by json.Unmarshal and msgpack.Unmarshal against a target with the placeholder at that position: the description is dense in optional-attribute lists at any depth, the value part is per node null / unknown (MessagePack) / empty / minimal, so the decoder types its result from the description; every value a decoder returns without an error is checked (above all: no optional-attribute annotation anywhere in its type); non-trivial = a decoder returned a value; distinct = hash of the document",
		Gen: func(t *rapid.T) WrapIn {
			d := codecgen.DrawWrapperDoc(t, true)
			return WrapIn{Target: d.Target, Desc: d.Desc, JSON: string(d.JSON), Msgpack: d.Msgpack, Labels: d.Labels}
		},
		Check: func(c *facet.Ctx, in WrapIn) error {
			for _, l := range in.Labels {
				c.Label(l)
			}
			ty := in.Target.Cty()
			any := false
			var got cty.Value
			var err error
			if !guardedPanic(func() { got, err = ctyjson.Unmarshal([]byte(in.JSON), ty) }) && err == nil {
				any = true
				c.Label("json-decoded")
				if e := wfAll(c, "json.Unmarshal of "+in.JSON, got); e != nil {
					return e
				}
			}
			if !guardedPanic(func() { got, err = msgpack.Unmarshal(in.Msgpack, ty) }) && err == nil {
				any = true
				c.Label("msgpack-decoded")
				if e := wfAll(c, fmt.Sprintf("msgpack.Unmarshal of %x (wrapper for %s)", in.Msgpack, in.Desc), got); e != nil {
					return e
				}
			}
			if !any {
				c.Skip()
				return nil
			}
			c.NonTrivial()
			return nil
		},
	})

	facet.Register(facet.F[GoIn]{
		Prop: "C06", Name: "out/gocty", Quick: 40000, Thorough: 400000, Shards: 4,
		Rule: "Go values of a small family (ints, strings incl. non-NFC, slices, string-keyed maps with non-NFC keys, tagged structs with nil/non-nil pointers, nested maps/slices, embedded cty.Value) converted with gocty.ToCtyValue against their implied type; every result is checked (NFC of strings and keys in particular); " + ntRule,
		Gen: func(t *rapid.T) GoIn {
			return GoIn{
				Kind: rapid.IntRange(0, 5).Draw(t, "kind"),
				Ints: rapid.SliceOfN(rapid.Int64Range(-5, 1<<40), 0, 3).Draw(t, "ints"),
				Strs: rapid.SliceOfN(gen.String(), 0, 3).Draw(t, "strs"),
				Nil:  rapid.Bool().Draw(t, "nil"),
			}
		},
		Check: func(c *facet.Ctx, in GoIn) error {
			var g interface{}
			switch in.Kind {
			case 0:
				g = in.Strs
			case 1:
				m := map[string]int64{}
				for i, s := range in.Strs {
					if i < len(in.Ints) {
						m[s] = in.Ints[i]
					}
				}
				if in.Nil {
					m = nil
				}
				g = m
			case 2:
				s := goStruct{Dyn: cty.DynamicVal}
				if len(in.Strs) > 0 {
					s.Name = in.Strs[0]
					s.Dyn = cty.StringVal(in.Strs[0])
				}
				if !in.Nil && len(in.Ints) > 0 {
					x := int(in.Ints[0])
					s.Count = &x
				}
				s.Tags = map[string]string{}
				for _, k := range in.Strs {
					s.Tags[k] = k
				}
				for _, i := range in.Ints {
					s.List = append(s.List, float64(i)/4)
				}
				g = s
			case 3:
				mm := map[string][]string{}
				for _, s := range in.Strs {
					mm[s] = in.Strs
				}
				g = mm
			case 4:
				var p *string
				if !in.Nil && len(in.Strs) > 0 {
					p = &in.Strs[0]
				}
				g = p
			default:
				g = in.Ints
			}
			ty, err := gocty.ImpliedType(g)
			if err != nil {
				c.Skip()
				return nil
			}
			var v cty.Value
			if guardedPanic(func() { v, err = gocty.ToCtyValue(g, ty) }) || err != nil {
				c.Skip()
				return nil
			}
			c.Labelf("kind=%d", in.Kind)
			return wfAll(c, "gocty.ToCtyValue", v)
		},
	})
}

// KeysIn is the input of ctor/colliding-keys.
type KeysIn struct {
	Map   bool     `json:"map"`
	Keys  []string `json:"keys"`
	Kinds []int    `json:"kinds"`
}

// CollideIn is the input of ctor/colliding-sets.
type CollideIn struct {
	Kind  int   `json:"kind"` // 0 numbers, 1 strings, 2 tuples
	Via   int   `json:"via"`
	Picks []int `json:"picks"`
}

type collideMember struct {
	v     cty.Value
	class string // members of one class are equal by the documented equality
}

var collidePools [3][]collideMember

func collidePool(kind int) []collideMember {
	if collidePools[0] == nil {
		var nums []collideMember
		add := func(class string, vs ...cty.Value) {
			for _, v := range vs {
				nums = append(nums, collideMember{v, class})
			}
		}
		for _, sh := range []uint{0, 53, 60, 63, 64, 70} {
			i := new(big.Int).Lsh(big.NewInt(1), sh)
			f, _ := new(big.Float).SetInt(i).Float64()
			class := "2^" + fmt.Sprint(sh)
			add(class, cty.MustParseNumberVal(i.String()), cty.NumberFloatVal(f), cty.NumberVal(new(big.Float).SetPrec(24).SetInt(i)), cty.NumberVal(new(big.Float).SetPrec(200).SetInt(i)))
			if i.IsInt64() {
				add(class, cty.NumberIntVal(i.Int64()))
			}
			if i.IsUint64() {
				add(class, cty.NumberUIntVal(i.Uint64()))
			}
		}
		add("0", cty.Zero, cty.NumberFloatVal(math.Copysign(0, -1)), cty.MustParseNumberVal("0.0"))
		add("0.5", cty.NumberFloatVal(0.5), cty.MustParseNumberVal("0.5"), cty.MustParseNumberVal("5e-1"))
		add("1e20", cty.MustParseNumberVal("1e20"), cty.NumberFloatVal(1e20), cty.MustParseNumberVal("100000000000000000000"))
		add("null", cty.NullVal(cty.Number))
		add("unknown", cty.UnknownVal(cty.Number))
		var strs []collideMember
		for _, p := range [][]string{{"\u00e9", "e\u0301"}, {"\u00c5", "A\u030a", "\u212b"}, {"\uac00", "\u1100\u1161"}, {"a", "a"}, {"", ""}} {
			for _, s := range p {
				strs = append(strs, collideMember{cty.StringVal(s), spec.NFC(s)})
			}
		}
		strs = append(strs, collideMember{cty.NullVal(cty.String), "null"}, collideMember{cty.UnknownVal(cty.String), "unknown"})
		var tups []collideMember
		for i, n := range nums {
			if n.class == "unknown" || i%2 == 1 {
				continue
			}
			s := strs[i%len(strs)]
			if s.class == "unknown" {
				continue
			}
			tups = append(tups, collideMember{cty.TupleVal([]cty.Value{n.v, s.v}), n.class + "/" + s.class})
		}
		for _, n := range nums[:12] {
			tups = append(tups, collideMember{cty.TupleVal([]cty.Value{n.v, cty.StringVal("k")}), n.class + "/k"})
		}
		collidePools = [3][]collideMember{nums, strs, tups}
	}
	return collidePools[kind%3]
}

type wrappedCase struct {
	C ops.Case `json:"c"`
}

func guardedPanic(f func()) (panicked bool) {
	defer func() {
		if r := recover(); r != nil {
			panicked = true
		}
	}()
	f()
	return false
}
