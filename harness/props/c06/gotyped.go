package c06

import (
	"fmt"
	"math"
	"math/big"
	"reflect"
	"strconv"
	"strings"

	"github.com/zclconf/go-cty/cty"
	"github.com/zclconf/go-cty/cty/gocty"
	"github.com/zclconf/go-cty/cty/set"
	"pgregory.net/rapid"

	"verif/harness/facet"
	"verif/harness/gen"
	"verif/harness/spec"
)

// out/gocty-typed: a target type is drawn first and a Go value for it is then
// built by construction through every input representation gocty.ToCtyValue
// documents for that kind (docs/gocty.md): Go integers of every width, floats,
// big.Int / big.Float by value and by pointer, strings, bools, slices, arrays,
// string-keyed maps, set.Set, tagged structs (reflect.StructOf), untagged
// structs for tuples, interface-typed members, pointers (nil at any layer),
// and cty.Value passed through at any position.

// GoPlan says how one position of the target type is represented in Go.
type GoPlan struct {
	Rep   string   `json:"rep"`             // representation, see buildPlan
	Ptr   int      `json:"ptr,omitempty"`   // pointer layers wrapped around the representation
	NilAt int      `json:"nilAt,omitempty"` // 1-based pointer layer that is nil (0: none)
	I     int64    `json:"i,omitempty"`
	F     string   `json:"f,omitempty"` // float text (strconv.ParseFloat)
	S     string   `json:"s,omitempty"`
	Elems []GoPlan `json:"elems,omitempty"`
	Keys  []string `json:"keys,omitempty"`
	Val   *spec.V  `json:"val,omitempty"` // cty.Value passed through
}

// GoTypedIn is the input of out/gocty-typed.
type GoTypedIn struct {
	T spec.T `json:"t"`
	P GoPlan `json:"p"`
}

var numReps = []string{"int", "int8", "int16", "int32", "int64", "uint", "uint8", "uint16", "uint32", "uint64",
	"float32", "float64", "big.Float", "big.Int", "named-int"}

type namedInt int32
type namedString string
type namedBool bool

var (
	anyT   = reflect.TypeOf((*interface{})(nil)).Elem()
	repTyp = map[string]reflect.Type{
		"int": reflect.TypeOf(int(0)), "int8": reflect.TypeOf(int8(0)), "int16": reflect.TypeOf(int16(0)), "int32": reflect.TypeOf(int32(0)), "int64": reflect.TypeOf(int64(0)),
		"uint": reflect.TypeOf(uint(0)), "uint8": reflect.TypeOf(uint8(0)), "uint16": reflect.TypeOf(uint16(0)), "uint32": reflect.TypeOf(uint32(0)), "uint64": reflect.TypeOf(uint64(0)),
		"float32": reflect.TypeOf(float32(0)), "float64": reflect.TypeOf(float64(0)), "big.Float": reflect.TypeOf(big.Float{}), "big.Int": reflect.TypeOf(big.Int{}),
		"named-int": reflect.TypeOf(namedInt(0)), "string": reflect.TypeOf(""), "named-string": reflect.TypeOf(namedString("")),
		"bool": reflect.TypeOf(false), "named-bool": reflect.TypeOf(namedBool(false)), "cty.Value": reflect.TypeOf(cty.Value{}),
	}
)

func drawPlan(t *rapid.T, ty spec.T, depth int) GoPlan {
	p := GoPlan{}
	if ty.K != spec.KDynamic && ty.K != spec.KCapsule && rapid.IntRange(0, 7).Draw(t, "passthrough") == 0 {
		v := gen.Value(ty, gen.ValOpts{Null: true, Unknown: true, Marks: true, MaxElems: 2}).Draw(t, "ctyval")
		p.Rep, p.Val = "cty.Value", &v
	} else {
		switch ty.K {
		case spec.KBool:
			p.Rep = rapid.SampledFrom([]string{"bool", "named-bool"}).Draw(t, "rep")
			p.I = int64(rapid.IntRange(0, 1).Draw(t, "b"))
		case spec.KNumber:
			p.Rep = rapid.SampledFrom(numReps).Draw(t, "rep")
			p.I = rapid.SampledFrom([]int64{0, 1, -1, 7, 127, -128, 255, 65535, math.MaxInt32, math.MinInt64, math.MaxInt64, 1 << 53}).Draw(t, "i")
			p.F = rapid.SampledFrom([]string{"0", "-0", "0.5", "-2.25", "1e300", "+Inf", "-Inf", "16777217", "0.1", "5e-324"}).Draw(t, "f")
			p.S = rapid.SampledFrom([]string{"0", "-0", "12345678901234567890123", "0.1", "1e400", "-7", "+Inf"}).Draw(t, "bigtext")
		case spec.KString:
			p.Rep = rapid.SampledFrom([]string{"string", "named-string"}).Draw(t, "rep")
			p.S = gen.String().Draw(t, "s")
		case spec.KDynamic:
			v := gen.Value(ty, gen.ValOpts{Null: true, Unknown: true, Marks: true, MaxElems: 2}).Draw(t, "dynval")
			p.Rep, p.Val = "cty.Value", &v
		case spec.KList, spec.KSet:
			reps := []string{"slice-iface", "array-iface", "slice-typed", "array-typed", "nil-slice"}
			if ty.K == spec.KSet {
				reps = append(reps, "set.Set")
			}
			p.Rep = rapid.SampledFrom(reps).Draw(t, "rep")
			n := rapid.IntRange(0, 3).Draw(t, "n")
			for i := 0; i < n; i++ {
				p.Elems = append(p.Elems, drawPlan(t, *ty.E, depth+1))
			}
		case spec.KMap:
			p.Rep = rapid.SampledFrom([]string{"map-iface", "map-typed", "nil-map"}).Draw(t, "rep")
			n := rapid.IntRange(0, 3).Draw(t, "n")
			seen := map[string]bool{}
			for i := 0; i < n; i++ {
				k := gen.String().Draw(t, "key")
				if seen[spec.NFC(k)] {
					continue
				}
				seen[spec.NFC(k)] = true
				p.Keys = append(p.Keys, k)
				p.Elems = append(p.Elems, drawPlan(t, *ty.E, depth+1))
			}
		case spec.KTuple:
			p.Rep = rapid.SampledFrom([]string{"slice-iface", "struct", "struct-iface", "nil-slice"}).Draw(t, "rep")
			for _, et := range ty.Elems {
				p.Elems = append(p.Elems, drawPlan(t, et, depth+1))
			}
		case spec.KObject:
			p.Rep = rapid.SampledFrom([]string{"map-iface", "struct", "struct-iface", "nil-map", "map-partial"}).Draw(t, "rep")
			for _, a := range ty.Attrs {
				p.Keys = append(p.Keys, a.Name)
				p.Elems = append(p.Elems, drawPlan(t, a.T, depth+1))
			}
		default:
			p.Rep = "unsupported"
		}
	}
	if rapid.IntRange(0, 3).Draw(t, "ptr") == 0 {
		p.Ptr = rapid.IntRange(1, 2).Draw(t, "ptrlayers")
		if rapid.IntRange(0, 2).Draw(t, "nilptr") == 0 {
			p.NilAt = rapid.IntRange(1, p.Ptr).Draw(t, "nilat")
		}
	}
	return p
}

// goType is the static Go type a plan is held in (before interface boxing).
func goType(ty spec.T, p GoPlan) reflect.Type {
	var base reflect.Type
	switch p.Rep {
	case "slice-iface", "nil-slice":
		base = reflect.SliceOf(anyT)
	case "array-iface":
		base = reflect.ArrayOf(len(p.Elems), anyT)
	case "slice-typed", "array-typed":
		et := anyT
		if len(p.Elems) > 0 {
			et = goType(*ty.E, p.Elems[0])
			for _, e := range p.Elems[1:] {
				if goType(*ty.E, e) != et {
					et = anyT
					break
				}
			}
		}
		if p.Rep == "slice-typed" {
			base = reflect.SliceOf(et)
		} else {
			base = reflect.ArrayOf(len(p.Elems), et)
		}
	case "set.Set":
		base = reflect.TypeOf(set.Set[interface{}]{})
	case "map-iface", "nil-map", "map-partial":
		base = reflect.MapOf(repTyp["string"], anyT)
	case "map-typed":
		et := anyT
		if len(p.Elems) > 0 {
			et = goType(*ty.E, p.Elems[0])
			for _, e := range p.Elems[1:] {
				if goType(*ty.E, e) != et {
					et = anyT
					break
				}
			}
		}
		base = reflect.MapOf(repTyp["string"], et)
	case "struct", "struct-iface":
		var fs []reflect.StructField
		for i, e := range p.Elems {
			ft := anyT
			if p.Rep == "struct" {
				if ty.K == spec.KTuple {
					ft = goType(ty.Elems[i], e)
				} else {
					ft = goType(ty.Attrs[i].T, e)
				}
			}
			f := reflect.StructField{Name: fmt.Sprintf("F%d", i), Type: ft}
			if ty.K == spec.KObject {
				f.Tag = reflect.StructTag(`cty:"` + p.Keys[i] + `"`)
			}
			fs = append(fs, f)
		}
		base = reflect.StructOf(fs)
	default:
		base = repTyp[p.Rep]
	}
	if base == nil {
		return anyT
	}
	for i := 0; i < p.Ptr; i++ {
		base = reflect.PtrTo(base)
	}
	return base
}

// tagSafe reports whether an attribute name can be written inside a struct tag.
func tagSafe(name string) bool {
	return name != "" && !strings.ContainsAny(name, "\"`\\,\n\r ") && name == spec.NFC(name)
}

type harnessSetRules struct{}

func (harnessSetRules) Hash(v interface{}) int           { return 0 }
func (harnessSetRules) Equivalent(a, b interface{}) bool { return reflect.DeepEqual(a, b) }
func (harnessSetRules) SameRules(o set.Rules[interface{}]) bool {
	_, ok := o.(harnessSetRules)
	return ok
}

func buildPlan(ty spec.T, p GoPlan) (rv reflect.Value, err error) {
	gt := goType(ty, p)
	inner := gt
	for i := 0; i < p.Ptr; i++ {
		inner = inner.Elem()
	}
	v := reflect.New(inner).Elem()
	setElem := func(dst reflect.Value, et spec.T, e GoPlan) error {
		ev, err := buildPlan(et, e)
		if err != nil {
			return err
		}
		if !ev.Type().AssignableTo(dst.Type()) {
			return fmt.Errorf("harness: %s not assignable to %s", ev.Type(), dst.Type())
		}
		dst.Set(ev)
		return nil
	}
	switch p.Rep {
	case "cty.Value":
		cv, err := spec.Build(*p.Val)
		if err != nil {
			return rv, err
		}
		v.Set(reflect.ValueOf(cv))
	case "bool", "named-bool":
		v.SetBool(p.I != 0)
	case "string", "named-string":
		v.SetString(p.S)
	case "int", "int8", "int16", "int32", "int64", "named-int":
		v.SetInt(p.I) // truncated to the width by reflect's OverflowInt semantics below
		if v.OverflowInt(p.I) {
			v.SetInt(p.I % 100)
		}
	case "uint", "uint8", "uint16", "uint32", "uint64":
		u := uint64(p.I)
		if v.OverflowUint(u) {
			u %= 200
		}
		v.SetUint(u)
	case "float32", "float64":
		f, _ := strconv.ParseFloat(p.F, 64)
		if p.Rep == "float32" && !math.IsInf(f, 0) && math.Abs(f) > math.MaxFloat32 {
			f = math.MaxFloat32
		}
		v.SetFloat(f)
	case "big.Float":
		bf, _, perr := big.ParseFloat(p.S, 10, 512, big.ToNearestEven)
		if perr != nil {
			bf = new(big.Float)
		}
		v.Set(reflect.ValueOf(*bf))
	case "big.Int":
		bi, ok := new(big.Int).SetString(strings.TrimPrefix(p.S, "+"), 10)
		if !ok {
			bi = big.NewInt(p.I)
		}
		v.Set(reflect.ValueOf(*bi))
	case "nil-slice", "nil-map":
		// zero value
	case "slice-iface", "slice-typed":
		v.Set(reflect.MakeSlice(inner, len(p.Elems), len(p.Elems)))
		fallthrough
	case "array-iface", "array-typed":
		for i, e := range p.Elems {
			et := ty
			if ty.K == spec.KTuple {
				et = ty.Elems[i]
			} else {
				et = *ty.E
			}
			if err := setElem(v.Index(i), et, e); err != nil {
				return rv, err
			}
		}
	case "set.Set":
		s := set.NewSet[interface{}](harnessSetRules{})
		for _, e := range p.Elems {
			ev, err := buildPlan(*ty.E, e)
			if err != nil {
				return rv, err
			}
			s.Add(ev.Interface())
		}
		v.Set(reflect.ValueOf(s))
	case "map-iface", "map-typed", "map-partial":
		v.Set(reflect.MakeMap(inner))
		for i, e := range p.Elems {
			if p.Rep == "map-partial" && i%2 == 1 {
				continue // attribute absent from the Go map: documented as null
			}
			et := ty
			if ty.K == spec.KObject {
				et = ty.Attrs[i].T
			} else {
				et = *ty.E
			}
			ev, err := buildPlan(et, e)
			if err != nil {
				return rv, err
			}
			slot := reflect.New(inner.Elem()).Elem()
			if !ev.Type().AssignableTo(slot.Type()) {
				return rv, fmt.Errorf("harness: %s not assignable to %s", ev.Type(), slot.Type())
			}
			slot.Set(ev)
			v.SetMapIndex(reflect.ValueOf(p.Keys[i]), slot)
		}
	case "struct", "struct-iface":
		for i, e := range p.Elems {
			et := ty
			if ty.K == spec.KTuple {
				et = ty.Elems[i]
			} else {
				et = ty.Attrs[i].T
			}
			if err := setElem(v.Field(i), et, e); err != nil {
				return rv, err
			}
		}
	default:
		return rv, fmt.Errorf("harness: unsupported representation %q", p.Rep)
	}
	// pointer layers, innermost first; layer NilAt (counted from the outside) is nil
	cur := v
	for i := p.Ptr; i >= 1; i-- {
		pt := reflect.PtrTo(cur.Type())
		if p.NilAt == i {
			cur = reflect.Zero(pt)
			// outer layers point at this nil pointer
			continue
		}
		np := reflect.New(cur.Type())
		np.Elem().Set(cur)
		cur = np
	}
	return cur, nil
}

func planUsable(ty spec.T, p GoPlan) bool {
	if p.Rep == "unsupported" {
		return false
	}
	if (p.Rep == "struct" || p.Rep == "struct-iface") && ty.K == spec.KObject {
		for _, k := range p.Keys {
			if !tagSafe(k) {
				return false
			}
		}
	}
	for i, e := range p.Elems {
		var et spec.T
		switch ty.K {
		case spec.KTuple:
			et = ty.Elems[i]
		case spec.KObject:
			et = ty.Attrs[i].T
		default:
			et = *ty.E
		}
		if !planUsable(et, e) {
			return false
		}
	}
	return true
}

func planLabels(c *facet.Ctx, p GoPlan) {
	c.Label("rep=" + p.Rep)
	if p.NilAt > 0 {
		c.Label("nil-pointer")
	} else if p.Ptr > 0 {
		c.Label("pointer")
	}
	for _, e := range p.Elems {
		planLabels(c, e)
	}
}

func init() {
	facet.Register(facet.F[GoTypedIn]{
		Prop: "C06", Name: "out/gocty-typed", Quick: 60000, Thorough: 600000, Shards: 4,
		Rule: "target type of depth <= 2 (placeholders included), then a Go value built for it by construction through every representation gocty documents: integers of every width, float32/64 (-0, infinities), big.Int / big.Float by value, named types, strings incl. non-NFC, slices / arrays / maps typed or of interface{}, set.Set, tagged structs for objects, structs for tuples, maps lacking attributes, 0-2 pointer layers with a nil at any layer, and a cty.Value (null, unknown, marked) passed through at any position; the result of every succeeding gocty.ToCtyValue is checked, and must be of the target type; " + ntRule,
		Gen: func(t *rapid.T) GoTypedIn {
			ty := gen.Type(gen.TypeOpts{Depth: 2, Dynamic: true}).Draw(t, "type")
			return GoTypedIn{T: ty, P: drawPlan(t, ty, 0)}
		},
		Check: func(c *facet.Ctx, in GoTypedIn) error {
			if !planUsable(in.T, in.P) {
				c.Label("plan-unusable")
				c.Skip()
				return nil
			}
			gv, err := buildPlan(in.T, in.P)
			if err != nil {
				c.Label("plan-unbuildable")
				c.Skip()
				return nil
			}
			ty := in.T.Cty()
			var v cty.Value
			var cerr error
			if guardedPanic(func() { v, cerr = gocty.ToCtyValue(gv.Interface(), ty) }) {
				c.Label("outcome=panic")
				c.Skip()
				return nil
			}
			if cerr != nil {
				c.Label("outcome=error")
				c.Skip()
				return nil
			}
			planLabels(c, in.P)
			if errs := v.Type().TestConformance(ty); len(errs) > 0 {
				return facet.Failf("gocty-type", "gocty.ToCtyValue(%s, %s) returned a value of type %#v, which does not conform to the requested type", gv.Type(), in.T, v.Type()).With("api", "gocty.ToCtyValue")
			}
			return wfAll(c, "gocty.ToCtyValue", v)
		},
	})
}
