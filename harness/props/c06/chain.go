package c06

import (
	"fmt"
	"sort"

	"github.com/zclconf/go-cty/cty"
	"github.com/zclconf/go-cty/cty/function"
	"github.com/zclconf/go-cty/cty/function/stdlib"
	"pgregory.net/rapid"

	"verif/harness/facet"
	"verif/harness/gen"
	"verif/harness/spec"
	"verif/harness/wf"
)

// out/stdlib-chain: values stay well-formed while OTHER values are derived
// from them. A pool of structural values is extended by chains of calls of the
// standard-library functions that assemble their result (and its type) from
// their arguments; after every step every live value - the original pool
// included - is validated again. A value whose type is rewritten under it (a
// callee that appends to, or writes into, the type internals of an argument)
// stops being consistent with its payload long after it was returned.

// ChainStep is one step of a chain.
type ChainStep struct {
	Fn   string `json:"fn"`
	A    int    `json:"a"`
	B    int    `json:"b"`
	C    int    `json:"c"`
	N    int    `json:"n"`
	Attr string `json:"attr,omitempty"`
}

// ChainIn is the input of out/stdlib-chain.
type ChainIn struct {
	Pool  []spec.V    `json:"pool"`
	Steps []ChainStep `json:"steps"`
}

var chainFns = map[string]function.Function{
	"concat": stdlib.ConcatFunc, "merge": stdlib.MergeFunc, "flatten": stdlib.FlattenFunc, "slice": stdlib.SliceFunc,
	"keys": stdlib.KeysFunc, "values": stdlib.ValuesFunc, "zipmap": stdlib.ZipmapFunc, "reverselist": stdlib.ReverseListFunc,
	"coalescelist": stdlib.CoalesceListFunc, "setunion": stdlib.SetUnionFunc, "chunklist": stdlib.ChunklistFunc,
	"distinct": stdlib.DistinctFunc, "element": stdlib.ElementFunc, "lookup": stdlib.LookupFunc,
}

var chainFnNames = func() []string {
	var ns []string
	for n := range chainFns {
		ns = append(ns, n)
	}
	sort.Strings(ns)
	for i := 0; i < 8; i++ {
		ns = append(ns, "concat")
	}
	for i := 0; i < 4; i++ {
		ns = append(ns, "merge", "slice", "unknownof")
	}
	ns = append(ns, "nullof")
	return ns
}()

var chainTypes = []spec.T{spec.Tuple(spec.String, spec.Bool), spec.Tuple(spec.Number, spec.String, spec.Bool), spec.List(spec.String),
	spec.Object(spec.Attr{Name: "a", T: spec.String}, spec.Attr{Name: "id", T: spec.Number}), spec.Object(spec.Attr{Name: "a", T: spec.Bool}, spec.Attr{Name: "x", T: spec.String}),
	spec.Object(spec.Attr{Name: "id", T: spec.String}), spec.Map(spec.String), spec.Map(spec.Number), spec.Tuple(spec.List(spec.String), spec.Tuple(spec.String)), spec.Tuple(spec.Bool)}

func genChain(t *rapid.T) ChainIn {
	in := ChainIn{}
	vo := gen.ValOpts{Null: true, Unknown: true, Simple: true}
	for i, n := 0, rapid.IntRange(2, 5).Draw(t, "npool"); i < n; i++ {
		ty := gen.Type(gen.TypeOpts{Depth: 2, Dynamic: true}).Draw(t, "type")
		if rapid.IntRange(0, 3).Draw(t, "structural") != 0 {
			ty = rapid.SampledFrom(chainTypes).Draw(t, "stype")
		}
		in.Pool = append(in.Pool, gen.Value(ty, vo).Draw(t, "val"))
	}
	for i, n := 0, rapid.IntRange(2, 10).Draw(t, "nsteps"); i < n; i++ {
		in.Steps = append(in.Steps, ChainStep{
			Fn: rapid.SampledFrom(chainFnNames).Draw(t, "fn"),
			A:  rapid.IntRange(0, 11).Draw(t, "a"), B: rapid.IntRange(0, 11).Draw(t, "b"), C: rapid.IntRange(0, 11).Draw(t, "c"),
			N:    rapid.IntRange(0, 13).Draw(t, "n"),
			Attr: rapid.SampledFrom([]string{"a", "b", "id", "x"}).Draw(t, "attr"),
		})
	}
	return in
}

func checkChain(c *facet.Ctx, in ChainIn) error {
	var lives []cty.Value
	var origin []string
	for i, s := range in.Pool {
		v, err := spec.Build(s)
		if err != nil {
			return facet.Failf("harness-build", "%v", err)
		}
		lives = append(lives, v)
		origin = append(origin, fmt.Sprintf("pool[%d]", i))
	}
	// one pick in three takes the most recent value, so that chains form
	pick := func(i int) cty.Value {
		if i%3 == 0 {
			return lives[len(lives)-1]
		}
		return lives[i%len(lives)]
	}
	validate := func(after string) error {
		for i, v := range lives {
			if f := wf.Check(v); f != nil {
				f.Msg = fmt.Sprintf("value #%d (%s) was well-formed when it was returned and is malformed after %s: %s\n  value: %#v", i, origin[i], after, f.Msg, v)
				return f.With("api", "stdlib chain")
			}
		}
		return nil
	}
	if err := validate("construction"); err != nil {
		return err
	}
	calls := 0
	for si, s := range in.Steps {
		if s.Fn == "unknownof" || s.Fn == "nullof" {
			// a placeholder of the SAME type object as a live value (what a
			// type checker or a planner keeps next to the real value)
			v := pick(s.A)
			if s.Fn == "unknownof" {
				lives = append(lives, cty.UnknownVal(v.Type()))
			} else {
				lives = append(lives, cty.NullVal(v.Type()))
			}
			origin = append(origin, fmt.Sprintf("%s #%d, step %d", s.Fn, s.A%len(lives), si))
			continue
		}
		f := chainFns[s.Fn]
		args := []cty.Value{pick(s.A)}
		switch s.Fn {
		case "slice":
			args = append(args, cty.NumberIntVal(int64(s.N%3)), cty.NumberIntVal(int64(s.N%3+s.C%3)))
		case "chunklist", "element":
			args = append(args, cty.NumberIntVal(int64(s.N%3+1)))
		case "lookup":
			args = append(args, cty.StringVal(s.Attr), pick(s.B))
		case "concat", "merge", "zipmap", "setunion", "coalescelist":
			args = append(args, pick(s.B))
			if s.C%3 == 0 {
				args = append(args, pick(s.C))
			}
		}
		// chains of concat / flatten double their operands: values that have
		// grown large are not fed back (size is a bound of the generator, not
		// an oracle)
		tooBig := false
		for _, a := range args {
			if u, _ := a.Unmark(); u.IsKnown() && !u.IsNull() && u.CanIterateElements() && u.LengthInt() > 48 {
				tooBig = true
			}
		}
		if tooBig {
			c.Label("skipped-large-operand")
			continue
		}
		guardedPanic(func() { _, _ = f.ReturnTypeForValues(args) })
		var r cty.Value
		var err error
		if guardedPanic(func() { r, err = f.Call(args) }) || err != nil {
			continue
		}
		calls++
		c.Label("fn=" + s.Fn)
		if interesting(r) {
			c.NonTrivial()
		}
		lives = append(lives, r)
		origin = append(origin, fmt.Sprintf("result of step %d (%s)", si, s.Fn))
		if err := validate(fmt.Sprintf("step %d (%s)", si, s.Fn)); err != nil {
			return err
		}
	}
	if calls == 0 {
		c.Skip()
	}
	return nil
}

func init() {
	facet.Register(facet.F[ChainIn]{
		Prop: "C06", Name: "out/stdlib-chain", Quick: 50000, Thorough: 300000, Shards: 4,
		Rule: "pool of 2..5 structural values (tuples, objects, lists, maps; known, unknown, null) and 2..10 calls of standard-library functions that assemble their result and its type from their arguments (concat, merge, slice, flatten, keys, values, zipmap, ...; Call and the type-only prediction) on live values, results becoming live values; after every step EVERY live value, the original pool included, is validated again; " + ntRule,
		Gen:  genChain, Check: checkChain,
	})
}
