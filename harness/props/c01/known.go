package c01

import (
	"encoding/json"
	"math"
	"strings"

	"verif/harness/facet"
	"verif/harness/spec"
)

// minPrec returns the smallest big.Float precision among all known numbers in
// the given specs (0 when there is none).
func minPrec(vs []spec.V) uint {
	var best uint
	var rec func(v spec.V)
	rec = func(v spec.V) {
		if v.St == spec.Known && v.N != nil && !v.N.IsInf() {
			p := v.N.Float().Prec()
			if p > 0 && (best == 0 || p < best) {
				best = p
			}
		}
		if v.Ref != nil {
			for _, b := range []*spec.Num{v.Ref.Lo, v.Ref.Hi} {
				if b != nil && !b.IsInf() {
					if p := b.Float().Prec(); p > 0 && (best == 0 || p < best) {
						best = p
					}
				}
			}
		}
		for _, e := range v.Elems {
			rec(e)
		}
	}
	for _, v := range vs {
		rec(v)
	}
	return best
}

func init() {
	// C01-interval-rounding: the bounds derived for Add / Subtract / Multiply
	// on refined unknown numbers are computed at the bounds' own precision
	// with no outward rounding, while the concrete operation rounds its result
	// to the precision of its operands; the concrete result can therefore
	// fall outside the derived range (or differ from a collapsed known
	// result) by a rounding error. Recognised narrowly: arithmetic operation,
	// a numeric-bound or known-number mismatch at the top of the result, and a
	// relative margin no larger than two units in the last place of the
	// lowest-precision number involved.
	facet.RegisterKnown("c01IntervalRounding", func(facetName string, raw json.RawMessage, f *facet.Failure) bool {
		if f.Kind != "admits/lower" && f.Kind != "admits/upper" && f.Kind != "admits/known-differs" {
			return false
		}
		if f.Data["path"] != "" {
			return false
		}
		switch f.Data["op"] {
		case "Add", "Subtract", "Multiply":
		default:
			return false
		}
		if !strings.HasPrefix(facetName, "sound/") {
			return false
		}
		var probe struct {
			C struct {
				Args []spec.V `json:"args"`
			} `json:"c"`
			Abs []spec.V `json:"abs"`
			A1  []spec.V `json:"a1"`
			A2  []spec.V `json:"a2"`
		}
		if json.Unmarshal(raw, &probe) != nil {
			return false
		}
		all := append(append(append(append([]spec.V{}, probe.C.Args...), probe.Abs...), probe.A1...), probe.A2...)
		p := minPrec(all)
		if p == 0 {
			return false
		}
		return f.Margin > 0 && f.Margin <= math.Ldexp(1, -int(p)+2)
	})
}
