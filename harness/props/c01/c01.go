// Package c01: operations on unknown values are sound approximations.
//
// Metamorphic oracle: the same call is run on a wholly-known ("concrete")
// operand tuple and on a weakened ("abstract") tuple in which any subset of
// sub-values has been replaced by unknown values that admit the replaced part.
// If the concrete call returns, the abstract call must return too and its
// result must admit the concrete result (model.Admits).
package c01

import (
	"fmt"
	"strings"

	"github.com/zclconf/go-cty/cty"
	"pgregory.net/rapid"

	"verif/harness/facet"
	"verif/harness/gen"
	"verif/harness/model"
	"verif/harness/ops"
	"verif/harness/spec"
)

// In is the facet input: a concrete call and its weakened operands.
type In struct {
	C     ops.Case `json:"c"`
	Abs   []spec.V `json:"abs"`
	Kinds []string `json:"kinds,omitempty"`
}

func genFor(op string) func(t *rapid.T) In {
	return func(t *rapid.T) In {
		c := ops.Concrete(op).Draw(t, "case")
		in := weakenCase(t, c)
		relationalBounds(t, &in)
		return in
	}
}

// relationalBounds, for calls with two known number operands, sometimes
// replaces one abstract operand by an unknown whose bound is exactly the OTHER
// operand's value (inclusive, or exclusive when the concrete operands differ):
// the place where range-based comparison and equality shortcuts can be off by
// one.
func relationalBounds(t *rapid.T, in *In) {
	if len(in.C.Args) != 2 {
		return
	}
	a, b := in.C.Args[0], in.C.Args[1]
	if a.St != spec.Known || b.St != spec.Known || a.N == nil || b.N == nil || a.N.IsInf() || b.N.IsInf() {
		return
	}
	if rapid.IntRange(0, 2).Draw(t, "relational") != 0 {
		return
	}
	i := rapid.IntRange(0, 1).Draw(t, "relwhich")
	self, other := in.C.Args[i], in.C.Args[1-i]
	cmp := self.N.Float().Cmp(other.N.Float())
	textEq := self.N.Float().Text('f', -1) == other.N.Float().Text('f', -1)
	u := spec.UnknownOf(spec.Number)
	r := &spec.Ref{}
	if rapid.Bool().Draw(t, "relnotnull") {
		r.Null = "notnull"
	}
	bound := *other.N
	kind := ""
	switch {
	case cmp == 0:
		// equal operands: only inclusive bounds are true of the value
		if rapid.Bool().Draw(t, "relside") {
			r.Lo, r.LoInc = &bound, true
		} else {
			r.Hi, r.HiInc = &bound, true
		}
		kind = "rel-incl-tie"
	case textEq:
		// numerically different but equal under cty's text-based equality:
		// the bound must be true in the exact order (the library's bounds are
		// exact) and inclusive (the tolerant order calls the two equal)
		if cmp < 0 {
			r.Hi, r.HiInc = &bound, true
		} else {
			r.Lo, r.LoInc = &bound, true
		}
		kind = "rel-incl-texttie"
	case cmp < 0:
		r.Hi, r.HiInc = &bound, rapid.Bool().Draw(t, "relinc")
		kind = "rel-hi-other"
	default:
		r.Lo, r.LoInc = &bound, rapid.Bool().Draw(t, "relinc")
		kind = "rel-lo-other"
	}
	u.Ref = r
	in.Abs[i] = u
	in.Kinds = append(in.Kinds, fmt.Sprintf("%d:%s", i, kind))
}

func weakenCase(t *rapid.T, c ops.Case) In {
	in := In{C: c}
	in.Abs = make([]spec.V, len(c.Args))
	for i, a := range c.Args {
		w, kinds := gen.Weaken(t, a, true)
		in.Abs[i] = w
		for _, k := range kinds {
			in.Kinds = append(in.Kinds, fmt.Sprintf("%d:%s", i, k))
		}
	}
	if len(in.Kinds) == 0 {
		// force one weakening at the root of one operand so that most cases are non-trivial
		i := rapid.IntRange(0, len(c.Args)-1).Draw(t, "forced")
		var kinds []string
		in.Abs[i] = gen.AbstractOf(t, c.Args[i], true, &kinds)
		for _, k := range kinds {
			in.Kinds = append(in.Kinds, fmt.Sprintf("%d:%s", i, k))
		}
	}
	return in
}

func buildAll(vs []spec.V) ([]cty.Value, error) {
	out := make([]cty.Value, len(vs))
	for i, v := range vs {
		b, err := spec.Build(v)
		if err != nil {
			return nil, err
		}
		out[i] = b
	}
	return out, nil
}

func checkSound(c *facet.Ctx, in In) error {
	c.Label("op=" + in.C.Op)
	concArgs, err := buildAll(in.C.Args)
	if err != nil {
		return facet.Failf("harness-build", "concrete operands do not build: %v", err)
	}
	conc := ops.Apply(in.C.Op, concArgs, in.C.Attr)
	if conc.Panicked {
		c.Label("concrete-rejected")
		c.Skip()
		return nil
	}
	absArgs, err := buildAll(in.Abs)
	if err != nil {
		return facet.Failf("harness-build", "weakened operands do not build: %v", err)
	}
	weakened := false
	for _, a := range absArgs {
		if !a.IsWhollyKnown() {
			weakened = true
		}
	}
	// sanity of the generator: every abstract operand admits its concrete operand
	for i := range absArgs {
		if f := model.Admits(absArgs[i], concArgs[i]); f != nil {
			return facet.Failf("harness-weaken", "generator bug: abstract operand %d does not admit the concrete one: %v", i, f)
		}
	}
	// Half of the cases first derive tighter values from the (nested) unknown
	// operands and throw them away - what a caller does that narrows a value
	// further on one code path. The operands themselves must be unaffected, so
	// the operation below must still be a sound approximation.
	if len(fmt.Sprint(in.Kinds, len(in.Abs)))%2 == 0 {
		derived := 0
		for _, a := range absArgs {
			derived += deriveAndDiscard(a)
		}
		if derived > 0 {
			c.Label("derived-refinements-discarded")
			for i := range absArgs {
				if f := model.Admits(absArgs[i], concArgs[i]); f != nil {
					return facet.Failf("operand-changed", "refining a value derived from operand %d (and discarding the result) changed the operand itself: it is now %#v and no longer admits %#v: %v", i, absArgs[i], concArgs[i], f).With("op", in.C.Op)
				}
			}
		}
	}
	abs := ops.Apply(in.C.Op, absArgs, in.C.Attr)
	for _, k := range in.Kinds {
		if i := strings.IndexByte(k, ':'); i >= 0 {
			c.Label("weaken=" + k[i+1:])
		}
	}
	if weakened {
		c.NonTrivial()
	} else {
		c.Label("not-weakened")
	}
	if abs.Panicked {
		return facet.Failf("abstract-panic", "%s succeeds on %s = %#v but panics on the weakened operands %s: %s",
			in.C.Op, fmtArgs(concArgs), conc.Val, fmtArgs(absArgs), abs.Panic).With("op", in.C.Op).With("panic", abs.Panic)
	}
	if abs.Val.IsKnown() {
		c.Label("abstract-result=known")
	} else {
		c.Label("abstract-result=unknown")
	}
	if f := model.Admits(abs.Val, conc.Val); f != nil {
		f.Msg = fmt.Sprintf("%s%s = %#v but on weakened operands %s = %#v, which does not admit it: %s",
			in.C.Op, fmtArgs(concArgs), conc.Val, fmtArgs(absArgs), abs.Val, f.Msg)
		return f.With("op", in.C.Op)
	}
	return nil
}

// deriveAndDiscard walks v and, for every unknown value in it that carries a
// refinement, builds tighter refinements of it (not null; the numeric range
// collapsed onto its lower bound; a longer prefix; the length range collapsed)
// and discards them. Refusals (panics) are ignored. It returns the number of
// unknown values it worked on.
func deriveAndDiscard(v cty.Value) (n int) {
	_ = cty.Walk(v, func(_ cty.Path, x cty.Value) (bool, error) {
		x, _ = x.Unmark()
		if x.IsKnown() || x.Type() == cty.DynamicPseudoType {
			return true, nil
		}
		n++
		try := func(f func()) {
			defer func() { _ = recover() }()
			f()
		}
		rng := x.Range()
		try(func() { _ = x.RefineNotNull() })
		try(func() { _ = x.Refine().NotNull().NewValue() })
		switch ty := x.Type(); {
		case ty == cty.Number:
			if lo, _ := rng.NumberLowerBound(); lo.IsKnown() {
				try(func() { _ = x.Refine().NumberRangeUpperBound(lo, true).NewValue() })
			}
			if hi, _ := rng.NumberUpperBound(); hi.IsKnown() {
				try(func() { _ = x.Refine().NumberRangeLowerBound(hi, true).NewValue() })
			}
			try(func() { _ = x.Refine().NumberRangeInclusive(cty.NumberIntVal(-1000003), cty.NumberIntVal(-1000003)).NewValue() })
		case ty == cty.String:
			try(func() { _ = x.Refine().StringPrefixFull(rng.StringPrefix() + "\x00derived").NewValue() })
		case ty.IsCollectionType():
			try(func() { _ = x.Refine().CollectionLengthUpperBound(rng.LengthLowerBound()).NewValue() })
			try(func() { _ = x.Refine().CollectionLengthLowerBound(rng.LengthLowerBound() + 7).NewValue() })
		}
		return true, nil
	})
	return n
}

func fmtArgs(vs []cty.Value) string {
	ss := make([]string, len(vs))
	for i, v := range vs {
		ss[i] = fmt.Sprintf("%#v", v)
	}
	return "(" + strings.Join(ss, ", ") + ")"
}

const soundRule = "concrete operand tuple for the operation drawn by class (ties, boundaries, nulls, nested members), then any subset of sub-values at any depth weakened to unknowns admitting them (unrefined / not-null / numeric bounds incl. or excl., at the value or beyond / string prefix / length bounds / DynamicVal); non-trivial = the concrete call succeeded and at least one operand is not wholly known; distinct = hash of the input JSON"

func init() {
	for _, op := range ops.AllOps {
		q := 60000
		if op == "Equals" || op == "NotEqual" || op == "HasElement" || op == "Index" || op == "HasIndex" {
			q = 100000
		}
		facet.Register(facet.F[In]{
			Prop: "C01", Name: "sound/" + op, Rule: soundRule, Quick: q, Thorough: q * 5, Shards: 4,
			Gen: genFor(op), Check: checkSound,
		})
	}

	// chain: concrete ⊑ a1 ⊑ a2 ; result(a2) must admit result(concrete) and,
	// where result(a1) is wholly known, result(a1) as well.
	facet.Register(facet.F[Chain]{
		Prop: "C01", Name: "sound/chain", Quick: 100000, Thorough: 600000, Shards: 4,
		Rule: "as sound/<op> with the operation drawn uniformly, weakened twice (a2 weakens a1): the result on a2 must admit the concrete result; non-trivial = concrete call succeeded and a2 differs from a1",
		Gen: func(t *rapid.T) Chain {
			c := ops.AnyConcrete().Draw(t, "case")
			in := weakenCase(t, c)
			ch := Chain{C: c, A1: in.Abs}
			ch.A2 = make([]spec.V, len(in.Abs))
			for i, a := range in.Abs {
				ch.A2[i] = gen.WeakenMore(t, a, c.Args[i])
			}
			return ch
		},
		Check: func(c *facet.Ctx, ch Chain) error {
			c.Label("op=" + ch.C.Op)
			concArgs, err := buildAll(ch.C.Args)
			if err != nil {
				return facet.Failf("harness-build", "%v", err)
			}
			conc := ops.Apply(ch.C.Op, concArgs, ch.C.Attr)
			if conc.Panicked {
				c.Skip()
				return nil
			}
			a1, err := buildAll(ch.A1)
			if err != nil {
				return facet.Failf("harness-build", "%v", err)
			}
			a2, err := buildAll(ch.A2)
			if err != nil {
				return facet.Failf("harness-build", "%v", err)
			}
			for i := range a2 {
				if f := model.Admits(a2[i], concArgs[i]); f != nil {
					return facet.Failf("harness-weaken", "generator bug: a2[%d] does not admit the concrete operand: %v", i, f)
				}
				if !a2[i].RawEquals(a1[i]) {
					c.NonTrivial()
				}
			}
			for lvl, args := range [][]cty.Value{a1, a2} {
				r := ops.Apply(ch.C.Op, args, ch.C.Attr)
				if r.Panicked {
					return facet.Failf("abstract-panic", "%s succeeds on %s but panics on weakening level %d %s: %s", ch.C.Op, fmtArgs(concArgs), lvl+1, fmtArgs(args), r.Panic).With("op", ch.C.Op).With("panic", r.Panic)
				}
				if f := model.Admits(r.Val, conc.Val); f != nil {
					f.Msg = fmt.Sprintf("%s%s = %#v but at weakening level %d %s = %#v: %s", ch.C.Op, fmtArgs(concArgs), conc.Val, lvl+1, fmtArgs(args), r.Val, f.Msg)
					return f.With("op", ch.C.Op)
				}
			}
			return nil
		},
	})

	// converse: wholly known operands => wholly known result; never null for
	// arithmetic, comparison, logic, length and membership.
	facet.Register(facet.F[ops.Case]{
		Prop: "C01", Name: "converse/known-in-known-out", Quick: 200000, Thorough: 1000000, Shards: 4,
		Rule: "concrete operand tuple, operation drawn uniformly; the call must yield a wholly known result, and a non-null one for arithmetic / comparison / logic / length / membership; non-trivial = the call succeeded and an operand is a collection, structure, null, or a non-small number; distinct = hash of the input JSON",
		Gen:  func(t *rapid.T) ops.Case { return ops.AnyConcrete().Draw(t, "case") },
		Check: func(c *facet.Ctx, cs ops.Case) error {
			c.Label("op=" + cs.Op)
			out, args, err := ops.Run(cs)
			if err != nil {
				return facet.Failf("harness-build", "%v", err)
			}
			if out.Panicked {
				c.Label("rejected")
				c.Skip()
				return nil
			}
			for _, a := range cs.Args {
				if len(a.Elems) > 0 || a.HasNullInside() || (a.N != nil && a.N.Route != "int") {
					c.NonTrivial()
				}
			}
			if !out.Val.IsWhollyKnown() {
				return facet.Failf("known-in-unknown-out", "%s%s on wholly known operands returned %#v, which is not wholly known", cs.Op, fmtArgs(args), out.Val).With("op", cs.Op)
			}
			if ops.NonNull[cs.Op] && out.Val.IsNull() {
				return facet.Failf("null-result", "%s%s returned null", cs.Op, fmtArgs(args)).With("op", cs.Op)
			}
			return nil
		},
	})
}

// Chain is the input of sound/chain.
type Chain struct {
	C  ops.Case `json:"c"`
	A1 []spec.V `json:"a1"`
	A2 []spec.V `json:"a2"`
}
