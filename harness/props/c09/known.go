package c09

import (
	"encoding/json"

	"verif/harness/convgen/cause"
	"verif/harness/facet"
)

func init() {
	// unify.go, unifyTuplesAsList / unifyObjectsAsMaps: the closure that
	// composes the structural->collection conversion with the
	// collection->collection conversion passes the original input to the second
	// one (listConv(in) / mapConv(in) instead of (out)).
	facet.RegisterKnown("c09ComposedClosureWrongVariable", func(facetName string, raw json.RawMessage, f *facet.Failure) bool {
		if f == nil || f.Data["cause"] != causeComposed {
			return false
		}
		return f.Kind == "apply-type" || f.Kind == "safe-conv-fails" || f.Kind == "conv-panic"
	})
	// Same root cause as the C08 finding C08-unknown-set-to-list: a set of
	// unknown length converted to a list with another element type yields an
	// unknown list typed with the input element type; seen here through the
	// conversions that unification returns.
	facet.RegisterKnown("c09UnknownSetToListElementType", func(facetName string, raw json.RawMessage, f *facet.Failure) bool {
		if f == nil || f.Data["cause"] != cause.UnknownSetToList {
			return false
		}
		return f.Kind == "apply-type" || f.Kind == "safe-conv-fails" || f.Kind == "conv-panic"
	})
}
