// Package c09: unification returns a type every input really converts to
// (DESIGN.md section 5, C09).
package c09

import (
	"encoding/json"
	"fmt"
	"hash/fnv"

	"github.com/zclconf/go-cty/cty"
	"github.com/zclconf/go-cty/cty/convert"
	"github.com/zclconf/go-cty/cty/function/stdlib"
	"pgregory.net/rapid"

	"verif/harness/convgen"
	"verif/harness/convgen/cause"
	"verif/harness/facet"
	"verif/harness/gen"
	"verif/harness/spec"
	"verif/harness/wf"
)

// UIn is a unification request: 1..4 types and, for every type, a few values
// of exactly that type.
type UIn struct {
	Types []spec.T   `json:"types"`
	Vals  [][]spec.V `json:"vals"`
	Shape []string   `json:"shape"`
}

// ---------------------------------------------------------------- calling the library

type ures struct {
	ty    cty.Type
	convs []convert.Conversion
	pan   string
}

// unify calls the library in the requested mode. For half of the type lists
// (chosen by a hash of the list, so a pure function of the input) the OTHER
// mode is called first on the same list and its answer discarded: the answer
// of one mode must not depend on what was asked before, in particular not on
// the other mode having been asked about the same types.
func unify(types []cty.Type, unsafe bool) (r ures) {
	h := fnv.New32a()
	for _, ty := range types {
		h.Write([]byte(ty.GoString()))
		h.Write([]byte{0})
	}
	if h.Sum32()&1 == 1 {
		func() {
			defer func() { _ = recover() }()
			if unsafe {
				convert.Unify(types)
			} else {
				convert.UnifyUnsafe(types)
			}
		}()
	}
	defer func() {
		if p := recover(); p != nil {
			r.pan = fmt.Sprint(p)
		}
	}()
	if unsafe {
		r.ty, r.convs = convert.UnifyUnsafe(types)
	} else {
		r.ty, r.convs = convert.Unify(types)
	}
	return
}

type outcome struct {
	v   cty.Value
	err error
	pan string
}

func apply(conv convert.Conversion, v cty.Value) (o outcome) {
	if conv == nil {
		return outcome{v: v}
	}
	defer func() {
		if p := recover(); p != nil {
			o.pan = fmt.Sprint(p)
		}
	}()
	o.v, o.err = conv(v)
	return
}

func modeName(unsafe bool) string {
	if unsafe {
		return "unsafe"
	}
	return "safe"
}

// ---------------------------------------------------------------- generators

var valOpts = gen.ValOpts{Null: true, Unknown: true, Marks: true, ExtremeNums: true, Long: 24}

func clone(a spec.T) spec.T {
	b, _ := json.Marshal(a)
	var out spec.T
	if err := json.Unmarshal(b, &out); err != nil {
		panic(err)
	}
	var rec func(x *spec.T)
	rec = func(x *spec.T) {
		if x.E != nil {
			rec(x.E)
		}
		for i := range x.Elems {
			rec(&x.Elems[i])
		}
		for i := range x.Attrs {
			rec(&x.Attrs[i].T)
		}
		for i, j := 0, len(x.Attrs)-1; i < j; i, j = i+1, j-1 {
			x.Attrs[i], x.Attrs[j] = x.Attrs[j], x.Attrs[i]
		}
	}
	rec(&out)
	return out
}

func wrap(w string, x spec.T) spec.T {
	switch w {
	case "list":
		return spec.List(x)
	case "set":
		return spec.Set(x)
	case "map":
		return spec.Map(x)
	case "tuple1":
		return spec.Tuple(x)
	case "tuple2":
		return spec.Tuple(x, spec.String)
	case "object":
		return spec.Object(spec.Attr{Name: "a", T: x})
	}
	return x
}

func drawVals(t *rapid.T, ty spec.T, n int) []spec.V {
	var out []spec.V
	for i := 0; i < n; i++ {
		if ty.K == spec.KDynamic && rapid.Bool().Draw(t, "anyvalue") {
			// any value may be given to a conversion whose source type is the placeholder
			out = append(out, gen.Value(ty, valOpts).Draw(t, "v"))
			continue
		}
		out = append(out, convgen.ExactValue(ty, valOpts).Draw(t, "v"))
	}
	return out
}

func withVals(t *rapid.T, types []spec.T, shape []string) UIn {
	in := UIn{Types: types, Shape: shape}
	for _, ty := range types {
		in.Vals = append(in.Vals, drawVals(t, ty, 3))
	}
	return in
}

// genLists draws a base type plus structured variants and unrelated types.
func genLists(capsule, allowDyn bool) func(t *rapid.T) UIn {
	return func(t *rapid.T) UIn {
		dyn := allowDyn && rapid.SampledFrom([]bool{false, false, false, true}).Draw(t, "dynamic")
		base := gen.Type(gen.TypeOpts{Depth: 2, Dynamic: dyn, Capsule: capsule, CapsuleOps: capsule}).Draw(t, "base")
		n := rapid.SampledFrom([]int{2, 3, 2, 4, 1}).Draw(t, "n")
		eo := convgen.Opts{Type: gen.TypeOpts{Depth: 2, Dynamic: dyn, Capsule: capsule, CapsuleOps: capsule, Long: 12}, NoOptional: true, NoDynamic: !dyn, MaxEdits: 2}
		var types []spec.T
		var shape []string
		for i := 0; i < n; i++ {
			switch rapid.SampledFrom([]string{"variant", "variant", "variant", "base", "base", "unrelated"}).Draw(t, "member") {
			case "base":
				types = append(types, clone(base))
				shape = append(shape, "base")
			case "unrelated":
				types = append(types, gen.Type(gen.TypeOpts{Depth: 1, Dynamic: dyn, Capsule: capsule, CapsuleOps: capsule}).Draw(t, "unrelated"))
				shape = append(shape, "unrelated")
			default:
				v, labels := convgen.EditType(t, base, nil, eo)
				types = append(types, v)
				for _, l := range labels {
					shape = append(shape, "variant:"+l)
				}
			}
		}
		if w := rapid.SampledFrom([]string{"", "", "", "list", "map", "tuple1", "object", "set", "tuple2"}).Draw(t, "wrap"); w != "" {
			for i := range types {
				types[i] = wrap(w, types[i])
			}
			shape = append(shape, "nested:"+w)
		}
		return withVals(t, types, shape)
	}
}

// genComposed draws mixtures of tuple and list types (or object and map
// types) whose members are related through a conversion chain
// lo -> hi (number/bool -> string) and structural -> collection, so that the
// unification goes through tuples-as-list / objects-as-map and a second
// list->list / map->map conversion.
func genComposed(t *rapid.T) UIn {
	lo := rapid.SampledFrom([]spec.T{spec.Number, spec.Bool, spec.String}).Draw(t, "lo")
	hi := spec.String
	seqFamily := rapid.Bool().Draw(t, "seqfamily")
	inner := func(label string) spec.T {
		leaf := lo
		if rapid.Bool().Draw(t, label+"hi") {
			leaf = hi
		}
		var forms []string
		if seqFamily {
			forms = []string{"tuple1", "list", "tuple1", "list", "tuple1", "list", "leaf", "tuple2", "object"}
		} else {
			forms = []string{"object", "map", "object", "map", "object", "map", "leaf", "tuple1"}
		}
		return wrap(rapid.SampledFrom(forms).Draw(t, label+"form"), leaf)
	}
	mk := func(label string, structural bool) spec.T {
		if structural {
			k := rapid.IntRange(1, 3).Draw(t, label+"k")
			if seqFamily {
				es := make([]spec.T, k)
				for i := range es {
					es[i] = inner(fmt.Sprintf("%s%d", label, i))
				}
				return spec.Tuple(es...)
			}
			names := []string{"a", "b", "c"}
			as := make([]spec.Attr, k)
			for i := range as {
				as[i] = spec.Attr{Name: names[i], T: inner(fmt.Sprintf("%s%d", label, i))}
			}
			return spec.Object(as...)
		}
		if seqFamily {
			return spec.List(inner(label))
		}
		return spec.Map(inner(label))
	}
	types := []spec.T{mk("s", true), mk("c", false)}
	shape := []string{"composed"}
	switch rapid.IntRange(0, 3).Draw(t, "extra") {
	case 0:
		types = append(types, mk("x", true))
	case 1:
		types = append(types, mk("x", false))
	}
	if rapid.Bool().Draw(t, "swap") {
		types[0], types[1] = types[1], types[0]
	}
	return withVals(t, types, shape)
}

func genMixed(t *rapid.T) UIn {
	if rapid.IntRange(0, 3).Draw(t, "composed") == 0 {
		return genComposed(t)
	}
	return genLists(false, true)(t)
}

func genMixedFree(t *rapid.T) UIn {
	if rapid.IntRange(0, 3).Draw(t, "composed") == 0 {
		return genComposed(t)
	}
	if rapid.IntRange(0, 3).Draw(t, "capsules") == 2 {
		// capsule types among the inputs, one of them with conversion operations
		// of its own (which are offered in unsafe mode only)
		return genLists(true, false)(t)
	}
	return genLists(false, false)(t)
}

// ---------------------------------------------------------------- shared oracle pieces

// shadow is a live type that shares storage with one of the input types.
type shadow struct {
	ty   cty.Type
	want spec.T
}

// checkShadows: the types that share storage with the inputs are what they were.
func (b built) checkShadows(in UIn, when string) *facet.Failure {
	for _, sh := range b.shadows {
		if got := spec.FromCty(sh.ty); !got.Equal(sh.want) {
			return facet.Failf("input-storage-rewritten", "%s of %v, a tuple type whose element types are a view into the storage of the live type %s: that type now reads %s", when, in.Types, sh.want, got)
		}
	}
	return nil
}

type built struct {
	shadows []shadow
	types   []cty.Type
	vals    [][]cty.Value // only values whose built type is exactly the input type (or any value for a placeholder input)
	free    bool          // all inputs placeholder-free
}

func build(in UIn) built {
	b := built{free: true}
	for i, ty := range in.Types {
		ct := ty.Cty()
		if ty.K == spec.KTuple && len(ty.Elems) > 0 && (len(ty.String())+i)%2 == 0 {
			// Half of the tuple inputs are handed over as the library itself
			// makes them: the type of slice(unknown longer tuple, 0, n), whose
			// element types are a view into the longer tuple type's storage,
			// with room behind them. The longer type stays alive and is looked
			// at again after the unification.
			long := spec.Tuple(append(append([]spec.T(nil), ty.Elems...), spec.String, spec.Bool, spec.Number)...)
			lt := long.Cty()
			if pre, err := stdlib.SliceFunc.ReturnTypeForValues([]cty.Value{cty.UnknownVal(lt), cty.NumberIntVal(0), cty.NumberIntVal(int64(len(ty.Elems)))}); err == nil && pre.Equals(ct) {
				ct = pre
				b.shadows = append(b.shadows, shadow{ty: lt, want: long})
			}
		}
		b.types = append(b.types, ct)
		if ty.HasDynamic() {
			b.free = false
		}
		var vs []cty.Value
		if i < len(in.Vals) {
			for _, sv := range in.Vals[i] {
				v, err := spec.Build(sv)
				if err != nil {
					continue
				}
				if ct != cty.DynamicPseudoType && !v.Type().Equals(ct) {
					continue
				}
				vs = append(vs, v)
			}
		}
		b.vals = append(b.vals, vs)
	}
	return b
}

func distinctTypes(ts []spec.T) int {
	n := 0
	for i, a := range ts {
		dup := false
		for _, b := range ts[:i] {
			if a.Equal(b) {
				dup = true
			}
		}
		if !dup {
			n++
		}
	}
	return n
}

// mixture reports whether the top-level kinds mix tuple+list or object+map
// (the inputs for which unify.go composes two conversions in a closure).
func mixture(ts []spec.T) bool {
	var tup, lst, obj, mp, other int
	for _, x := range ts {
		switch x.K {
		case spec.KTuple:
			tup++
		case spec.KList:
			lst++
		case spec.KObject:
			obj++
		case spec.KMap:
			mp++
		case spec.KDynamic:
		default:
			other++
		}
	}
	if other > 0 {
		return false
	}
	return (tup > 0 && lst > 0 && obj == 0 && mp == 0) || (obj > 0 && mp > 0 && tup == 0 && lst == 0)
}

func classify(c *facet.Ctx, in UIn, r ures) {
	for _, s := range in.Shape {
		c.Label("shape=" + s)
	}
	c.Labelf("n=%d", len(in.Types))
	if r.ty == cty.NilType {
		c.Label("outcome=no-unification")
		return
	}
	c.Label("outcome=unified")
	nonNil := 0
	for _, cv := range r.convs {
		if cv != nil {
			nonNil++
		}
	}
	if mixture(in.Types) {
		c.Label("composed")
	}
	if distinctTypes(in.Types) >= 2 && nonNil > 0 {
		c.NonTrivial()
	}
}

const causeComposed = "composed closure: the second (collection) conversion is applied to the original input instead of the first conversion's result"

// failureCause decides whether a misbehaving conversion slot i is explained
// by the composed closure of unifyTuplesAsList / unifyObjectsAsMaps: the
// inputs are a top-level tuple+list (object+map) mixture, slot i belongs to a
// structural input, and the direct conversion from the input type to the
// unified type behaves correctly on the same value.
func failureCause(in UIn, b built, i int, u cty.Type, v cty.Value, unsafe bool) string {
	// the C08 finding "set of unknown length -> list keeps the input element
	// type" also surfaces through conversions returned by unification
	it := spec.FromCty(v.Type())
	if cause.SetToListElemChange([]cty.Value{v}, &it, spec.FromCty(u)) {
		return cause.UnknownSetToList
	}
	if !mixture(in.Types) || !(in.Types[i].K == spec.KTuple || in.Types[i].K == spec.KObject) {
		return ""
	}
	// a structural input of a mixture is converted in two steps (to the
	// unification of the structural inputs alone, then on to the result): the
	// set of unknown length may only appear in the intermediate value
	if mid, midTy := intermediate(in, b, v, unsafe); midTy != cty.NilType {
		// first step: input -> intermediate type
		if cause.SetToListElemChange([]cty.Value{v}, &it, spec.FromCty(midTy)) {
			return cause.UnknownSetToList
		}
		// second step: intermediate value -> result type
		if mid != cty.NilVal {
			mt := spec.FromCty(mid.Type())
			if cause.SetToListElemChange([]cty.Value{mid}, &mt, spec.FromCty(u)) {
				return cause.UnknownSetToList
			}
		}
	}
	var direct convert.Conversion
	func() {
		defer func() { recover() }()
		if unsafe {
			direct = convert.GetConversionUnsafe(b.types[i], u)
		} else {
			direct = convert.GetConversion(b.types[i], u)
		}
	}()
	if direct == nil {
		return ""
	}
	o := apply(direct, v)
	if o.pan != "" || o.err != nil || !o.v.Type().Equals(u) {
		return ""
	}
	return causeComposed
}

// intermediate recomputes the first step of a composed conversion: v
// converted to the unification of the structural (tuple/object) inputs alone.
// Classification only.
func intermediate(in UIn, b built, v cty.Value, unsafe bool) (ret cty.Value, retTy cty.Type) {
	ret, retTy = cty.NilVal, cty.NilType
	defer func() {
		if recover() != nil {
			ret = cty.NilVal
		}
	}()
	// unify.go forces the structural inputs into one collection type whose
	// element type unifies all of their member types
	var members []cty.Type
	isTuple := false
	for j, t := range in.Types {
		switch t.K {
		case spec.KTuple:
			isTuple = true
			members = append(members, b.types[j].TupleElementTypes()...)
		case spec.KObject:
			for _, at := range b.types[j].AttributeTypes() {
				members = append(members, at)
			}
		}
	}
	r := unify(members, unsafe)
	if r.pan != "" || r.ty == cty.NilType {
		return
	}
	retTy = cty.Map(r.ty)
	if isTuple {
		retTy = cty.List(r.ty)
	}
	mid, err := convert.Convert(v, retTy)
	if err != nil {
		return
	}
	return mid, retTy
}

// checkApply applies every returned conversion to every value of its input
// type. noError additionally demands that no conversion fails.
func checkApply(c *facet.Ctx, in UIn, b built, r ures, unsafe, noError bool) error {
	us := spec.FromCty(r.ty)
	mode := modeName(unsafe)
	if len(r.convs) != len(b.types) {
		return facet.Failf("slot-count", "%s unification of %v returned %d conversion slots for %d types", mode, in.Types, len(r.convs), len(b.types))
	}
	for i := range b.types {
		for _, v := range b.vals[i] {
			o := apply(r.convs[i], v)
			if o.pan != "" {
				f := facet.Failf("conv-panic", "%s unification of %v -> %s: conversion %d panicked on %#v: %s", mode, in.Types, us, i, v, o.pan).With("mode", mode)
				if cause := failureCause(in, b, i, r.ty, v, unsafe); cause != "" {
					f.With("cause", cause)
				}
				return f
			}
			if o.err != nil {
				c.Label("conversion-error:" + mode)
				if noError {
					f := facet.Failf("safe-conv-fails", "safe unification of placeholder-free %v -> %s: conversion %d fails on %#v: %v", in.Types, us, i, v, o.err).With("mode", mode)
					if cause := failureCause(in, b, i, r.ty, v, unsafe); cause != "" {
						f.With("cause", cause)
					}
					return f
				}
				continue
			}
			c.Label("applied:" + mode)
			rt := spec.FromCty(o.v.Type())
			okType := rt.Conforms(us)
			if !us.HasDynamic() {
				okType = rt.Equal(us) && o.v.Type().Equals(r.ty)
			}
			if !okType {
				f := facet.Failf("apply-type", "%s unification of %v -> %s: conversion %d turned %#v into a value of type %s", mode, in.Types, us, i, v, rt).With("mode", mode)
				if cause := failureCause(in, b, i, r.ty, v, unsafe); cause != "" {
					f.With("cause", cause)
				}
				return f
			}
			if f := wf.Check(o.v); f != nil {
				return f
			}
		}
	}
	return nil
}

func failPanic(in UIn, r ures, unsafe bool) *facet.Failure {
	return facet.Failf("unify-panic", "%s unification of %v panicked: %s", modeName(unsafe), in.Types, r.pan).With("mode", modeName(unsafe))
}

func init() {
	const ntRule = "at least two distinct input types, unification succeeds and at least one returned conversion is non-nil; distinct = hash of the JSON of (types, values)"

	// ------------------------------------------------------------ nopanic
	facet.Register(facet.F[UIn]{
		Prop: "C09", Name: "nopanic",
		Rule:  ntRule + "; capsule types and placeholders included; Unify, UnifyUnsafe and every returned conversion (applied to 3 values per input type) run under recover",
		Quick: 80000, Thorough: 180000,
		Gen: func(t *rapid.T) UIn {
			if rapid.IntRange(0, 3).Draw(t, "composed") == 0 {
				return genComposed(t)
			}
			return genLists(true, true)(t)
		},
		Check: func(c *facet.Ctx, in UIn) error {
			b := build(in)
			for _, unsafe := range []bool{false, true} {
				r := unify(b.types, unsafe)
				if r.pan != "" {
					return failPanic(in, r, unsafe)
				}
				if !unsafe {
					classify(c, in, r)
				}
				if r.ty == cty.NilType || len(r.convs) != len(b.types) {
					continue
				}
				for i := range b.types {
					for _, v := range b.vals[i] {
						if f := b.checkShadows(in, modeName(unsafe)+" unification"); f != nil {
							return f
						}
						if o := apply(r.convs[i], v); o.pan != "" {
							f := facet.Failf("conv-panic", "%s unification of %v -> %s: conversion %d panicked on %#v: %s", modeName(unsafe), in.Types, spec.FromCty(r.ty), i, v, o.pan).With("mode", modeName(unsafe))
							if cause := failureCause(in, b, i, r.ty, v, unsafe); cause != "" {
								f.With("cause", cause)
							}
							return f
						}
					}
				}
			}
			return nil
		},
	})

	// ------------------------------------------------------------ apply/type
	facet.Register(facet.F[UIn]{
		Prop: "C09", Name: "apply/type",
		Rule:  ntRule + "; both modes; every conversion (identity for a nil slot) applied to 3 values of exactly its input type (known with nested nulls/unknowns, null, unknown, empty collections) must yield a value whose type equals the unified type (conforms, when it has placeholders)",
		Quick: 80000, Thorough: 180000,
		Gen: genMixed,
		Check: func(c *facet.Ctx, in UIn) error {
			b := build(in)
			for _, unsafe := range []bool{false, true} {
				r := unify(b.types, unsafe)
				if r.pan != "" {
					return failPanic(in, r, unsafe)
				}
				if !unsafe {
					classify(c, in, r)
				}
				if r.ty == cty.NilType {
					if r.convs != nil {
						return facet.Failf("failed-with-conversions", "%s unification of %v failed but returned a non-nil conversion slice", modeName(unsafe), in.Types)
					}
					continue
				}
				if f := b.checkShadows(in, modeName(unsafe)+" unification"); f != nil {
					return f
				}
				if err := checkApply(c, in, b, r, unsafe, false); err != nil {
					return err
				}
			}
			return nil
		},
	})

	// ------------------------------------------------------------ apply/safe-no-error
	facet.Register(facet.F[UIn]{
		Prop: "C09", Name: "apply/safe-no-error",
		Rule:  "placeholder-free input types; " + ntRule + "; safe mode only: no returned conversion may fail on any value of its input type, and for every non-nil slot GetConversion(input, result) must be offered (safe unification never relies on an unsafe conversion)",
		Quick: 80000, Thorough: 180000,
		Gen: genMixedFree,
		Check: func(c *facet.Ctx, in UIn) error {
			b := build(in)
			if !b.free {
				c.Skip()
				return nil
			}
			r := unify(b.types, false)
			if r.pan != "" {
				return failPanic(in, r, false)
			}
			classify(c, in, r)
			if r.ty == cty.NilType {
				return nil
			}
			if err := checkApply(c, in, b, r, false, true); err != nil {
				return err
			}
			for i, cv := range r.convs {
				if cv == nil {
					continue
				}
				var direct convert.Conversion
				pan := ""
				func() {
					defer func() {
						if p := recover(); p != nil {
							pan = fmt.Sprint(p)
						}
					}()
					direct = convert.GetConversion(b.types[i], r.ty)
				}()
				if pan != "" {
					return facet.Failf("conv-panic", "GetConversion(%s, %s) panicked: %s", in.Types[i], spec.FromCty(r.ty), pan)
				}
				if direct == nil {
					return facet.Failf("safe-relies-on-unsafe", "safe unification of %v -> %s returned a conversion for input %d although GetConversion(%s, %s) is not offered", in.Types, spec.FromCty(r.ty), i, in.Types[i], spec.FromCty(r.ty))
				}
			}
			return nil
		},
	})

	// ------------------------------------------------------------ nil-iff-equal
	facet.Register(facet.F[UIn]{
		Prop: "C09", Name: "nil-iff-equal",
		Rule:  "placeholder-free input types; " + ntRule + "; both modes: slot i is nil exactly when input i equals the unified type",
		Quick: 80000, Thorough: 180000,
		Gen: genMixedFree,
		Check: func(c *facet.Ctx, in UIn) error {
			b := build(in)
			if !b.free {
				c.Skip()
				return nil
			}
			for _, unsafe := range []bool{false, true} {
				r := unify(b.types, unsafe)
				if r.pan != "" {
					return failPanic(in, r, unsafe)
				}
				if !unsafe {
					classify(c, in, r)
				}
				if r.ty == cty.NilType {
					continue
				}
				if len(r.convs) != len(b.types) {
					return facet.Failf("slot-count", "%s unification of %v returned %d slots", modeName(unsafe), in.Types, len(r.convs))
				}
				us := spec.FromCty(r.ty)
				if us.HasOptional() {
					return facet.Failf("unified-optional", "unified type %s carries optional-attribute annotations", us)
				}
				for i, cv := range r.convs {
					eq := in.Types[i].Equal(us) && b.types[i].Equals(r.ty)
					if (cv == nil) != eq {
						return facet.Failf("nil-iff-equal", "%s unification of %v -> %s: slot %d nil=%t but input equals result=%t", modeName(unsafe), in.Types, us, i, cv == nil, eq).
							With("mode", modeName(unsafe))
					}
				}
			}
			return nil
		},
	})

	// ------------------------------------------------------------ same-types
	facet.Register(facet.F[UIn]{
		Prop: "C09", Name: "same-types",
		Rule:  "1..4 separately rebuilt copies of one generated type (depth <= 3, placeholders allowed, attribute order permuted); non-trivial when the type is compound; both modes: the result is that type and every slot is nil",
		Quick: 60000, Thorough: 200000,
		Gen: func(t *rapid.T) UIn {
			base := gen.Type(gen.TypeOpts{Depth: 3, Dynamic: true}).Draw(t, "base")
			n := rapid.SampledFrom([]int{2, 3, 1, 4}).Draw(t, "n")
			in := UIn{Shape: []string{"same"}}
			for i := 0; i < n; i++ {
				if i%2 == 0 {
					in.Types = append(in.Types, base)
				} else {
					in.Types = append(in.Types, clone(base))
				}
			}
			return in
		},
		Check: func(c *facet.Ctx, in UIn) error {
			b := build(in)
			if in.Types[0].Depth() >= 1 {
				c.NonTrivial()
			}
			c.Labelf("n=%d", len(in.Types))
			if in.Types[0].HasDynamic() {
				c.Label("has-dynamic")
			}
			for _, unsafe := range []bool{false, true} {
				r := unify(b.types, unsafe)
				if r.pan != "" {
					return failPanic(in, r, unsafe)
				}
				if r.ty == cty.NilType {
					return facet.Failf("same-types-fail", "%s unification of %d copies of %s failed", modeName(unsafe), len(in.Types), in.Types[0])
				}
				if !r.ty.Equals(b.types[0]) || !spec.FromCty(r.ty).Equal(in.Types[0]) {
					return facet.Failf("same-types-type", "%s unification of %d copies of %s returned %s", modeName(unsafe), len(in.Types), in.Types[0], spec.FromCty(r.ty))
				}
				if len(r.convs) != len(b.types) {
					return facet.Failf("slot-count", "%s unification of %d copies of %s returned %d slots", modeName(unsafe), len(in.Types), in.Types[0], len(r.convs))
				}
				for i, cv := range r.convs {
					if cv != nil {
						return facet.Failf("same-types-conv", "%s unification of %d copies of %s returned a conversion for input %d", modeName(unsafe), len(in.Types), in.Types[0], i)
					}
				}
			}
			return nil
		},
	})

	// ------------------------------------------------------------ safe-implies-unsafe
	facet.Register(facet.F[UIn]{
		Prop: "C09", Name: "safe-implies-unsafe",
		Rule:  "placeholder-free input types; non-trivial when >= 2 distinct types and safe unification succeeds; then unsafe unification must succeed too",
		Quick: 80000, Thorough: 180000,
		Gen: genMixedFree,
		Check: func(c *facet.Ctx, in UIn) error {
			b := build(in)
			if !b.free {
				c.Skip()
				return nil
			}
			rs := unify(b.types, false)
			if rs.pan != "" {
				return failPanic(in, rs, false)
			}
			ru := unify(b.types, true)
			if ru.pan != "" {
				return failPanic(in, ru, true)
			}
			for _, s := range in.Shape {
				c.Label("shape=" + s)
			}
			switch {
			case rs.ty != cty.NilType && ru.ty != cty.NilType:
				c.Label("safe+unsafe")
				if !rs.ty.Equals(ru.ty) {
					c.Label("different-result-types")
				}
			case ru.ty != cty.NilType:
				c.Label("unsafe-only")
			case rs.ty != cty.NilType:
				c.Label("safe-only")
			default:
				c.Label("none")
			}
			if rs.ty != cty.NilType && distinctTypes(in.Types) >= 2 {
				c.NonTrivial()
			}
			if rs.ty != cty.NilType && ru.ty == cty.NilType {
				return facet.Failf("safe-not-unsafe", "Unify(%v) = %s but UnifyUnsafe fails", in.Types, spec.FromCty(rs.ty))
			}
			return nil
		},
	})

	// ------------------------------------------------------------ composed
	facet.Register(facet.F[UIn]{
		Prop: "C09", Name: "composed",
		Rule:  "tuple+list and object+map mixtures whose members are related through the chain number/bool -> string and structural -> collection (so that unify.go composes a structural->collection and a collection->collection conversion); non-trivial when unification succeeds with a non-nil conversion; both modes: applied conversions yield the unified type, and in safe mode on placeholder-free inputs never fail",
		Quick: 80000, Thorough: 180000,
		Gen: genComposed,
		Check: func(c *facet.Ctx, in UIn) error {
			b := build(in)
			for _, unsafe := range []bool{false, true} {
				r := unify(b.types, unsafe)
				if r.pan != "" {
					return failPanic(in, r, unsafe)
				}
				if !unsafe {
					classify(c, in, r)
				}
				if r.ty == cty.NilType {
					continue
				}
				if err := checkApply(c, in, b, r, unsafe, !unsafe && b.free); err != nil {
					return err
				}
			}
			return nil
		},
	})
}

// ---------------------------------------------------------------- safe/placeholder-members

// genWithPlaceholder draws a type list as genLists does and puts the bare
// placeholder among its members (1-2 times, any position): unification then
// has to answer for an input about which nothing is known.
func genWithPlaceholder(t *rapid.T) UIn {
	in := genLists(false, false)(t)
	k := rapid.IntRange(1, 2).Draw(t, "placeholders")
	types := append([]spec.T(nil), in.Types...)
	for i := 0; i < k; i++ {
		at := rapid.IntRange(0, len(types)).Draw(t, "at")
		types = append(types[:at], append([]spec.T{spec.Dynamic}, types[at:]...)...)
	}
	if rapid.IntRange(0, 5).Draw(t, "only") == 0 {
		types = types[:0]
		for i := 0; i < k; i++ {
			types = append(types, spec.Dynamic)
		}
	}
	return withVals(t, types, append(in.Shape, "bare-placeholder-member"))
}

func init() {
	facet.Register(facet.F[UIn]{
		Prop: "C09", Name: "safe/placeholder-members",
		Rule:  "a type list as in the other facets with the bare placeholder as one or two of its members (or only placeholders); safe mode: no panic, every applied conversion yields a value conforming to the result, and for EVERY input with a non-nil slot - the placeholder included - GetConversion(input, result) must be offered (safe unification never relies on an unsafe conversion: a conversion from the placeholder exists only in unsafe mode); copies of one type (all placeholders) unify to it with no conversions; unsafe mode: no panic; non-trivial when safe unification succeeds with at least one concrete member",
		Quick: 60000, Thorough: 150000,
		Gen: genWithPlaceholder,
		Check: func(c *facet.Ctx, in UIn) error {
			b := build(in)
			if ru := unify(b.types, true); ru.pan != "" {
				return failPanic(in, ru, true)
			}
			r := unify(b.types, false)
			if r.pan != "" {
				return failPanic(in, r, false)
			}
			classify(c, in, r)
			if r.ty == cty.NilType {
				return nil
			}
			concrete := false
			allDyn := true
			for _, ty := range in.Types {
				if ty.K != spec.KDynamic {
					concrete = true
					allDyn = false
				}
			}
			if concrete {
				c.NonTrivial()
			}
			if err := checkApply(c, in, b, r, false, false); err != nil {
				return err
			}
			for i, cv := range r.convs {
				if allDyn && cv != nil {
					return facet.Failf("same-types-conversion", "safe unification of %v (copies of one type) returned a conversion for input %d", in.Types, i)
				}
				if cv == nil {
					continue
				}
				var direct convert.Conversion
				pan := ""
				func() {
					defer func() {
						if p := recover(); p != nil {
							pan = fmt.Sprint(p)
						}
					}()
					direct = convert.GetConversion(b.types[i], r.ty)
				}()
				if pan != "" {
					return facet.Failf("conv-panic", "GetConversion(%s, %s) panicked: %s", in.Types[i], spec.FromCty(r.ty), pan)
				}
				if direct == nil {
					return facet.Failf("safe-relies-on-unsafe", "safe unification of %v -> %s returned a conversion for input %d although GetConversion(%s, %s) is not offered", in.Types, spec.FromCty(r.ty), i, in.Types[i], spec.FromCty(r.ty))
				}
			}
			if allDyn && !spec.FromCty(r.ty).Equal(spec.Dynamic) {
				return facet.Failf("same-types-result", "safe unification of %v (copies of one type) returned %s", in.Types, spec.FromCty(r.ty))
			}
			return nil
		},
	})
}
