package c15

import (
	"encoding/json"
	"strings"

	"verif/harness/codecgen"
	"verif/harness/facet"
	"verif/harness/spec"
)

// Predicates of the known findings of C15. Each recognises one root cause
// from the failure kind the check assigned *and* from the input itself.

func caseOf(facetName string, raw json.RawMessage) (v *spec.V, c *spec.T, d *codecgen.Doc) {
	switch facetName {
	case "roundtrip/value":
		var in codecgen.Case
		if json.Unmarshal(raw, &in) == nil {
			return &in.V, &in.C, nil
		}
	case "doc/reencode":
		var in DocIn
		if json.Unmarshal(raw, &in) == nil {
			return nil, nil, &in.D
		}
	case "simple/both-ways":
		var in SimpleIn
		if json.Unmarshal(raw, &in) == nil {
			return in.V, nil, in.D
		}
	}
	return nil, nil, nil
}

// mixedFailure: the decoder could not build a collection whose members came
// back with different types, although the type-flow model predicted exactly
// that for this input. The decoder either panics in the collection
// constructor ("inconsistent ... element types") or, once it checks first,
// reports "all ... elements must have the same type".
func mixedFailure(f *facet.Failure) bool {
	if f.Data["mixed"] != "true" {
		return false
	}
	switch f.Kind {
	case "decode-panic":
		return strings.Contains(f.Msg, "inconsistent") && strings.Contains(f.Msg, "element types")
	case "decode-error":
		return strings.Contains(f.Msg, "elements must have the same type")
	}
	return false
}

func init() {
	// The result type differs from the original only below a null / empty
	// position whose constraint contains a placeholder: the check emits this
	// kind only after the result type matched the type-flow model exactly and
	// the data compared equal; the input must contain such a position.
	facet.RegisterKnown("c15TypeLostUnderPlaceholder", func(facetName string, raw json.RawMessage, f *facet.Failure) bool {
		if f.Kind != "type-lost-under-placeholder" || facetName != "roundtrip/value" {
			return false
		}
		v, c, _ := caseOf(facetName, raw)
		return v != nil && c != nil && codecgen.LossPositions(*v, *c) > 0
	})

	// A collection mixing such a member with one that carries its type makes
	// the decoder's collection constructor panic on the encoder's own output.
	facet.RegisterKnown("c15MixedMembersPanic", func(facetName string, raw json.RawMessage, f *facet.Failure) bool {
		if facetName != "roundtrip/value" || !mixedFailure(f) {
			return false
		}
		v, c, _ := caseOf(facetName, raw)
		return v != nil && c != nil && codecgen.LossPositions(*v, *c) > 0
	})

	// A whole number whose big.Float precision is too low for its shortest
	// decimal text to denote it comes back as the integer that text denotes.
	facet.RegisterKnown("c15LowPrecWholeNumber", func(facetName string, raw json.RawMessage, f *facet.Failure) bool {
		if f.Kind != "number-lowprec-whole" {
			return false
		}
		v, _, _ := caseOf(facetName, raw)
		return v != nil && codecgen.HasLowPrecWhole(*v)
	})

	// A document whose object has a member name that is not NFC-normalized:
	// ImpliedType normalizes the name, Unmarshal looks the raw name up and
	// reports "unsupported attribute".
	facet.RegisterKnown("c15NonNormalizedKey", func(facetName string, raw json.RawMessage, f *facet.Failure) bool {
		if f.Kind != "doc-unmarshal-error" || !strings.Contains(f.Msg, "unsupported attribute") {
			return false
		}
		_, _, d := caseOf(facetName, raw)
		return d != nil && d.HasNonNFCKey()
	})
}
