// Package c15: JSON encoding round-trips values and agrees with plain JSON.
package c15

import (
	"encoding/json"
	"fmt"
	"math/big"
	"strings"

	"github.com/zclconf/go-cty/cty"
	ctyjson "github.com/zclconf/go-cty/cty/json"
	"pgregory.net/rapid"

	"verif/harness/codecgen"
	"verif/harness/facet"
	"verif/harness/spec"
	"verif/harness/wf"
)

// ---------------------------------------------------------------- guarded library calls

// decoys are marshalled between Marshal(v) and Unmarshal(bytes of v): a round
// trip must not depend on the encoder being left alone in between (bytes are
// stored and decoded later in every real use).
var decoys = func() []cty.Value {
	long := make([]cty.Value, 48)
	for i := range long {
		long[i] = cty.NumberIntVal(int64(i) * 1000003)
	}
	return []cty.Value{cty.StringVal("\u00e9decoy"), cty.TupleVal(long), cty.NullVal(cty.Map(cty.Bool))}
}()

// interleave marshals the decoys and reports whether that disturbed b, the
// bytes an earlier Marshal call returned.
func interleave(b []byte, v cty.Value, c spec.T) *facet.Failure {
	before := append([]byte(nil), b...)
	for _, d := range decoys {
		if _, err, pan := marshal(d, cty.DynamicPseudoType); err != nil || pan != nil {
			return facet.Failf("decoy-marshal-failed", "Marshal(%#v, dynamic) failed: %v %v", d, err, pan)
		}
	}
	if string(before) != string(b) {
		return facet.Failf("marshal-output-overwritten", "the bytes returned by Marshal(%#v, %s) were %q and read %q after later Marshal calls on other values", v, c, clip(before), clip(b))
	}
	return nil
}

func marshal(v cty.Value, ty cty.Type) (b []byte, err error, pan any) {
	defer func() {
		if r := recover(); r != nil {
			pan = r
		}
	}()
	b, err = ctyjson.Marshal(v, ty)
	return
}

func unmarshal(b []byte, ty cty.Type) (v cty.Value, err error, pan any) {
	defer func() {
		if r := recover(); r != nil {
			pan = r
		}
	}()
	v, err = ctyjson.Unmarshal(b, ty)
	return
}

func impliedType(b []byte) (ty cty.Type, err error, pan any) {
	defer func() {
		if r := recover(); r != nil {
			pan = r
		}
	}()
	ty, err = ctyjson.ImpliedType(b)
	return
}

func clip(b []byte) string {
	if len(b) > 300 {
		return string(b[:300]) + "..."
	}
	return string(b)
}

// ---------------------------------------------------------------- classification helpers

func nfcChanging(v spec.V) bool {
	if v.St == spec.Known && v.T.K == spec.KString && spec.NFC(v.S) != v.S {
		return true
	}
	for _, k := range v.Keys {
		if spec.NFC(k) != k {
			return true
		}
	}
	for _, e := range v.Elems {
		if nfcChanging(e) {
			return true
		}
	}
	return false
}

var two63 = new(big.Float).SetMantExp(big.NewFloat(1), 63)

// riskyNumber: non-integral, or beyond the int64 range.
func riskyNumber(v spec.V) bool {
	if v.St == spec.Known && v.T.K == spec.KNumber && v.N != nil {
		f := v.N.Float()
		if !f.IsInf() && (!f.IsInt() || new(big.Float).Abs(f).Cmp(two63) >= 0) {
			return true
		}
	}
	for _, e := range v.Elems {
		if riskyNumber(e) {
			return true
		}
	}
	return false
}

func classifyCase(c *facet.Ctx, in codecgen.Case) {
	below := codecgen.DynBelowRoot(in.C)
	if below || riskyNumber(in.V) || nfcChanging(in.V) {
		c.NonTrivial()
	}
	switch {
	case in.C.K == spec.KDynamic:
		c.Label("constraint=dynamic-root")
	case below:
		c.Label("constraint=dynamic-below")
	default:
		c.Label("constraint=exact")
	}
	if in.V.HasNullInside() {
		c.Label("has-null")
	}
	if codecgen.LossPositions(in.V, in.C) > 0 {
		c.Label("null-or-empty-above-placeholder")
	}
	if riskyNumber(in.V) {
		c.Label("risky-number")
	}
	if codecgen.HasLowPrecWhole(in.V) {
		c.Label("lowprec-whole-number")
	}
	if nfcChanging(in.V) {
		c.Label("nfc-changing")
	}
}

// ---------------------------------------------------------------- roundtrip/value

func checkRoundTrip(c *facet.Ctx, in codecgen.Case) error {
	if !in.V.WhollyKnown() || in.V.HasMarks() || !in.V.T.Conforms(in.C) {
		c.Skip()
		return nil
	}
	v, err := spec.Build(in.V)
	if err != nil {
		c.Skip()
		return nil
	}
	classifyCase(c, in)
	if f := wf.Check(v); f != nil {
		return f
	}
	ct := in.C.Cty()
	vt := spec.FromCty(v.Type())
	b, err, pan := marshal(v, ct)
	if pan != nil {
		return facet.Failf("marshal-panic", "Marshal(%#v, %s) panicked: %v", v, in.C, pan)
	}
	if err != nil {
		return facet.Failf("marshal-error", "Marshal(%#v, %s) failed: %v", v, in.C, err)
	}
	if f := interleave(b, v, in.C); f != nil {
		return f
	}
	if !json.Valid(b) {
		return facet.Failf("invalid-json", "Marshal(%#v, %s) produced invalid JSON %q", v, in.C, clip(b))
	}
	exp, mixed := codecgen.ExpectedType(v, in.C)
	got, err, pan := unmarshal(b, ct)
	if pan != nil {
		f := facet.Failf("decode-panic", "Unmarshal of the encoder's own output %s under %s panicked: %v", clip(b), in.C, pan)
		if mixed {
			f.With("mixed", "true")
		}
		return f
	}
	if err != nil {
		f := facet.Failf("decode-error", "Unmarshal of the encoder's own output %s under %s failed: %v", clip(b), in.C, err)
		if mixed {
			f.With("mixed", "true")
		}
		return f
	}
	if mixed {
		c.Label("mixed-but-decoded")
	}
	if f := wf.Check(got); f != nil {
		return f
	}
	gt := spec.FromCty(got.Type())
	if !gt.Conforms(in.C) {
		return facet.Failf("result-nonconforming", "result type %s does not conform to the constraint %s", gt, in.C)
	}
	// (b) the weaker relation: the result type is the model's expected type
	if !gt.Equal(exp) {
		return facet.Failf("type-unexpected", "%#v under %s came back typed %s; the original is %s and the type-flow model allows only %s (bytes %s)", v, in.C, gt, vt, exp, clip(b))
	}
	diffs := codecgen.Compare(v, got, codecgen.CmpOpts{})
	low, other := codecgen.SplitDiffs(diffs)
	if len(other) > 0 {
		return facet.Failf("value-changed", "%#v under %s came back as %#v: %s (bytes %s)", v, in.C, got, other[0], clip(b))
	}
	sameType := got.Type().Equals(v.Type())
	if len(low) == 0 && sameType {
		eq := got.Equals(v)
		if !eq.IsKnown() || eq.False() {
			return facet.Failf("equals-false", "no structural difference found but result.Equals(original) = %#v for %#v (bytes %s)", eq, v, clip(b))
		}
	}
	if len(low) > 0 {
		return facet.Failf("number-lowprec-whole", "%#v under %s: %s (bytes %s)", v, in.C, low[0], clip(b)).With("ndiffs", fmt.Sprint(len(low)))
	}
	// (a) the property as stated: same type
	if !sameType {
		return facet.Failf("type-lost-under-placeholder", "%#v (type %s) under %s came back typed %s: type information is lost only below a null / empty position whose constraint contains a placeholder (bytes %s)", v, vt, in.C, gt, clip(b)).
			With("got", gt.String()).With("want", vt.String())
	}
	return nil
}

// ---------------------------------------------------------------- bytes/plain-json-mirror

// jnode is a JSON tree read with encoding/json's tokenizer; object members
// keep their order and duplicates.
type jnode struct {
	kind  string // null bool num str arr obj
	b     bool
	num   string
	s     string
	elems []jnode
	keys  []string
}

func parseJSON(b []byte) (jnode, error) {
	dec := json.NewDecoder(strings.NewReader(string(b)))
	dec.UseNumber()
	n, err := parseNode(dec)
	if err != nil {
		return jnode{}, err
	}
	if _, err := dec.Token(); err == nil {
		return jnode{}, fmt.Errorf("trailing data after the JSON value")
	}
	return n, nil
}

func parseNode(dec *json.Decoder) (jnode, error) {
	tok, err := dec.Token()
	if err != nil {
		return jnode{}, err
	}
	return parseTok(tok, dec)
}

func parseTok(tok json.Token, dec *json.Decoder) (jnode, error) {
	switch t := tok.(type) {
	case nil:
		return jnode{kind: "null"}, nil
	case bool:
		return jnode{kind: "bool", b: t}, nil
	case json.Number:
		return jnode{kind: "num", num: string(t)}, nil
	case string:
		return jnode{kind: "str", s: t}, nil
	case json.Delim:
		switch t {
		case '[':
			n := jnode{kind: "arr"}
			for dec.More() {
				e, err := parseNode(dec)
				if err != nil {
					return jnode{}, err
				}
				n.elems = append(n.elems, e)
			}
			if _, err := dec.Token(); err != nil {
				return jnode{}, err
			}
			return n, nil
		case '{':
			n := jnode{kind: "obj"}
			for dec.More() {
				kt, err := dec.Token()
				if err != nil {
					return jnode{}, err
				}
				k, ok := kt.(string)
				if !ok {
					return jnode{}, fmt.Errorf("object key is not a string")
				}
				e, err := parseNode(dec)
				if err != nil {
					return jnode{}, err
				}
				n.keys = append(n.keys, k)
				n.elems = append(n.elems, e)
			}
			if _, err := dec.Token(); err != nil {
				return jnode{}, err
			}
			return n, nil
		}
	}
	return jnode{}, fmt.Errorf("unexpected token %v", tok)
}

func (n jnode) member(k string) (jnode, int) {
	cnt := 0
	var out jnode
	for i, x := range n.keys {
		if x == k {
			cnt++
			out = n.elems[i]
		}
	}
	return out, cnt
}

// typeFromDescriptor reads the type descriptor found in a dynamic wrapper.
func typeFromDescriptor(n jnode) (spec.T, error) {
	switch n.kind {
	case "str":
		switch n.s {
		case "bool":
			return spec.Bool, nil
		case "number":
			return spec.Number, nil
		case "string":
			return spec.String, nil
		case "dynamic":
			return spec.Dynamic, nil
		}
		return spec.T{}, fmt.Errorf("unknown primitive type name %q", n.s)
	case "arr":
		if len(n.elems) != 2 || n.elems[0].kind != "str" {
			return spec.T{}, fmt.Errorf("type descriptor array must be [kind, argument]")
		}
		arg := n.elems[1]
		switch k := n.elems[0].s; k {
		case "list", "set", "map":
			e, err := typeFromDescriptor(arg)
			if err != nil {
				return spec.T{}, err
			}
			return spec.T{K: k, E: &e}, nil
		case "tuple":
			if arg.kind != "arr" {
				return spec.T{}, fmt.Errorf("tuple descriptor needs an array")
			}
			es := make([]spec.T, len(arg.elems))
			for i, x := range arg.elems {
				e, err := typeFromDescriptor(x)
				if err != nil {
					return spec.T{}, err
				}
				es[i] = e
			}
			return spec.T{K: spec.KTuple, Elems: es}, nil
		case "object":
			if arg.kind != "obj" {
				return spec.T{}, fmt.Errorf("object descriptor needs an object")
			}
			var as []spec.Attr
			for i, x := range arg.elems {
				e, err := typeFromDescriptor(x)
				if err != nil {
					return spec.T{}, err
				}
				as = append(as, spec.Attr{Name: arg.keys[i], T: e})
			}
			return spec.T{K: spec.KObject, Attrs: as}, nil
		}
	}
	return spec.T{}, fmt.Errorf("bad type descriptor")
}

// withinUlp reports whether y lies within one unit in the last place of x at
// x's own precision. (The shortest decimal text of a binary float lies within
// half a unit; math/big's shortest-text search uses a symmetric interval, so
// at a power of two the text may re-parse to the neighbour below: the mirror
// only demands that the literal denotes the value up to its precision.)
func withinUlp(x, y *big.Float) bool {
	if x.IsInf() || y.IsInf() {
		return x.Cmp(y) == 0
	}
	if x.Sign() == 0 {
		return y.Sign() == 0
	}
	prec := int(x.Prec())
	if prec == 0 {
		prec = 64
	}
	ulp := new(big.Float).SetPrec(64).SetMantExp(big.NewFloat(1), x.MantExp(nil)-prec)
	d := new(big.Float).SetPrec(2200).Sub(x, y)
	return d.Abs(d).Cmp(ulp) <= 0
}

// mirror checks that the JSON tree n is the plain-JSON image of v under
// constraint c.
func mirror(v cty.Value, c spec.T, n jnode, path string) *facet.Failure {
	fail := func(f string, a ...any) *facet.Failure {
		return facet.Failf("mirror", "at %q: %s", path, fmt.Sprintf(f, a...))
	}
	vt := spec.FromCty(v.Type())
	if c.K == spec.KDynamic && vt.K != spec.KDynamic {
		if n.kind != "obj" || len(n.keys) != 2 {
			return fail("a dynamic position must hold the documented wrapper object {\"value\":...,\"type\":...}, found %s with keys %q", n.kind, n.keys)
		}
		tn, tc := n.member("type")
		vn, vc := n.member("value")
		if tc != 1 || vc != 1 {
			return fail("wrapper keys are %q, want exactly \"value\" and \"type\"", n.keys)
		}
		dt, err := typeFromDescriptor(tn)
		if err != nil {
			return fail("wrapper type descriptor: %v", err)
		}
		if !dt.Equal(vt) {
			return fail("wrapper type descriptor says %s but the value's type is %s", dt, vt)
		}
		return mirror(v, vt, vn, path+".value")
	}
	if v.IsNull() {
		if n.kind != "null" {
			return fail("null value encoded as %s", n.kind)
		}
		return nil
	}
	switch c.K {
	case spec.KBool:
		if n.kind != "bool" || n.b != v.True() {
			return fail("bool %t encoded as %s %t", v.True(), n.kind, n.b)
		}
	case spec.KNumber:
		if n.kind != "num" {
			return fail("number encoded as %s", n.kind)
		}
		x := v.AsBigFloat()
		y, _, err := big.ParseFloat(n.num, 10, 2048, big.ToNearestEven)
		if err != nil {
			return fail("number literal %q does not parse: %v", n.num, err)
		}
		if !withinUlp(x, y) {
			return fail("number literal %q is not within one unit in the last place of the value %s (precision %d)", n.num, x.Text('g', 60), x.Prec())
		}
	case spec.KString:
		if n.kind != "str" || n.s != v.AsString() {
			return fail("string %q encoded as %s %q", v.AsString(), n.kind, n.s)
		}
	case spec.KList, spec.KTuple, spec.KSet:
		if n.kind != "arr" {
			return fail("%s encoded as %s", c.K, n.kind)
		}
		var members []cty.Value
		for it := v.ElementIterator(); it.Next(); {
			_, e := it.Element()
			members = append(members, e)
		}
		if len(members) != len(n.elems) {
			return fail("%s of %d members encoded as array of %d", c.K, len(members), len(n.elems))
		}
		if c.K == spec.KSet {
			// order is not part of a set: every member mirrored by a distinct array element
			used := make([]bool, len(n.elems))
			var rec func(i int) bool
			rec = func(i int) bool {
				if i == len(members) {
					return true
				}
				for j := range n.elems {
					if !used[j] && mirror(members[i], *c.E, n.elems[j], path) == nil {
						used[j] = true
						if rec(i + 1) {
							return true
						}
						used[j] = false
					}
				}
				return false
			}
			if !rec(0) {
				return fail("the array is not a rearrangement of the set's members")
			}
			return nil
		}
		for i, e := range members {
			ec := c.E
			if c.K == spec.KTuple {
				ec = &c.Elems[i]
			}
			if f := mirror(e, *ec, n.elems[i], fmt.Sprintf("%s[%d]", path, i)); f != nil {
				return f
			}
		}
	case spec.KMap, spec.KObject:
		if n.kind != "obj" {
			return fail("%s encoded as %s", c.K, n.kind)
		}
		if v.LengthInt() != len(n.keys) {
			return fail("%s of %d members encoded as object with keys %q", c.K, v.LengthInt(), n.keys)
		}
		for it := v.ElementIterator(); it.Next(); {
			k, e := it.Element()
			en, cnt := n.member(k.AsString())
			if cnt != 1 {
				return fail("key %q occurs %d times in %q", k.AsString(), cnt, n.keys)
			}
			ec := c.E
			if c.K == spec.KObject {
				ec = nil
				for i := range c.Attrs {
					if spec.NFC(c.Attrs[i].Name) == k.AsString() {
						ec = &c.Attrs[i].T
					}
				}
				if ec == nil {
					return fail("attribute %q is not in the constraint", k.AsString())
				}
			}
			if f := mirror(e, *ec, en, fmt.Sprintf("%s[%q]", path, k.AsString())); f != nil {
				return f
			}
		}
	default:
		return fail("unsupported constraint kind %s", c.K)
	}
	return nil
}

func checkMirror(c *facet.Ctx, in codecgen.Case) error {
	if !in.V.WhollyKnown() || in.V.HasMarks() || !in.V.T.Conforms(in.C) {
		c.Skip()
		return nil
	}
	v, err := spec.Build(in.V)
	if err != nil {
		c.Skip()
		return nil
	}
	if in.C.HasDynamic() || in.V.Depth() >= 1 {
		c.NonTrivial()
	}
	if in.C.HasDynamic() {
		c.Label("has-wrapper")
	}
	if in.V.HasNullInside() {
		c.Label("has-null")
	}
	b, err, pan := marshal(v, in.C.Cty())
	if pan != nil {
		return facet.Failf("marshal-panic", "Marshal(%#v, %s) panicked: %v", v, in.C, pan)
	}
	if err != nil {
		return facet.Failf("marshal-error", "Marshal(%#v, %s) failed: %v", v, in.C, err)
	}
	if !json.Valid(b) {
		return facet.Failf("invalid-json", "Marshal(%#v, %s) produced invalid JSON %q", v, in.C, clip(b))
	}
	n, err := parseJSON(b)
	if err != nil {
		return facet.Failf("invalid-json", "encoding/json cannot read %q: %v", clip(b), err)
	}
	// and a plain decode into interface{} must succeed (numbers kept as text:
	// float64 cannot hold every number a cty.Number can)
	var plain interface{}
	pd := json.NewDecoder(strings.NewReader(string(b)))
	pd.UseNumber()
	if err := pd.Decode(&plain); err != nil {
		return facet.Failf("invalid-json", "encoding/json cannot decode %q: %v", clip(b), err)
	}
	if f := mirror(v, in.C, n, ""); f != nil {
		f.Msg = fmt.Sprintf("%s; value %#v, constraint %s, bytes %s", f.Msg, v, in.C, clip(b))
		return f
	}
	return nil
}

// ---------------------------------------------------------------- documents

// canon is the comparison form of a JSON tree: numbers as exact rationals,
// strings and keys normalized, duplicate keys resolved as encoding/json does
// (the last member wins), key order irrelevant.
type canon struct {
	kind  string
	b     bool
	num   *big.Rat
	s     string
	elems []canon
	obj   map[string]canon
}

func canonNum(lit string) (*big.Rat, bool) {
	r, ok := new(big.Rat).SetString(lit)
	return r, ok
}

func canonOfDoc(d codecgen.Doc) canon {
	switch d.K {
	case "null":
		return canon{kind: "null"}
	case "bool":
		return canon{kind: "bool", b: d.B}
	case "num":
		r, ok := canonNum(d.Num)
		if !ok {
			panic("c15: generated number literal does not parse: " + d.Num)
		}
		return canon{kind: "num", num: r}
	case "str":
		return canon{kind: "str", s: spec.NFC(d.S)}
	case "arr":
		out := canon{kind: "arr"}
		for _, e := range d.Elems {
			out.elems = append(out.elems, canonOfDoc(e))
		}
		return out
	default:
		out := canon{kind: "obj", obj: map[string]canon{}}
		for i, e := range d.Elems {
			out.obj[spec.NFC(d.Keys[i])] = canonOfDoc(e)
		}
		return out
	}
}

func canonOfNode(n jnode) (canon, error) {
	switch n.kind {
	case "null":
		return canon{kind: "null"}, nil
	case "bool":
		return canon{kind: "bool", b: n.b}, nil
	case "num":
		r, ok := canonNum(n.num)
		if !ok {
			return canon{}, fmt.Errorf("number literal %q does not parse", n.num)
		}
		return canon{kind: "num", num: r}, nil
	case "str":
		return canon{kind: "str", s: spec.NFC(n.s)}, nil
	case "arr":
		out := canon{kind: "arr"}
		for _, e := range n.elems {
			x, err := canonOfNode(e)
			if err != nil {
				return canon{}, err
			}
			out.elems = append(out.elems, x)
		}
		return out, nil
	default:
		out := canon{kind: "obj", obj: map[string]canon{}}
		for i, e := range n.elems {
			x, err := canonOfNode(e)
			if err != nil {
				return canon{}, err
			}
			out.obj[spec.NFC(n.keys[i])] = x
		}
		return out, nil
	}
}

// canonDiff returns "" when the trees are the same document, else a
// description of the first difference.
func canonDiff(a, b canon, path string) string {
	if a.kind != b.kind {
		return fmt.Sprintf("at %q: %s vs %s", path, a.kind, b.kind)
	}
	switch a.kind {
	case "bool":
		if a.b != b.b {
			return fmt.Sprintf("at %q: %t vs %t", path, a.b, b.b)
		}
	case "num":
		if a.num.Cmp(b.num) != 0 {
			return fmt.Sprintf("at %q: number %s vs %s", path, a.num.FloatString(30), b.num.FloatString(30))
		}
	case "str":
		if a.s != b.s {
			return fmt.Sprintf("at %q: string %q vs %q", path, a.s, b.s)
		}
	case "arr":
		if len(a.elems) != len(b.elems) {
			return fmt.Sprintf("at %q: array of %d vs %d", path, len(a.elems), len(b.elems))
		}
		for i := range a.elems {
			if d := canonDiff(a.elems[i], b.elems[i], fmt.Sprintf("%s[%d]", path, i)); d != "" {
				return d
			}
		}
	case "obj":
		if len(a.obj) != len(b.obj) {
			return fmt.Sprintf("at %q: object with %d vs %d distinct keys", path, len(a.obj), len(b.obj))
		}
		for k, x := range a.obj {
			y, ok := b.obj[k]
			if !ok {
				return fmt.Sprintf("at %q: key %q missing", path, k)
			}
			if d := canonDiff(x, y, fmt.Sprintf("%s[%q]", path, k)); d != "" {
				return d
			}
		}
	}
	return ""
}

// DocIn is the input of the document facets. Conflict asks the check to
// expect ImpliedType to refuse the document (a byte-identical duplicate key
// whose two values have different structural types; CHANGELOG "json:
// ImpliedType now returns an error ...").
type DocIn struct {
	D        codecgen.Doc `json:"d"`
	Conflict bool         `json:"conflict,omitempty"`
}

func genDoc(t *rapid.T) DocIn {
	d := codecgen.JSONDoc(codecgen.DocOpts{Depth: 3}).Draw(t, "doc")
	return DocIn{D: d}
}

func genDocWithConflicts(t *rapid.T) DocIn {
	d := codecgen.JSONDoc(codecgen.DocOpts{Depth: 3}).Draw(t, "doc")
	if rapid.IntRange(0, 7).Draw(t, "conflict") == 0 {
		if d2, ok := injectConflict(t, d); ok {
			return DocIn{D: d2, Conflict: true}
		}
	}
	return DocIn{D: d}
}

// injectConflict adds, to the first object found (preorder) that has a
// member, a byte-identical duplicate of one key with a differently-typed value.
func injectConflict(t *rapid.T, d codecgen.Doc) (codecgen.Doc, bool) {
	if d.K == "obj" && len(d.Keys) > 0 {
		i := rapid.IntRange(0, len(d.Keys)-1).Draw(t, "ci")
		ty, ok := d.Elems[i].Type()
		if !ok {
			return d, false
		}
		for _, cand := range []codecgen.Doc{{K: "str", S: "x"}, {K: "num", Num: "1"}, {K: "arr"}, {K: "null"}} {
			ct, _ := cand.Type()
			if !ct.Equal(ty) {
				out := d
				out.Keys = append(append([]string(nil), d.Keys...), d.Keys[i])
				out.Elems = append(append([]codecgen.Doc(nil), d.Elems...), cand)
				return out, true
			}
		}
		return d, false
	}
	for i, e := range d.Elems {
		if e2, ok := injectConflict(t, e); ok {
			out := d
			out.Elems = append([]codecgen.Doc(nil), d.Elems...)
			out.Elems[i] = e2
			return out, true
		}
	}
	return d, false
}

func classifyDoc(c *facet.Ctx, d codecgen.Doc) {
	depth := docDepth(d)
	if depth >= 1 {
		c.NonTrivial()
	}
	if d.HasDup() {
		c.Label("duplicate-keys")
	}
	if d.HasNonNFCKey() {
		c.Label("non-nfc-key")
	}
	if d.HasNull() {
		c.Label("nested-null")
	}
	c.Labelf("depth=%d", depth)
}

func docDepth(d codecgen.Doc) int {
	m := 0
	for _, e := range d.Elems {
		if x := 1 + docDepth(e); x > m {
			m = x
		}
	}
	if m == 0 && (d.K == "arr" || d.K == "obj") {
		m = 1
	}
	return m
}

// renderChecked renders the document and verifies, with encoding/json only,
// that the text is valid JSON denoting the generated tree (a guard against
// generator mistakes).
func renderChecked(d codecgen.Doc) ([]byte, canon, error) {
	b := d.Render()
	if !json.Valid(b) {
		return nil, canon{}, fmt.Errorf("rendered document is not valid JSON: %q", clip(b))
	}
	n, err := parseJSON(b)
	if err != nil {
		return nil, canon{}, fmt.Errorf("rendered document does not tokenise: %v (%q)", err, clip(b))
	}
	cn, err := canonOfNode(n)
	if err != nil {
		return nil, canon{}, err
	}
	want := canonOfDoc(d)
	if diff := canonDiff(want, cn, ""); diff != "" {
		return nil, canon{}, fmt.Errorf("rendered document differs from the generated tree: %s (%q)", diff, clip(b))
	}
	return b, want, nil
}

func checkImplied(c *facet.Ctx, in DocIn) error {
	b, _, err := renderChecked(in.D)
	if err != nil {
		return facet.Failf("harness/render", "%v", err)
	}
	want, ok := in.D.Type()
	if in.Conflict {
		if ok {
			c.Skip()
			return nil
		}
		c.NonTrivial()
		c.Label("conflicting-duplicate")
		ty, err, pan := impliedType(b)
		if pan != nil {
			return facet.Failf("implied-panic", "ImpliedType(%s) panicked: %v", clip(b), pan)
		}
		if err == nil {
			return facet.Failf("implied-conflict-accepted", "ImpliedType(%s) accepted a document with a conflicting duplicate key and returned %#v", clip(b), ty)
		}
		return nil
	}
	if !ok {
		c.Skip()
		return nil
	}
	classifyDoc(c, in.D)
	ty, err, pan := impliedType(b)
	if pan != nil {
		return facet.Failf("implied-panic", "ImpliedType(%s) panicked: %v", clip(b), pan)
	}
	if err != nil {
		return facet.Failf("implied-error", "ImpliedType(%s) failed: %v", clip(b), err)
	}
	if got := spec.FromCty(ty); !got.Equal(want) {
		return facet.Failf("implied-type", "ImpliedType(%s) = %s, the document's structural type is %s", clip(b), got, want)
	}
	if !ty.Equals(want.Cty()) {
		return facet.Failf("implied-type", "ImpliedType(%s) = %#v is not Equal to the structural type %s", clip(b), ty, want)
	}
	return nil
}

func checkReencode(c *facet.Ctx, in DocIn) error {
	b, wantCanon, err := renderChecked(in.D)
	if err != nil {
		return facet.Failf("harness/render", "%v", err)
	}
	want, ok := in.D.Type()
	if !ok || in.Conflict {
		c.Skip()
		return nil
	}
	ty, err, pan := impliedType(b)
	if pan != nil || err != nil || !spec.FromCty(ty).Equal(want) {
		// reported by doc/implied-type
		c.Skip()
		return nil
	}
	classifyDoc(c, in.D)
	v, err, pan := unmarshal(b, ty)
	if pan != nil {
		return facet.Failf("doc-unmarshal-panic", "Unmarshal(%s, ImpliedType) panicked: %v", clip(b), pan)
	}
	if err != nil {
		return facet.Failf("doc-unmarshal-error", "Unmarshal(%s, %s) with the implied type failed: %v", clip(b), want, err)
	}
	if f := wf.Check(v); f != nil {
		return f
	}
	if gt := spec.FromCty(v.Type()); !gt.Equal(want) {
		return facet.Failf("doc-value-type", "Unmarshal(%s, %s) returned a value of type %s", clip(b), want, gt)
	}
	if !v.IsWhollyKnown() {
		return facet.Failf("doc-value-unknown", "Unmarshal(%s) returned a value with unknown parts: %#v", clip(b), v)
	}
	b2, err, pan := marshal(v, ty)
	if pan != nil {
		return facet.Failf("doc-remarshal-panic", "re-Marshal of %#v panicked: %v", v, pan)
	}
	if err != nil {
		return facet.Failf("doc-remarshal-error", "re-Marshal of %#v (from %s) failed: %v", v, clip(b), err)
	}
	n2, err := parseJSON(b2)
	if err != nil {
		return facet.Failf("invalid-json", "re-marshalled bytes %q are not valid JSON: %v", clip(b2), err)
	}
	got, err := canonOfNode(n2)
	if err != nil {
		return facet.Failf("invalid-json", "re-marshalled bytes %q: %v", clip(b2), err)
	}
	if diff := canonDiff(wantCanon, got, ""); diff != "" {
		return facet.Failf("doc-reencode-differs", "document %s re-marshalled as %s: %s", clip(b), clip(b2), diff)
	}
	// The decoded value - whose types are the library's own (the canonical empty
	// tuple and object among them), not the harness's - must also survive the
	// round trip under the dynamic placeholder, where its type travels in the
	// document.
	b3, err, pan := marshal(v, cty.DynamicPseudoType)
	if pan != nil || err != nil {
		return facet.Failf("doc-dynamic-marshal", "Marshal of %#v (decoded from %s) under the dynamic placeholder failed: %v %v", v, clip(b), err, pan)
	}
	v3, err, pan := unmarshal(b3, cty.DynamicPseudoType)
	if pan != nil || err != nil {
		return facet.Failf("doc-dynamic-unmarshal", "Unmarshal of %s (Marshal of the value decoded from %s, under the dynamic placeholder) failed: %v %v", clip(b3), clip(b), err, pan)
	}
	if !v3.Type().Equals(v.Type()) || !v3.RawEquals(v) {
		return facet.Failf("doc-dynamic-differs", "the value decoded from %s came back from a round trip under the dynamic placeholder as %#v (was %#v)", clip(b), v3, v)
	}
	return nil
}

// ---------------------------------------------------------------- reject/unknown-marked-inf

// RejectIn is a value JSON cannot represent: Clean with one defect injected.
type RejectIn struct {
	Clean spec.V `json:"clean"`
	Bad   spec.V `json:"bad"`
	C     spec.T `json:"c"`
	Kind  string `json:"kind"`
}

func genReject(t *rapid.T) RejectIn {
	cs := codecgen.Draw(t, codecgen.Opts{Depth: 3})
	clean := cs.V
	kinds := []string{"unknown", "unknown-refined", "mark", "dynamicval"}
	if countNumbers(clean) > 0 {
		kinds = append(kinds, "inf", "inf", "inf-float")
	}
	kind := rapid.SampledFrom(kinds).Draw(t, "kind")
	bad := clean.Clone()
	switch kind {
	case "inf", "inf-float":
		k := rapid.IntRange(0, countNumbers(clean)-1).Draw(t, "which")
		n := spec.Num{Route: rapid.SampledFrom([]string{"+inf", "-inf"}).Draw(t, "sign")}
		if kind == "inf-float" {
			// the same infinity through the float constructor
			txt := "+Inf"
			if n.Route == "-inf" {
				txt = "-Inf"
			}
			n = spec.Num{Route: "float", Text: txt}
		}
		replaceNumber(&bad, &k, n)
	default:
		paths := codecgen.NodePaths(clean, nil, true)
		var cands [][]int
		for _, p := range paths {
			if kind == "dynamicval" && !p.Dyn {
				continue
			}
			cands = append(cands, p.Path)
		}
		if len(cands) == 0 {
			kind = "unknown"
			cands = [][]int{{}}
		}
		p := rapid.SampledFrom(cands).Draw(t, "where")
		codecgen.Edit(&bad, p, func(x *spec.V) {
			switch kind {
			case "unknown":
				*x = spec.UnknownOf(x.T)
			case "unknown-refined":
				w := *x
				if w.St == spec.Known {
					*x = codecgen.Refine(t, w, false)
				} else {
					*x = spec.UnknownOf(x.T)
				}
			case "dynamicval":
				*x = spec.DynamicVal()
			case "mark":
				x.Marks = []string{rapid.SampledFrom([]string{"m1", "m2"}).Draw(t, "mark")}
			}
		})
	}
	bad = bad.Retype()
	return RejectIn{Clean: clean, Bad: bad, C: codecgen.Constraint(t, bad.T), Kind: kind}
}

func countNumbers(v spec.V) int {
	n := 0
	if v.St == spec.Known && v.T.K == spec.KNumber {
		n++
	}
	if v.St == spec.Known {
		for _, e := range v.Elems {
			n += countNumbers(e)
		}
	}
	return n
}

func replaceNumber(v *spec.V, k *int, n spec.Num) bool {
	if v.St != spec.Known {
		return false
	}
	if v.T.K == spec.KNumber {
		if *k == 0 {
			nn := n
			v.N = &nn
			*k = -1
			return true
		}
		*k--
		return false
	}
	for i := range v.Elems {
		if replaceNumber(&v.Elems[i], k, n) {
			return true
		}
	}
	return false
}

func checkReject(c *facet.Ctx, in RejectIn) error {
	if !in.Bad.T.Conforms(in.C) || !in.Clean.T.Conforms(in.C) {
		c.Skip()
		return nil
	}
	bad, err := spec.Build(in.Bad)
	if err != nil {
		c.Skip()
		return nil
	}
	clean, err := spec.Build(in.Clean)
	if err != nil {
		c.Skip()
		return nil
	}
	// the injection must really have produced something JSON cannot represent
	// (a refinement may collapse to a known value)
	hasInf := false
	_ = cty.Walk(bad, func(_ cty.Path, x cty.Value) (bool, error) {
		u, _ := x.Unmark()
		if u.IsKnown() && !u.IsNull() && u.Type() == cty.Number && u.AsBigFloat().IsInf() {
			hasInf = true
		}
		return true, nil
	})
	if bad.IsWhollyKnown() && !bad.ContainsMarked() && !hasInf {
		c.Skip()
		return nil
	}
	c.Label("kind=" + in.Kind)
	if in.Bad.Depth() >= 1 {
		c.NonTrivial()
	}
	if in.C.HasDynamic() {
		c.Label("under-placeholder")
	}
	ct := in.C.Cty()
	b, err, pan := marshal(bad, ct)
	if pan != nil {
		return facet.Failf("reject-panic", "Marshal(%#v, %s) panicked instead of returning an error: %v", bad, in.C, pan)
	}
	if err == nil {
		return facet.Failf("reject-accepted", "Marshal(%#v, %s) accepted a value JSON cannot represent (%s) and returned %q", bad, in.C, in.Kind, clip(b))
	}
	if len(b) != 0 {
		return facet.Failf("reject-bytes", "Marshal(%#v, %s) returned an error and also %d bytes %q", bad, in.C, len(b), clip(b))
	}
	// control: the same value without the defect is accepted
	cb, err, pan := marshal(clean, ct)
	if pan != nil || err != nil {
		return facet.Failf("reject-control", "the clean counterpart %#v under %s is refused too: err=%v panic=%v", clean, in.C, err, pan)
	}
	if !json.Valid(cb) {
		return facet.Failf("invalid-json", "Marshal(%#v, %s) produced invalid JSON %q", clean, in.C, clip(cb))
	}
	return nil
}

// ---------------------------------------------------------------- simple/both-ways

// SimpleIn: exactly one of V (value -> JSON -> value) and D (JSON -> value ->
// JSON) is set.
type SimpleIn struct {
	V *spec.V       `json:"v,omitempty"`
	D *codecgen.Doc `json:"d,omitempty"`
}

type example struct {
	Name  string                  `json:"name"`
	Value ctyjson.SimpleJSONValue `json:"value"`
}

func genSimple(t *rapid.T) SimpleIn {
	if rapid.IntRange(0, 9).Draw(t, "wrapperlike") == 5 {
		// an ordinary object that LOOKS like the wrapper the encoding uses for
		// dynamically-typed values: exactly the attributes "type" and "value",
		// the former holding something a type description could be
		desc := rapid.SampledFrom([]spec.V{spec.KnownStr("number"), spec.KnownStr("string"), spec.KnownStr("bool"), spec.KnownStr("dynamic"),
			{T: spec.Tuple(spec.String, spec.String), St: spec.Known, Elems: []spec.V{spec.KnownStr("list"), spec.KnownStr("string")}},
			spec.KnownStr("nonsense"), spec.NullOf(spec.String)}).Draw(t, "desc")
		val := rapid.SampledFrom([]spec.V{spec.KnownNum(spec.NInt(12)), spec.KnownStr("x"), spec.KnownBool(true), spec.NullOf(spec.String),
			{T: spec.Tuple(spec.String), St: spec.Known, Elems: []spec.V{spec.KnownStr("a")}}, {T: spec.Tuple(), St: spec.Known}}).Draw(t, "val")
		v := spec.V{T: spec.T{K: spec.KObject}, St: spec.Known, Keys: []string{"type", "value"}, Elems: []spec.V{desc, val}}.Retype()
		if rapid.Bool().Draw(t, "nested") {
			v = spec.V{T: spec.T{K: spec.KTuple}, St: spec.Known, Elems: []spec.V{v}}.Retype()
		}
		return SimpleIn{V: &v}
	}
	if rapid.Bool().Draw(t, "fromvalue") {
		v := codecgen.Draw(t, codecgen.Opts{Depth: 3}).V
		return SimpleIn{V: &v}
	}
	d := codecgen.JSONDoc(codecgen.DocOpts{Depth: 3}).Draw(t, "doc")
	return SimpleIn{D: &d}
}

func guard(f func() error) (err error, pan any) {
	defer func() {
		if r := recover(); r != nil {
			pan = r
		}
	}()
	return f(), nil
}

func checkSimple(c *facet.Ctx, in SimpleIn) error {
	switch {
	case in.V != nil:
		if !in.V.WhollyKnown() || in.V.HasMarks() {
			c.Skip()
			return nil
		}
		v, err := spec.Build(*in.V)
		if err != nil {
			c.Skip()
			return nil
		}
		c.Label("value-first")
		if in.V.Depth() >= 1 || riskyNumber(*in.V) || nfcChanging(*in.V) {
			c.NonTrivial()
		}
		if codecgen.HasLowPrecWhole(*in.V) {
			c.Label("lowprec-whole-number")
		}
		var b []byte
		err, pan := guard(func() (e error) { b, e = ctyjson.SimpleJSONValue{Value: v}.MarshalJSON(); return })
		if pan != nil || err != nil {
			return facet.Failf("simple-marshal", "SimpleJSONValue{%#v}.MarshalJSON failed: err=%v panic=%v", v, err, pan)
		}
		n, err := parseJSON(b)
		if err != nil {
			return facet.Failf("invalid-json", "SimpleJSONValue{%#v}.MarshalJSON produced %q: %v", v, clip(b), err)
		}
		// without a placeholder in the constraint there is no wrapper: the bytes are the plain image
		if f := mirror(v, spec.FromCty(v.Type()), n, ""); f != nil {
			f.Msg = fmt.Sprintf("%s; value %#v, bytes %s", f.Msg, v, clip(b))
			return f
		}
		// through encoding/json, embedded in a struct
		var sb []byte
		err, pan = guard(func() (e error) {
			sb, e = json.Marshal(example{Name: "n", Value: ctyjson.SimpleJSONValue{Value: v}})
			return
		})
		if pan != nil || err != nil {
			return facet.Failf("simple-marshal", "json.Marshal of a struct holding SimpleJSONValue{%#v} failed: err=%v panic=%v", v, err, pan)
		}
		var back example
		err, pan = guard(func() error { return json.Unmarshal(sb, &back) })
		if pan != nil || err != nil {
			f := facet.Failf("simple-unmarshal", "json.Unmarshal of %s into a struct holding SimpleJSONValue failed: err=%v panic=%v", clip(sb), err, pan)
			return f
		}
		var direct ctyjson.SimpleJSONValue
		err, pan = guard(func() error { return direct.UnmarshalJSON(b) })
		if pan != nil || err != nil {
			return facet.Failf("simple-unmarshal", "SimpleJSONValue.UnmarshalJSON(%s) failed: err=%v panic=%v", clip(b), err, pan)
		}
		for _, got := range []cty.Value{back.Value.Value, direct.Value} {
			if f := wf.Check(got); f != nil {
				return f
			}
			// same data, type per the documented mapping
			wantT := lossyType(v)
			if gt := spec.FromCty(got.Type()); !gt.Equal(wantT) {
				return facet.Failf("simple-type", "%#v came back through SimpleJSONValue typed %s, the documented mapping gives %s (bytes %s)", v, gt, wantT, clip(b))
			}
			low, other := codecgen.SplitDiffs(codecgen.Compare(v, got, codecgen.CmpOpts{Loose: true}))
			if len(other) > 0 {
				return facet.Failf("simple-value-changed", "%#v came back through SimpleJSONValue as %#v: %s (bytes %s)", v, got, other[0], clip(b))
			}
			if len(low) > 0 {
				return facet.Failf("number-lowprec-whole", "%#v through SimpleJSONValue: %s (bytes %s)", v, low[0], clip(b))
			}
		}
		return nil
	case in.D != nil:
		b, wantCanon, err := renderChecked(*in.D)
		if err != nil {
			return facet.Failf("harness/render", "%v", err)
		}
		want, ok := in.D.Type()
		if !ok {
			c.Skip()
			return nil
		}
		c.Label("document-first")
		classifyDoc(c, *in.D)
		var sv ctyjson.SimpleJSONValue
		err, pan := guard(func() error { return sv.UnmarshalJSON(b) })
		if pan != nil || err != nil {
			return facet.Failf("doc-unmarshal-error", "SimpleJSONValue.UnmarshalJSON(%s) failed: err=%v panic=%v", clip(b), err, pan)
		}
		if f := wf.Check(sv.Value); f != nil {
			return f
		}
		if gt := spec.FromCty(sv.Value.Type()); !gt.Equal(want) {
			return facet.Failf("simple-type", "SimpleJSONValue.UnmarshalJSON(%s) returned type %s, the documented mapping gives %s", clip(b), gt, want)
		}
		var b2 []byte
		err, pan = guard(func() (e error) { b2, e = sv.MarshalJSON(); return })
		if pan != nil || err != nil {
			return facet.Failf("simple-marshal", "SimpleJSONValue.MarshalJSON of %#v (from %s) failed: err=%v panic=%v", sv.Value, clip(b), err, pan)
		}
		n2, err := parseJSON(b2)
		if err != nil {
			return facet.Failf("invalid-json", "SimpleJSONValue.MarshalJSON produced %q: %v", clip(b2), err)
		}
		got, err := canonOfNode(n2)
		if err != nil {
			return facet.Failf("invalid-json", "%q: %v", clip(b2), err)
		}
		if diff := canonDiff(wantCanon, got, ""); diff != "" {
			return facet.Failf("doc-reencode-differs", "document %s came back through SimpleJSONValue as %s: %s", clip(b), clip(b2), diff)
		}
		return nil
	}
	c.Skip()
	return nil
}

// lossyType is the type docs/json.md documents for a value decoded without
// type information: sequences become tuples, mappings become objects, nulls
// are typed with the dynamic placeholder.
func lossyType(v cty.Value) spec.T {
	if v.IsNull() {
		return spec.Dynamic
	}
	ty := v.Type()
	switch {
	case ty.IsListType() || ty.IsSetType() || ty.IsTupleType():
		var es []spec.T
		for it := v.ElementIterator(); it.Next(); {
			_, e := it.Element()
			es = append(es, lossyType(e))
		}
		return spec.T{K: spec.KTuple, Elems: es}
	case ty.IsMapType() || ty.IsObjectType():
		var as []spec.Attr
		for it := v.ElementIterator(); it.Next(); {
			k, e := it.Element()
			as = append(as, spec.Attr{Name: k.AsString(), T: lossyType(e)})
		}
		return spec.T{K: spec.KObject, Attrs: as}
	}
	return spec.FromCty(ty)
}

// ---------------------------------------------------------------- registration

const caseRule = "wholly known, unmarked, capsule-free finite value (nulls at any depth, empty collections, every number class, NFC-changing strings) with a constraint = its type with arbitrary sub-types replaced by the placeholder; non-trivial when the constraint has a placeholder below the root, or the value holds a non-integral / beyond-int64 number or an NFC-changing string; distinct = hash of the (value spec, constraint spec) JSON"

const docRule = "JSON document from a grammar (nested nulls, number spellings with exponents |e| <= 400 and <= 40 significant digits, escape styles, whitespace, same-typed duplicate keys incl. differently-composed spellings); non-trivial when the document is an array or object; distinct = hash of the document tree"

func genCase(t *rapid.T) codecgen.Case {
	return codecgen.Draw(t, codecgen.Opts{Depth: 3})
}

func init() {
	facet.Register(facet.F[codecgen.Case]{
		Prop: "C15", Name: "roundtrip/value", Rule: caseRule, Quick: 60000, Thorough: 400000,
		Gen: genCase, Check: checkRoundTrip,
	})
	facet.Register(facet.F[codecgen.Case]{
		Prop: "C15", Name: "bytes/plain-json-mirror",
		Rule:  "as roundtrip/value; non-trivial when the constraint holds a placeholder (a wrapper must appear) or the value is nested; distinct = hash of the case",
		Quick: 40000, Thorough: 300000,
		Gen: genCase, Check: checkMirror,
	})
	facet.Register(facet.F[DocIn]{
		Prop: "C15", Name: "doc/implied-type", Rule: docRule + "; one case in eight carries a byte-identical duplicate key with a differently-typed value and must be refused", Quick: 40000, Thorough: 300000,
		Gen: genDocWithConflicts, Check: checkImplied,
	})
	facet.Register(facet.F[DocIn]{
		Prop: "C15", Name: "doc/reencode", Rule: docRule, Quick: 40000, Thorough: 300000,
		Gen: genDoc, Check: checkReencode,
	})
	facet.Register(facet.F[RejectIn]{
		Prop: "C15", Name: "reject/unknown-marked-inf",
		Rule:  "a clean case with one defect injected at a random position (unknown, refined unknown, value of unknown type, mark, infinity by either constructor); the defective value must be refused with an error and no bytes, the clean one accepted; non-trivial when the defect sits below the root",
		Quick: 40000, Thorough: 300000,
		Gen: genReject, Check: checkReject,
	})
	facet.Register(facet.F[SimpleIn]{
		Prop: "C15", Name: "simple/both-ways",
		Rule:  "value -> SimpleJSONValue.MarshalJSON (directly and embedded in a struct through encoding/json) -> UnmarshalJSON: same data, documented lossy type; document -> UnmarshalJSON -> MarshalJSON: same document; non-trivial when nested or holding a risky number / NFC-changing string",
		Quick: 40000, Thorough: 300000,
		Gen: genSimple, Check: checkSimple,
	})
}
