package stdreg

import (
	"encoding/json"
	"fmt"
	"strings"

	"github.com/zclconf/go-cty/cty/function/stdlib"
	"pgregory.net/rapid"

	"verif/harness/gen"
	"verif/harness/spec"
)

// fmtVerb draws one formatting verb and a matching argument. Widths and
// precisions are kept tiny (count-like: DESIGN 3.6).
func fmtVerb(t *rapid.T) (string, spec.V) {
	mode := rapid.SampledFrom([]string{"v", "s", "d", "f", "g", "e", "t", "q", "#v", "x", "b", "o", "X", "E", "G", "v", "s", "d"}).Draw(t, "mode")
	flags := pickStr(t, "flags", "", "", "", "-", "0", "+", " ", "-0")
	width := pickStr(t, "width", "", "", "", "1", "5", "10", "12")
	prec := pickStr(t, "prec", "", "", "", ".0", ".2", ".10", ".")
	if mode == "#v" {
		flags, mode = flags+"#", "v"
	}
	var arg spec.V
	switch mode {
	case "d", "x", "b", "o", "X":
		if chance(t, 1, 6, "strint") {
			arg = lit(pickStr(t, "digits", "12", "-3", "0"))
		} else if chance(t, 1, 5, "bigint") {
			arg = spec.KnownNum(spec.NParse(pickStr(t, "big", "18446744073709551616", "-9223372036854775809", "1e30")))
		} else {
			arg = intv(t, -40, 300, "int")
		}
	case "f", "g", "e", "E", "G":
		arg = friendlyNum(t, "num")
	case "t":
		if chance(t, 1, 4, "strbool") {
			arg = lit(pickStr(t, "boolstr", "true", "false"))
		} else {
			arg = boolv(t, "bool")
		}
	case "s", "q":
		switch rapid.IntRange(0, 4).Draw(t, "sarg") {
		case 0:
			arg = friendlyNum(t, "num")
		case 1:
			arg = boolv(t, "bool")
		case 2:
			// a string that starts with a combining mark: it joins the last character of the preceding literal
			arg = lit(pickStr(t, "comb", "\u0301", "\u0308x", "\u0323\u0301", "\u200d\U0001F4BB", "\U0001F3FDa"))
		default:
			arg = str(t, "str")
		}
	default: // v
		if chance(t, 1, 8, "null") {
			arg = spec.NullOf(elemT(t))
		} else {
			arg = val(t, elemT(t), withNulls, "any")
		}
	}
	return "%" + flags + width + prec + mode, arg
}

var fmtLiterals = []string{"", "", "a", " ", "x=", "e", "\U0001F469", "o", "\u00e9", "%%", "-", "e\u0301", "Hello, ", "100%% ", "n<", "k>", "key=", "\u0301", "\u0338\u0323"}

func formatArgs(t *rapid.T, list bool) []spec.V {
	n := rapid.IntRange(0, 3).Draw(t, "nverbs")
	var f strings.Builder
	var args []spec.V
	l := rapid.IntRange(0, 3).Draw(t, "listlen")
	for i := 0; i < n; i++ {
		f.WriteString(rapid.SampledFrom(fmtLiterals).Draw(t, "lit"))
		v, a := fmtVerb(t)
		if list && chance(t, 1, 2, "aslist") {
			// the same verb applied element-wise over a sequence of length l
			var es []spec.V
			uniform := true
			for k := 0; k < l; k++ {
				_, ak := fmtVerb2(t, v, a)
				es = append(es, ak)
				if !ak.T.Equal(a.T) {
					uniform = false
				}
			}
			if uniform && chance(t, 2, 3, "list") {
				a = listOf(a.T, es...)
			} else {
				a = tupleOf(es...)
			}
		}
		f.WriteString(v)
		args = append(args, a)
	}
	f.WriteString(rapid.SampledFrom(fmtLiterals).Draw(t, "lit"))
	// explicit argument index now and then
	s := f.String()
	if n > 0 && chance(t, 1, 8, "reindex") {
		s += "%[1]v"
	}
	return append([]spec.V{lit(s)}, args...)
}

// fmtVerb2 draws another argument of the same class as a (for formatlist).
func fmtVerb2(t *rapid.T, verb string, a spec.V) (string, spec.V) {
	if a.St != spec.Known {
		return verb, a.Clone()
	}
	switch a.T.K {
	case spec.KNumber:
		if strings.ContainsAny(verb[len(verb)-1:], "dxboX") {
			return verb, intv(t, -40, 300, "int")
		}
		return verb, friendlyNum(t, "num")
	case spec.KString:
		if strings.ContainsAny(verb[len(verb)-1:], "dxboXt") {
			return verb, a.Clone()
		}
		return verb, str(t, "str")
	case spec.KBool:
		return verb, boolv(t, "bool")
	}
	return verb, val(t, a.T, withNulls, "any")
}

// ---------------------------------------------------------------- timestamps

func timestamp(t *rapid.T) string {
	if chance(t, 1, 4, "fixed") {
		return pickStr(t, "ts", "2017-01-02T15:04:05Z", "2000-02-29T23:59:59+14:00", "0000-01-01T00:00:00Z", "9999-12-31T23:59:59-23:59",
			"2006-01-02T15:04:05.999999999-07:00", "1970-01-01T00:00:00.5Z")
	}
	y := rapid.IntRange(0, 9999).Draw(t, "year")
	mo := rapid.IntRange(1, 12).Draw(t, "month")
	d := rapid.IntRange(1, 28).Draw(t, "day")
	h := rapid.IntRange(0, 23).Draw(t, "hour")
	mi := rapid.IntRange(0, 59).Draw(t, "minute")
	s := rapid.IntRange(0, 59).Draw(t, "second")
	frac := pickStr(t, "frac", "", "", ".5", ".123456789", ".000000001", ".1234567891234")
	zone := "Z"
	if chance(t, 1, 2, "offset") {
		zone = fmt.Sprintf("%s%02d:%02d", pickStr(t, "sign", "+", "-"), rapid.IntRange(0, 23).Draw(t, "zh"), rapid.SampledFrom([]int{0, 30, 45, 59}).Draw(t, "zm"))
	}
	return fmt.Sprintf("%04d-%02d-%02dT%02d:%02d:%02d%s%s", y, mo, d, h, mi, s, frac, zone)
}

var dateTokens = []string{"YYYY", "YY", "M", "MM", "MMM", "MMMM", "D", "DD", "EEE", "EEEE", "h", "hh", "H", "HH", "AA", "aa", "m", "mm", "s", "ss",
	"Z", "ZZZ", "ZZZZ", "ZZZZZ", "-", ":", " ", "'T'", "''", "'at'", "/", ", ", "'o''clock'", "\u00e9", "."}

// ---------------------------------------------------------------- JSON documents

func jsonTree(t *rapid.T, depth int) any {
	max := 7
	if depth <= 0 {
		max = 4
	}
	switch rapid.IntRange(0, max).Draw(t, "jkind") {
	case 0:
		return nil
	case 1:
		return rapid.Bool().Draw(t, "jb")
	case 2:
		return json.Number(pickStr(t, "jnum", "0", "1", "-1", "1.5", "1e3", "12345678901234567890", "-0", "0.1", "1E-2", "2.50"))
	case 3, 4:
		return gen.String().Draw(t, "jstr")
	case 5, 6:
		n := rapid.IntRange(0, 3).Draw(t, "jlen")
		out := make([]any, n)
		for i := range out {
			out[i] = jsonTree(t, depth-1)
		}
		return out
	default:
		n := rapid.IntRange(0, 3).Draw(t, "jlen")
		keys := rapid.Permutation([]string{"a", "b", "c", "id", "\u00e9", ""}).Draw(t, "jkeys")[:n]
		out := map[string]any{}
		for _, k := range keys {
			out[k] = jsonTree(t, depth-1)
		}
		return out
	}
}

func jsonDoc(t *rapid.T) string {
	b, err := json.Marshal(jsonTree(t, 2))
	if err != nil {
		panic(err)
	}
	return pickStr(t, "lead", "", "", "", " ", "\n\t") + string(b) + pickStr(t, "trail", "", "", " ", "\n")
}

// ---------------------------------------------------------------- CSV documents

func csvField(t *rapid.T) string {
	s := gen.SimpleString().Draw(t, "field")
	if chance(t, 1, 5, "quoted") {
		return `"` + s + pickStr(t, "inq", "", ",", `""`, "\n") + `"`
	}
	return s
}

func csvDoc(t *rapid.T) string {
	ncol := rapid.IntRange(1, 3).Draw(t, "ncol")
	hdr := rapid.Permutation([]string{"a", "b", "c", "name", "id", "\u00e9"}).Draw(t, "hdr")[:ncol]
	lines := []string{strings.Join(hdr, ",")}
	for r := rapid.IntRange(0, 3).Draw(t, "nrows"); r > 0; r-- {
		fs := make([]string, ncol)
		for i := range fs {
			fs[i] = csvField(t)
		}
		if ncol == 1 && fs[0] == "" {
			fs[0] = "x" // a lone empty field is a blank line, which the reader skips
		}
		lines = append(lines, strings.Join(fs, ","))
	}
	return strings.Join(lines, pickStr(t, "eol", "\n", "\n", "\r\n")) + pickStr(t, "tail", "", "\n")
}

func init() {
	const fam = "format"
	register(Entry{Name: "format", HostileStrs: HostileFormats, Family: fam, Fn: stdlib.FormatFunc, Args: func(t *rapid.T) []spec.V { return formatArgs(t, false) }})
	register(Entry{Name: "formatlist", HostileStrs: HostileFormats, Family: fam, Fn: stdlib.FormatListFunc, Args: func(t *rapid.T) []spec.V { return formatArgs(t, true) }})

	const fame = "encoding"
	register(Entry{Name: "formatdate", HostileStrs: append(append([]string{}, HostileDateFormats...), HostileTimestamps...), Family: fame, Fn: stdlib.FormatDateFunc, Args: func(t *rapid.T) []spec.V {
		toks := rapid.SliceOfN(rapid.SampledFrom(dateTokens), 0, 6).Draw(t, "tokens")
		// two adjacent runs of the same letter would merge into one (invalid) verb: separate them
		var b strings.Builder
		for i, tok := range toks {
			if i > 0 && len(toks[i-1]) > 0 && len(tok) > 0 && toks[i-1][len(toks[i-1])-1] == tok[0] {
				b.WriteByte(' ')
			}
			b.WriteString(tok)
		}
		return []spec.V{lit(b.String()), lit(timestamp(t))}
	}})
	register(Entry{Name: "timeadd", HostileStrs: append(append([]string{}, HostileDurations...), HostileTimestamps...), Family: fame, Fn: stdlib.TimeAddFunc, Args: func(t *rapid.T) []spec.V {
		return []spec.V{lit(timestamp(t)), lit(pickStr(t, "dur", "1h", "-2h5m", "1.5h", "30s", "0", "100ms", "1us", "1\u00b5s", "2562047h", "1ns", "-1ns", "24h", "8760h", "+3m"))}
	}})
	register(Entry{Name: "jsonencode", Family: fame, Fn: stdlib.JSONEncodeFunc, Args: func(t *rapid.T) []spec.V {
		if chance(t, 1, 10, "null") {
			return []spec.V{spec.NullOf(elemT(t))}
		}
		ty := gen.Type(gen.TypeOpts{Depth: 2}).Draw(t, "type")
		return []spec.V{val(t, ty, withNulls, "val")}
	}})
	register(Entry{Name: "jsondecode", HostileStrs: HostileJSON, Family: fame, Fn: stdlib.JSONDecodeFunc, Args: func(t *rapid.T) []spec.V {
		return []spec.V{lit(jsonDoc(t))}
	}})
	register(Entry{Name: "csvdecode", HostileStrs: HostileCSV, Family: fame, Fn: stdlib.CSVDecodeFunc, Args: func(t *rapid.T) []spec.V {
		return []spec.V{lit(csvDoc(t))}
	}})
	register(Entry{Name: "regex", HostileStrs: HostileRegexps, Family: fame, Fn: stdlib.RegexFunc, Args: func(t *rapid.T) []spec.V {
		pat, sub := regexArgs(t)
		return []spec.V{lit(pat), lit(sub)}
	}})
	register(Entry{Name: "regexall", HostileStrs: HostileRegexps, Family: fame, Fn: stdlib.RegexAllFunc, Args: func(t *rapid.T) []spec.V {
		pat, sub := regexArgs(t)
		return []spec.V{lit(pat), lit(sub)}
	}})
}
