package stdreg

import (
	"pgregory.net/rapid"

	"verif/harness/gen"
	"verif/harness/spec"
)

// ---------------------------------------------------------------- small building blocks

var elemTypes = []spec.T{
	spec.String, spec.Number, spec.Bool, spec.String, spec.Number,
	spec.List(spec.String), spec.Object(spec.Attr{Name: "a", T: spec.String}),
	spec.Tuple(spec.Number, spec.String), spec.Map(spec.Number),
}

var primTypes = []spec.T{spec.String, spec.Number, spec.Bool, spec.String}

func elemT(t *rapid.T) spec.T { return rapid.SampledFrom(elemTypes).Draw(t, "elemT") }
func primT(t *rapid.T) spec.T { return rapid.SampledFrom(primTypes).Draw(t, "primT") }

// val draws a known (root) value of the given type.
func val(t *rapid.T, ty spec.T, o gen.ValOpts, label string) spec.V {
	o.RootKnown = true
	o.NoInf = true
	return gen.Value(ty, o).Draw(t, label)
}

var plain = gen.ValOpts{}
var simple = gen.ValOpts{Simple: true}
var withNulls = gen.ValOpts{Null: true}

func str(t *rapid.T, label string) spec.V  { return spec.KnownStr(gen.String().Draw(t, label)) }
func sstr(t *rapid.T, label string) spec.V { return spec.KnownStr(gen.SimpleString().Draw(t, label)) }
func lit(s string) spec.V                  { return spec.KnownStr(s) }
func boolv(t *rapid.T, label string) spec.V {
	return spec.KnownBool(rapid.Bool().Draw(t, label))
}
func intv(t *rapid.T, lo, hi int, label string) spec.V {
	return spec.KnownNum(gen.SmallInt(lo, hi).Draw(t, label))
}
func inum(i int) spec.V { return spec.KnownNum(spec.NInt(int64(i))) }

// numv draws any finite number (all classes of gen.Num without infinities).
func numv(t *rapid.T, label string) spec.V {
	return spec.KnownNum(gen.Num(gen.NumOpts{NoInf: true}).Draw(t, label))
}

// numInf draws any number, infinities included.
func numInf(t *rapid.T, label string) spec.V {
	return spec.KnownNum(gen.Num(gen.NumOpts{}).Draw(t, label))
}

// friendlyNum draws small integers, halves and tenths.
func friendlyNum(t *rapid.T, label string) spec.V {
	switch rapid.IntRange(0, 3).Draw(t, label+"cls") {
	case 0:
		f := float64(rapid.IntRange(-40, 40).Draw(t, label+"tenths")) / 10
		return spec.KnownNum(spec.NFloat(f))
	case 1:
		return numv(t, label)
	default:
		return intv(t, -5, 12, label)
	}
}

func listOf(et spec.T, elems ...spec.V) spec.V {
	return spec.V{T: spec.List(et), St: spec.Known, Elems: elems}
}

func setOf(et spec.T, elems ...spec.V) spec.V {
	return spec.V{T: spec.Set(et), St: spec.Known, Elems: elems}
}

func tupleOf(elems ...spec.V) spec.V {
	return spec.V{T: spec.Tuple(), St: spec.Known, Elems: elems}.Retype()
}

// strList draws a list(string) of n..m members.
func strList(t *rapid.T, lo, hi int, o gen.ValOpts, label string) spec.V {
	n := rapid.IntRange(lo, hi).Draw(t, label+"n")
	v := listOf(spec.String)
	for i := 0; i < n; i++ {
		o2 := o
		o2.RootKnown = false
		v.Elems = append(v.Elems, gen.Value(spec.String, o2).Draw(t, label))
	}
	return v
}

// tupleT draws a tuple type of 0..3 member types.
func tupleT(t *rapid.T, lo, hi int) spec.T {
	n := rapid.IntRange(lo, hi).Draw(t, "tuplen")
	es := make([]spec.T, n)
	for i := range es {
		es[i] = elemT(t)
	}
	return spec.T{K: spec.KTuple, Elems: es}
}

var objAttrNames = []string{"a", "b", "c", "id", "\u00e9"}

// objectT draws an object type of lo..hi attributes.
func objectT(t *rapid.T, lo, hi int) spec.T {
	n := rapid.IntRange(lo, hi).Draw(t, "nattrs")
	names := rapid.Permutation(objAttrNames).Draw(t, "attrnames")[:n]
	as := make([]spec.Attr, n)
	for i := range as {
		as[i] = spec.Attr{Name: names[i], T: elemT(t)}
	}
	return spec.T{K: spec.KObject, Attrs: as}
}

// collT draws a type of one of the given kinds ("list","set","map","tuple","object").
func collT(t *rapid.T, kinds ...string) spec.T {
	switch rapid.SampledFrom(kinds).Draw(t, "collkind") {
	case "list":
		return spec.List(elemT(t))
	case "set":
		return spec.Set(elemT(t))
	case "map":
		return spec.Map(elemT(t))
	case "tuple":
		return tupleT(t, 0, 3)
	case "object":
		return objectT(t, 0, 3)
	}
	panic("stdreg: bad kind")
}

// coll draws a known value of one of the given kinds.
func coll(t *rapid.T, o gen.ValOpts, label string, kinds ...string) spec.V {
	return val(t, collT(t, kinds...), o, label)
}

// oneOf draws an index-weighted choice.
func chance(t *rapid.T, num, den int, label string) bool {
	return rapid.IntRange(0, den-1).Draw(t, label) < num
}

func pickStr(t *rapid.T, label string, ss ...string) string {
	return rapid.SampledFrom(ss).Draw(t, label)
}

// nonEmpty gives a known list/set/map/tuple at least one member.
func nonEmpty(t *rapid.T, v spec.V) spec.V {
	if v.St != spec.Known || len(v.Elems) > 0 {
		return v
	}
	switch v.T.K {
	case spec.KList, spec.KSet:
		v.Elems = []spec.V{val(t, *v.T.E, plain, "member")}
	case spec.KMap:
		v.Keys = []string{pickStr(t, "key", "a", "b", "k1")}
		v.Elems = []spec.V{val(t, *v.T.E, plain, "member")}
	case spec.KTuple:
		v.Elems = []spec.V{val(t, elemT(t), plain, "member")}
	case spec.KObject:
		v.Keys = []string{"a"}
		v.Elems = []spec.V{val(t, elemT(t), plain, "member")}
	}
	return v.Retype()
}
