// Package stdreg is the registry of every exported function.Function value of
// github.com/zclconf/go-cty/cty/function/stdlib (plus MakeToFunc instantiated
// for a few representative target types). Per function it holds the function
// value, a family (source file), and an IN-DOMAIN argument generator: a rapid
// generator drawing a JSON-serialisable []spec.V argument list of wholly-known,
// unmarked values on which the function usually succeeds. The generators are
// written from Params()/VarParam() and each function's documented domain;
// count-like arguments (indent, format widths/precisions, range bounds, chunk
// sizes) are kept far below 2^16.
//
// Shared by C11 (totality), C12 (unknown soundness) and available to C04, C06,
// C20. Inputs of facets are then {Fn string; Args []spec.V}.
package stdreg

import (
	"fmt"
	"sort"

	"github.com/zclconf/go-cty/cty"
	"github.com/zclconf/go-cty/cty/function"
	"github.com/zclconf/go-cty/cty/function/stdlib"
	"pgregory.net/rapid"

	"verif/harness/gen"
	"verif/harness/spec"
)

// Entry is one registered standard-library function.
type Entry struct {
	Name   string            // conventional lower-case name ("setproduct", "regex_replace", "to/string")
	Family string            // grouping by source file / kind, used to form facets
	Fn     function.Function // the function value under test
	// Args draws an in-domain argument list: wholly known, unmarked values
	// (nulls only where the function's domain includes them).
	Args func(t *rapid.T) []spec.V
	// Counts lists the argument positions that act as repeat counts for an
	// allocation (hostile numbers injected there are bounded to 2^16).
	Counts []int
	// BytesArgs lists the positions that hold stdlib.Bytes capsule values. A
	// spec cannot express that capsule type, so such an argument is drawn as a
	// string spec and Build turns it into a Bytes value with the same bytes.
	BytesArgs []int
	// HostileStrs is the function's own pool of malformed texts (format
	// strings, patterns, timestamps ...) used by Inject with preference.
	HostileStrs []string
}

var (
	entries []Entry
	byName  = map[string]int{}
)

func register(e Entry) {
	if _, dup := byName[e.Name]; dup {
		panic("stdreg: duplicate function " + e.Name)
	}
	if e.Fn.VarParam() != nil && e.Args != nil && e.Name != "setproduct" { // (the cost of setproduct is exponential in its arguments)
		// variadic functions: now and then a LONG argument list (9..17
		// arguments), made by repeating drawn variadic arguments, so that code
		// gated by the number of arguments is reached
		inner := e.Args
		nfixed := len(e.Fn.Params())
		e.Args = func(t *rapid.T) []spec.V {
			args := inner(t)
			if len(args) > nfixed && rapid.IntRange(0, 39).Draw(t, "longtail") == 20 {
				want := nfixed + rapid.SampledFrom(gen.LongSizes[4:8]).Draw(t, "longn")
				for len(args) < want {
					args = append(args, args[rapid.IntRange(nfixed, len(args)-1).Draw(t, "repeat")].Clone())
				}
			}
			return args
		}
	}
	byName[e.Name] = len(entries)
	entries = append(entries, e)
}

// All returns every registered function, in registration order (stable).
func All() []Entry {
	out := make([]Entry, len(entries))
	copy(out, entries)
	return out
}

// ByName looks a function up by its registry name.
func ByName(name string) (Entry, bool) {
	i, ok := byName[name]
	if !ok {
		return Entry{}, false
	}
	return entries[i], true
}

// MustByName is ByName that panics for an unknown name.
func MustByName(name string) Entry {
	e, ok := ByName(name)
	if !ok {
		panic("stdreg: no function named " + name)
	}
	return e
}

// Names returns all registry names, sorted.
func Names() []string {
	out := make([]string, 0, len(entries))
	for _, e := range entries {
		out = append(out, e.Name)
	}
	sort.Strings(out)
	return out
}

// Families returns the family names in first-registration order.
func Families() []string {
	var out []string
	seen := map[string]bool{}
	for _, e := range entries {
		if !seen[e.Family] {
			seen[e.Family] = true
			out = append(out, e.Family)
		}
	}
	return out
}

// Family returns the entries of one family, in registration order.
func Family(name string) []Entry {
	var out []Entry
	for _, e := range entries {
		if e.Family == name {
			out = append(out, e)
		}
	}
	return out
}

// IsCount reports whether argument position i is a count-like position.
func (e Entry) IsCount(i int) bool {
	for _, c := range e.Counts {
		if c == i {
			return true
		}
	}
	return false
}

func (e Entry) isBytes(i int) bool {
	for _, c := range e.BytesArgs {
		if c == i {
			return true
		}
	}
	return false
}

// Build turns an argument spec list into cty values (through spec.Build,
// except for the Bytes capsule positions). An inconsistent spec yields an error.
func (e Entry) Build(args []spec.V) ([]cty.Value, error) {
	out := make([]cty.Value, len(args))
	for i, a := range args {
		if e.isBytes(i) && a.T.K == spec.KString {
			out[i] = buildBytes(a)
			continue
		}
		v, err := spec.Build(a)
		if err != nil {
			return nil, fmt.Errorf("argument %d: %w", i, err)
		}
		out[i] = v
	}
	return out, nil
}

func buildBytes(a spec.V) cty.Value {
	var v cty.Value
	switch a.St {
	case spec.Null:
		v = cty.NullVal(stdlib.Bytes)
	case spec.Unknown:
		v = cty.UnknownVal(stdlib.Bytes)
		if a.Ref != nil && a.Ref.Null == "notnull" {
			v = v.RefineNotNull()
		}
	default:
		buf := []byte(a.S)
		if buf == nil {
			buf = []byte{}
		}
		v = stdlib.BytesVal(buf)
	}
	for _, m := range a.Marks {
		v = v.Mark(spec.Mark(m))
	}
	return v
}

// Outcome is the result of a guarded call.
type Outcome struct {
	Val      cty.Value
	Err      error
	Panicked bool   // a Go panic escaped the call
	Panic    string // the panic value, formatted
}

// Call invokes fn.Call(args) and captures a Go panic escaping it.
func Call(fn function.Function, args []cty.Value) (o Outcome) {
	defer func() {
		if r := recover(); r != nil {
			o = Outcome{Panicked: true, Panic: fmt.Sprint(r)}
		}
	}()
	v, err := fn.Call(args)
	return Outcome{Val: v, Err: err}
}

// TypeOutcome is the result of a guarded return-type prediction.
type TypeOutcome struct {
	Ty       cty.Type
	Err      error
	Panicked bool
	Panic    string
}

// ReturnTypeForValues is the guarded value-based prediction.
func ReturnTypeForValues(fn function.Function, args []cty.Value) (o TypeOutcome) {
	defer func() {
		if r := recover(); r != nil {
			o = TypeOutcome{Panicked: true, Panic: fmt.Sprint(r)}
		}
	}()
	ty, err := fn.ReturnTypeForValues(args)
	return TypeOutcome{Ty: ty, Err: err}
}

// ReturnType is the guarded type-only prediction from the arguments' types.
func ReturnType(fn function.Function, args []cty.Value) (o TypeOutcome) {
	defer func() {
		if r := recover(); r != nil {
			o = TypeOutcome{Panicked: true, Panic: fmt.Sprint(r)}
		}
	}()
	tys := make([]cty.Type, len(args))
	for i, a := range args {
		tys[i] = a.Type()
	}
	ty, err := fn.ReturnType(tys)
	return TypeOutcome{Ty: ty, Err: err}
}

// Pick draws one entry of the given list uniformly, so that every function of
// a facet gets the same budget.
func Pick(t *rapid.T, es []Entry) Entry {
	return es[rapid.IntRange(0, len(es)-1).Draw(t, "fn")]
}
