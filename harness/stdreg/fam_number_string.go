package stdreg

import (
	"strings"

	"github.com/zclconf/go-cty/cty/function"
	"github.com/zclconf/go-cty/cty/function/stdlib"
	"pgregory.net/rapid"

	"verif/harness/gen"
	"verif/harness/spec"
)

const parseIntDigits = "0123456789abcdefghijklmnopqrstuvwxyzABCDEFGHIJKLMNOPQRSTUVWXYZ"

func init() {
	const fam = "number"

	one := func(f func(t *rapid.T, l string) spec.V) func(t *rapid.T) []spec.V {
		return func(t *rapid.T) []spec.V { return []spec.V{f(t, "num")} }
	}
	two := func(f func(t *rapid.T, l string) spec.V) func(t *rapid.T) []spec.V {
		return func(t *rapid.T) []spec.V { return []spec.V{f(t, "a"), f(t, "b")} }
	}
	// arithmetic: mostly finite numbers, infinities now and then (documented to
	// produce errors only for the NaN combinations)
	arith := func(t *rapid.T, l string) spec.V {
		if chance(t, 1, 12, l+"inf") {
			return numInf(t, l)
		}
		return friendlyNum(t, l)
	}

	register(Entry{Name: "abs", Family: fam, Fn: stdlib.AbsoluteFunc, Args: one(arith)})
	register(Entry{Name: "add", Family: fam, Fn: stdlib.AddFunc, Args: two(arith)})
	register(Entry{Name: "subtract", Family: fam, Fn: stdlib.SubtractFunc, Args: two(arith)})
	register(Entry{Name: "multiply", Family: fam, Fn: stdlib.MultiplyFunc, Args: two(arith)})
	register(Entry{Name: "divide", Family: fam, Fn: stdlib.DivideFunc, Args: func(t *rapid.T) []spec.V {
		a, b := arith(t, "a"), arith(t, "b")
		if b.N.Float().Sign() == 0 && chance(t, 3, 4, "nonzero") {
			b = inum(3)
		}
		return []spec.V{a, b}
	}})
	register(Entry{Name: "modulo", Family: fam, Fn: stdlib.ModuloFunc, Args: func(t *rapid.T) []spec.V {
		a, b := arith(t, "a"), arith(t, "b")
		if b.N.Float().Sign() == 0 && chance(t, 3, 4, "nonzero") {
			b = inum(3)
		}
		return []spec.V{a, b}
	}})
	register(Entry{Name: "negate", Family: fam, Fn: stdlib.NegateFunc, Args: one(arith)})
	register(Entry{Name: "min", Family: fam, Fn: stdlib.MinFunc, Args: func(t *rapid.T) []spec.V {
		n := rapid.IntRange(1, 4).Draw(t, "nargs")
		out := make([]spec.V, n)
		for i := range out {
			out[i] = arith(t, "n")
		}
		return out
	}})
	register(Entry{Name: "max", Family: fam, Fn: stdlib.MaxFunc, Args: func(t *rapid.T) []spec.V {
		n := rapid.IntRange(1, 4).Draw(t, "nargs")
		out := make([]spec.V, n)
		for i := range out {
			out[i] = arith(t, "n")
		}
		return out
	}})
	register(Entry{Name: "int", Family: fam, Fn: stdlib.IntFunc, Args: one(friendlyNum)})
	register(Entry{Name: "ceil", Family: fam, Fn: stdlib.CeilFunc, Args: one(arith)})
	register(Entry{Name: "floor", Family: fam, Fn: stdlib.FloorFunc, Args: one(arith)})
	register(Entry{Name: "log", Family: fam, Fn: stdlib.LogFunc, Args: func(t *rapid.T) []spec.V {
		nums := []spec.Num{spec.NInt(1), spec.NInt(2), spec.NInt(8), spec.NInt(10), spec.NInt(100), spec.NFloat(0.5), spec.NFloat(2.5), spec.NParse("1024"), spec.NFloat(1e300), spec.NParse("0.001")}
		bases := []spec.Num{spec.NInt(2), spec.NInt(10), spec.NFloat(2.718281828459045), spec.NFloat(0.5), spec.NInt(16)}
		return []spec.V{spec.KnownNum(rapid.SampledFrom(nums).Draw(t, "num")), spec.KnownNum(rapid.SampledFrom(bases).Draw(t, "base"))}
	}})
	register(Entry{Name: "pow", Family: fam, Fn: stdlib.PowFunc, Args: func(t *rapid.T) []spec.V {
		// non-negative base, or negative base with an integer power (the real-valued domain)
		if chance(t, 1, 3, "negbase") {
			return []spec.V{intv(t, -5, -1, "num"), intv(t, -3, 6, "power")}
		}
		nums := []spec.Num{spec.NInt(0), spec.NInt(1), spec.NInt(2), spec.NInt(10), spec.NFloat(0.5), spec.NFloat(2.5), spec.NInt(3)}
		pows := []spec.Num{spec.NInt(0), spec.NInt(1), spec.NInt(2), spec.NInt(10), spec.NFloat(0.5), spec.NInt(3), spec.NInt(100)}
		return []spec.V{spec.KnownNum(rapid.SampledFrom(nums).Draw(t, "num")), spec.KnownNum(rapid.SampledFrom(pows).Draw(t, "power"))}
	}})
	register(Entry{Name: "signum", Family: fam, Fn: stdlib.SignumFunc, Args: func(t *rapid.T) []spec.V {
		if chance(t, 1, 5, "any") {
			return []spec.V{friendlyNum(t, "num")}
		}
		return []spec.V{intv(t, -20, 20, "num")}
	}})
	register(Entry{Name: "parseint", HostileStrs: HostileNumSyntax, Family: fam, Fn: stdlib.ParseIntFunc, Args: func(t *rapid.T) []spec.V {
		base := rapid.SampledFrom([]int{2, 8, 10, 10, 16, 36, 37, 62, 3}).Draw(t, "base")
		n := rapid.IntRange(1, 12).Draw(t, "ndigits")
		var b strings.Builder
		if chance(t, 1, 4, "neg") {
			b.WriteByte('-')
		}
		for i := 0; i < n; i++ {
			b.WriteByte(parseIntDigits[rapid.IntRange(0, base-1).Draw(t, "digit")])
		}
		return []spec.V{lit(b.String()), inum(base)}
	}})

	// comparisons live with the general family so that no facet has too many functions
	const famc = "general"
	register(Entry{Name: "greaterthan", Family: famc, Fn: stdlib.GreaterThanFunc, Args: two(arith)})
	register(Entry{Name: "greaterthanorequalto", Family: famc, Fn: stdlib.GreaterThanOrEqualToFunc, Args: two(arith)})
	register(Entry{Name: "lessthan", Family: famc, Fn: stdlib.LessThanFunc, Args: two(arith)})
	register(Entry{Name: "lessthanorequalto", Family: famc, Fn: stdlib.LessThanOrEqualToFunc, Args: two(arith)})

	// ------------------------------------------------------------ string.go, string_replace.go
	const fams = "string"
	oneStr := func(t *rapid.T) []spec.V { return []spec.V{str(t, "str")} }
	for _, e := range []struct {
		n string
		f function.Function
	}{{"upper", stdlib.UpperFunc}, {"lower", stdlib.LowerFunc}, {"reverse", stdlib.ReverseFunc}, {"strlen", stdlib.StrlenFunc},
		{"title", stdlib.TitleFunc}, {"trimspace", stdlib.TrimSpaceFunc}} {
		register(Entry{Name: e.n, Family: fams, Fn: e.f, Args: oneStr})
	}
	register(Entry{Name: "chomp", Family: fams, Fn: stdlib.ChompFunc, Args: func(t *rapid.T) []spec.V {
		s := gen.String().Draw(t, "str") + pickStr(t, "tail", "", "\n", "\r\n", "\n\n", "\r", "\n\r\n", "x")
		return []spec.V{lit(s)}
	}})
	register(Entry{Name: "substr", Family: fams, Fn: stdlib.SubstrFunc, Args: func(t *rapid.T) []spec.V {
		return []spec.V{str(t, "str"), intv(t, -4, 7, "offset"), intv(t, -1, 7, "length")}
	}})
	register(Entry{Name: "join", Family: fams, Fn: stdlib.JoinFunc, Args: func(t *rapid.T) []spec.V {
		out := []spec.V{lit(pickStr(t, "sep", ",", "", " ", ", ", "\u0301", "-"))}
		for n := rapid.IntRange(1, 2).Draw(t, "nlists"); n > 0; n-- {
			out = append(out, strList(t, 0, 3, plain, "list"))
		}
		return out
	}})
	register(Entry{Name: "sort", Family: fams, Fn: stdlib.SortFunc, Args: func(t *rapid.T) []spec.V {
		return []spec.V{strList(t, 0, 4, plain, "list")}
	}})
	register(Entry{Name: "split", Family: fams, Fn: stdlib.SplitFunc, Args: func(t *rapid.T) []spec.V {
		sep := pickStr(t, "sep", ",", "", " ", "a", "\n", "\u0301", "ab")
		parts := rapid.SliceOfN(gen.SimpleString(), 0, 3).Draw(t, "parts")
		return []spec.V{lit(sep), lit(strings.Join(parts, sep))}
	}})
	register(Entry{Name: "indent", Family: fams, Fn: stdlib.IndentFunc, Counts: []int{0}, Args: func(t *rapid.T) []spec.V {
		lines := rapid.SliceOfN(gen.SimpleString(), 0, 3).Draw(t, "lines")
		return []spec.V{intv(t, 0, 8, "spaces"), lit(strings.Join(lines, "\n"))}
	}})
	related := func(t *rapid.T) []spec.V {
		s := gen.String().Draw(t, "str")
		cut := s
		if r := []rune(s); len(r) > 0 && chance(t, 2, 3, "related") {
			i := rapid.IntRange(0, len(r)).Draw(t, "i")
			j := rapid.IntRange(i, len(r)).Draw(t, "j")
			switch rapid.IntRange(0, 2).Draw(t, "part") {
			case 0:
				cut = string(r[:j])
			case 1:
				cut = string(r[i:])
			default:
				cut = string(r[i:j])
			}
		} else {
			cut = gen.String().Draw(t, "other")
		}
		return []spec.V{lit(s), lit(cut)}
	}
	register(Entry{Name: "trim", Family: fams, Fn: stdlib.TrimFunc, Args: related})
	register(Entry{Name: "trimprefix", Family: fams, Fn: stdlib.TrimPrefixFunc, Args: related})
	register(Entry{Name: "trimsuffix", Family: fams, Fn: stdlib.TrimSuffixFunc, Args: related})
	register(Entry{Name: "replace", Family: fams, Fn: stdlib.ReplaceFunc, Args: func(t *rapid.T) []spec.V {
		a := related(t)
		return []spec.V{a[0], a[1], str(t, "replace")}
	}})
	register(Entry{Name: "regex_replace", HostileStrs: HostileRegexps, Family: fams, Fn: stdlib.RegexReplaceFunc, Args: func(t *rapid.T) []spec.V {
		pat, sub := regexArgs(t)
		return []spec.V{lit(sub), lit(pat),
			lit(pickStr(t, "replace", "", "x", "$1", "${x}", "$0$0", "\u0301", "$"))}
	}})
}

// regexCases are valid RE2 patterns covering the result-type classes of
// regex/regexall (no groups, unnamed groups, named groups, optional groups),
// each with subjects it matches.
var regexCases = []struct {
	pat      string
	subjects []string
}{
	{"a", []string{"a", "banana", "xa"}},
	{"[a-z]+", []string{"abc", "123 foo", "x"}},
	{"(a)(b)?", []string{"ab", "a", "cab"}},
	{"(?P<x>[0-9]+)", []string{"123", "a1b22", "0"}},
	{"(?P<x>a)(?P<y>b)?", []string{"ab", "a", "ba"}},
	{".", []string{"a", "\u00e9", "xyz"}},
	{"^$", []string{""}},
	{`\d+`, []string{"123", "a 45 b 6"}},
	{"(a|b)*", []string{"abba", "", "xyz"}},
	{"", []string{"", "abc"}},
	{"\u00e9", []string{"\u00e9a", "caf\u00e9"}},
	{"(?i)foo", []string{"FOO bar", "foo", "xFoOx"}},
	{"(b)|(a)", []string{"a", "b", "ab"}},
	{`(?P<year>\d{4})-(?P<month>\d{2})`, []string{"2019-02-01", "x 1999-12"}},
	{"o*", []string{"foo", "", "xyz"}},
	{`\pL+`, []string{"\u00e9a", "abc 1", "\u65e5\u672c"}},
	{"(.)(.)(.)", []string{"abc", "abcdef"}},
}

// regexArgs draws a pattern and a subject it usually matches.
func regexArgs(t *rapid.T) (string, string) {
	c := regexCases[rapid.IntRange(0, len(regexCases)-1).Draw(t, "pattern")]
	if chance(t, 1, 8, "free") {
		return c.pat, gen.String().Draw(t, "subject")
	}
	return c.pat, rapid.SampledFrom(c.subjects).Draw(t, "subject")
}
