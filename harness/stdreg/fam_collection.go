package stdreg

import (
	"github.com/zclconf/go-cty/cty/function/stdlib"
	"pgregory.net/rapid"

	"verif/harness/gen"
	"verif/harness/spec"
)

// keyFor draws a key for indexing v: mostly one that exists.
func keyFor(t *rapid.T, v spec.V, hitNum, hitDen int) spec.V {
	n := len(v.Elems)
	switch v.T.K {
	case spec.KMap, spec.KObject:
		if n > 0 && chance(t, hitNum, hitDen, "keyhit") {
			return lit(v.Keys[rapid.IntRange(0, n-1).Draw(t, "keyidx")])
		}
		return sstr(t, "key")
	default:
		if n > 0 && chance(t, hitNum, hitDen, "keyhit") {
			return intv(t, 0, n-1, "idx")
		}
		if chance(t, 1, 4, "fracidx") {
			return spec.KnownNum(spec.NFloat(0.5))
		}
		return intv(t, -2, n+2, "idx")
	}
}

func init() {
	const fam = "collection"

	register(Entry{Name: "hasindex", Family: fam, Fn: stdlib.HasIndexFunc, Args: func(t *rapid.T) []spec.V {
		c := coll(t, plain, "coll", "list", "map", "tuple")
		return []spec.V{c, keyFor(t, c, 1, 2)}
	}})

	register(Entry{Name: "index", Family: fam, Fn: stdlib.IndexFunc, Args: func(t *rapid.T) []spec.V {
		c := nonEmpty(t, coll(t, plain, "coll", "list", "map", "tuple"))
		return []spec.V{c, keyFor(t, c, 9, 10)}
	}})

	register(Entry{Name: "length", Family: fam, Fn: stdlib.LengthFunc, Args: func(t *rapid.T) []spec.V {
		return []spec.V{coll(t, withNulls, "coll", "list", "set", "map", "tuple")}
	}})

	register(Entry{Name: "element", Family: fam, Fn: stdlib.ElementFunc, Args: func(t *rapid.T) []spec.V {
		c := coll(t, withNulls, "list", "list", "tuple")
		if chance(t, 9, 10, "nonempty") {
			c = nonEmpty(t, c)
		}
		n := len(c.Elems)
		return []spec.V{c, intv(t, -2*n-1, 3*n+1, "index")}
	}})

	register(Entry{Name: "coalescelist", Family: fam, Fn: stdlib.CoalesceListFunc, Args: func(t *rapid.T) []spec.V {
		n := rapid.IntRange(1, 3).Draw(t, "nargs")
		ty := collT(t, "list", "list", "tuple")
		var out []spec.V
		for i := 0; i < n; i++ {
			if !chance(t, 3, 4, "sametype") {
				ty = collT(t, "list", "tuple")
			}
			cls := rapid.IntRange(0, 5).Draw(t, "argclass")
			if i == n-1 && chance(t, 9, 10, "lastnonempty") {
				out = append(out, nonEmpty(t, val(t, ty, plain, "arg")))
				continue
			}
			switch cls {
			case 0:
				out = append(out, spec.NullOf(ty))
			case 1:
				if ty.K == spec.KList {
					out = append(out, spec.V{T: ty, St: spec.Known})
				} else {
					out = append(out, tupleOf())
				}
			default:
				out = append(out, val(t, ty, plain, "arg"))
			}
		}
		return out
	}})

	register(Entry{Name: "compact", Family: fam, Fn: stdlib.CompactFunc, Args: func(t *rapid.T) []spec.V {
		l := strList(t, 0, 4, withNulls, "list")
		for i := range l.Elems {
			if l.Elems[i].St == spec.Known && chance(t, 1, 3, "empty") {
				l.Elems[i] = lit("")
			}
		}
		return []spec.V{l}
	}})

	register(Entry{Name: "contains", Family: fam, Fn: stdlib.ContainsFunc, Args: func(t *rapid.T) []spec.V {
		et := elemT(t)
		var c spec.V
		switch rapid.IntRange(0, 2).Draw(t, "kind") {
		case 0:
			c = val(t, spec.List(et), withNulls, "list")
		case 1:
			c = val(t, spec.Set(et), plain, "set")
		default:
			c = val(t, spec.Tuple(et, et), withNulls, "tuple")
		}
		if n := len(c.Elems); n > 0 && chance(t, 1, 2, "hit") {
			return []spec.V{c, c.Elems[rapid.IntRange(0, n-1).Draw(t, "which")].Clone()}
		}
		return []spec.V{c, val(t, et, plain, "value")}
	}})

	register(Entry{Name: "distinct", Family: fam, Fn: stdlib.DistinctFunc, Args: func(t *rapid.T) []spec.V {
		l := val(t, spec.List(elemT(t)), gen.ValOpts{Null: true, Simple: true, MaxElems: 4}, "list")
		// duplicate some members
		if n := len(l.Elems); n > 0 {
			for k := rapid.IntRange(0, 2).Draw(t, "dups"); k > 0; k-- {
				l.Elems = append(l.Elems, l.Elems[rapid.IntRange(0, n-1).Draw(t, "dup")].Clone())
			}
		}
		return []spec.V{l}
	}})

	register(Entry{Name: "chunklist", Family: fam, Fn: stdlib.ChunklistFunc, Args: func(t *rapid.T) []spec.V {
		l := val(t, spec.List(elemT(t)), gen.ValOpts{Null: true, MaxElems: 5}, "list")
		return []spec.V{l, intv(t, 0, 4, "size")}
	}})

	register(Entry{Name: "flatten", Family: fam, Fn: stdlib.FlattenFunc, Args: func(t *rapid.T) []spec.V {
		inner := []spec.T{spec.String, spec.Number, spec.List(spec.String), spec.Set(spec.Number), spec.Tuple(spec.String, spec.List(spec.Number)),
			spec.List(spec.List(spec.String)), spec.Tuple(), spec.Object(spec.Attr{Name: "a", T: spec.List(spec.String)})}
		var ty spec.T
		switch rapid.IntRange(0, 2).Draw(t, "kind") {
		case 0:
			ty = spec.List(rapid.SampledFrom(inner).Draw(t, "inner"))
		case 1:
			ty = spec.Set(rapid.SampledFrom(inner).Draw(t, "inner"))
		default:
			n := rapid.IntRange(0, 3).Draw(t, "n")
			es := make([]spec.T, n)
			for i := range es {
				es[i] = rapid.SampledFrom(inner).Draw(t, "inner")
			}
			ty = spec.T{K: spec.KTuple, Elems: es}
		}
		return []spec.V{val(t, ty, withNulls, "list")}
	}})

	register(Entry{Name: "keys", Family: fam, Fn: stdlib.KeysFunc, Args: func(t *rapid.T) []spec.V {
		return []spec.V{coll(t, withNulls, "map", "map", "object")}
	}})

	register(Entry{Name: "values", Family: fam, Fn: stdlib.ValuesFunc, Args: func(t *rapid.T) []spec.V {
		return []spec.V{coll(t, withNulls, "map", "map", "object")}
	}})

	register(Entry{Name: "lookup", Family: fam, Fn: stdlib.LookupFunc, Args: func(t *rapid.T) []spec.V {
		m := coll(t, plain, "map", "map", "map", "object")
		key := keyFor(t, m, 1, 2)
		var def spec.V
		if m.T.K == spec.KMap {
			def = val(t, *m.T.E, plain, "default")
		} else {
			def = val(t, elemT(t), plain, "default")
		}
		return []spec.V{m, key, def}
	}})

	register(Entry{Name: "merge", Family: fam, Fn: stdlib.MergeFunc, Args: func(t *rapid.T) []spec.V {
		n := rapid.IntRange(0, 3).Draw(t, "nargs")
		et := elemT(t)
		allMaps := chance(t, 1, 2, "allmaps")
		var out []spec.V
		for i := 0; i < n; i++ {
			var ty spec.T
			if allMaps || chance(t, 1, 3, "map") {
				ty = spec.Map(et)
			} else {
				ty = objectT(t, 0, 3)
			}
			if chance(t, 1, 8, "null") {
				out = append(out, spec.NullOf(ty))
			} else {
				out = append(out, val(t, ty, withNulls, "arg"))
			}
		}
		return out
	}})

	register(Entry{Name: "reverselist", Family: fam, Fn: stdlib.ReverseListFunc, Args: func(t *rapid.T) []spec.V {
		return []spec.V{coll(t, withNulls, "list", "list", "tuple", "set")}
	}})

	register(Entry{Name: "setproduct", Family: fam, Fn: stdlib.SetProductFunc, Args: func(t *rapid.T) []spec.V {
		if rapid.IntRange(0, 9).Draw(t, "manyargs") == 5 {
			// MANY arguments (7..17), each holding exactly one member: the
			// product has a single element, so it stays cheap, while bounds
			// derived from the arguments are multiplied many times
			n := rapid.SampledFrom(gen.LongSizes[2:10]).Draw(t, "manyn")
			kind := rapid.SampledFrom([]string{"list", "set"}).Draw(t, "manykind")
			var out []spec.V
			for i := 0; i < n; i++ {
				et := primT(t)
				ty := spec.List(et)
				if kind == "set" {
					ty = spec.Set(et)
				}
				m := val(t, et, gen.ValOpts{Simple: true, RootKnown: true}, "member")
				out = append(out, spec.V{T: ty, St: spec.Known, Elems: []spec.V{m}})
			}
			return out
		}
		n := rapid.IntRange(2, 3).Draw(t, "nargs")
		allLists := chance(t, 1, 2, "alllists")
		var out []spec.V
		for i := 0; i < n; i++ {
			et := primT(t)
			var ty spec.T
			switch {
			case allLists && chance(t, 2, 3, "list"):
				ty = spec.List(et)
			case allLists:
				ty = spec.Tuple(et, et)
				if chance(t, 1, 3, "mixedtuple") {
					ty = spec.Tuple(spec.String, spec.Number)
				}
			default:
				ty = collT(t, "set", "list")
				if ty.E.K != spec.KString && ty.E.K != spec.KNumber && ty.E.K != spec.KBool {
					ty = spec.T{K: ty.K, E: &et}
				}
			}
			out = append(out, val(t, ty, gen.ValOpts{Simple: true, MaxElems: 3}, "arg"))
		}
		return out
	}})

	register(Entry{Name: "slice", Family: fam, Fn: stdlib.SliceFunc, Args: func(t *rapid.T) []spec.V {
		l := coll(t, gen.ValOpts{Null: true, MaxElems: 4}, "list", "list", "tuple")
		n := len(l.Elems)
		a := rapid.IntRange(0, n).Draw(t, "start")
		b := rapid.IntRange(a, n).Draw(t, "end")
		if chance(t, 1, 10, "oob") {
			b = n + 1
		}
		return []spec.V{l, intv(t, a, a, "startv"), intv(t, b, b, "endv")}
	}})

	register(Entry{Name: "zipmap", Family: fam, Fn: stdlib.ZipmapFunc, Args: func(t *rapid.T) []spec.V {
		n := rapid.IntRange(0, 3).Draw(t, "n")
		keys := listOf(spec.String)
		pool := rapid.Permutation([]string{"a", "b", "c", "k1", "\u00e9", "", "z"}).Draw(t, "keys")
		for i := 0; i < n; i++ {
			keys.Elems = append(keys.Elems, lit(pool[i]))
		}
		if n > 0 && chance(t, 1, 6, "dupkey") {
			keys.Elems[n-1] = keys.Elems[0].Clone()
		}
		m := n
		if chance(t, 1, 10, "mismatch") {
			m = n + 1
		}
		var vals spec.V
		if chance(t, 1, 2, "listvals") {
			et := elemT(t)
			vals = listOf(et)
			for i := 0; i < m; i++ {
				vals.Elems = append(vals.Elems, gen.Value(et, withNulls).Draw(t, "v"))
			}
		} else {
			var es []spec.V
			for i := 0; i < m; i++ {
				es = append(es, gen.Value(elemT(t), withNulls).Draw(t, "v"))
			}
			vals = tupleOf(es...)
		}
		return []spec.V{keys, vals}
	}})

	// ------------------------------------------------------------ sequence.go and set.go
	const fam2 = "set-sequence"

	register(Entry{Name: "concat", Family: fam2, Fn: stdlib.ConcatFunc, Args: func(t *rapid.T) []spec.V {
		n := rapid.IntRange(1, 3).Draw(t, "nargs")
		et := elemT(t)
		allLists := chance(t, 1, 2, "alllists")
		var out []spec.V
		for i := 0; i < n; i++ {
			var ty spec.T
			switch {
			case allLists && chance(t, 3, 4, "sameelem"):
				ty = spec.List(et)
			case allLists:
				ty = spec.List(primT(t))
			default:
				ty = collT(t, "list", "tuple", "tuple")
			}
			out = append(out, val(t, ty, withNulls, "seq"))
		}
		return out
	}})

	register(Entry{Name: "range", Family: fam2, Fn: stdlib.RangeFunc, Args: func(t *rapid.T) []spec.V {
		switch rapid.IntRange(1, 3).Draw(t, "nargs") {
		case 1:
			return []spec.V{intv(t, -8, 20, "end")}
		case 2:
			return []spec.V{intv(t, -10, 10, "start"), intv(t, -10, 20, "end")}
		default:
			start := rapid.IntRange(-10, 10).Draw(t, "start")
			steps := []spec.Num{spec.NInt(1), spec.NInt(2), spec.NInt(3), spec.NFloat(0.5), spec.NParse("0.1"), spec.NInt(-1), spec.NInt(-2), spec.NFloat(-0.5)}
			step := rapid.SampledFrom(steps).Draw(t, "step")
			span := rapid.IntRange(0, 12).Draw(t, "span")
			end := start + span
			if step.Float().Sign() < 0 {
				end = start - span
			}
			return []spec.V{inum(start), inum(end), spec.KnownNum(step)}
		}
	}})

	setArgs := func(lo, hi int) func(t *rapid.T) []spec.V {
		return func(t *rapid.T) []spec.V {
			n := rapid.IntRange(lo, hi).Draw(t, "nargs")
			et := elemT(t)
			var out []spec.V
			for i := 0; i < n; i++ {
				ty := spec.Set(et)
				if chance(t, 1, 8, "otherelem") {
					ty = spec.Set(primT(t))
				}
				s := val(t, ty, gen.ValOpts{Simple: true, MaxElems: 4}, "set")
				if chance(t, 1, 10, "emptydyn") {
					// the empty set of placeholder element type (what an empty
					// literal converts to): the set functions skip it when they
					// choose the result element type
					s = spec.V{T: spec.Set(spec.Dynamic), St: spec.Known}
				}
				// share members between the sets so that the operations are not trivially disjoint
				if i > 0 && len(out[0].Elems) > 0 && s.T.Equal(out[0].T) && chance(t, 2, 3, "share") {
					s.Elems = append(s.Elems, out[0].Elems[rapid.IntRange(0, len(out[0].Elems)-1).Draw(t, "shared")].Clone())
				}
				out = append(out, s)
			}
			return out
		}
	}

	register(Entry{Name: "sethaselement", Family: fam2, Fn: stdlib.SetHasElementFunc, Args: func(t *rapid.T) []spec.V {
		et := elemT(t)
		s := val(t, spec.Set(et), gen.ValOpts{Simple: true, MaxElems: 4}, "set")
		if n := len(s.Elems); n > 0 && chance(t, 1, 2, "hit") {
			return []spec.V{s, s.Elems[rapid.IntRange(0, n-1).Draw(t, "which")].Clone()}
		}
		return []spec.V{s, val(t, et, simple, "elem")}
	}})
	register(Entry{Name: "setunion", Family: fam2, Fn: stdlib.SetUnionFunc, Args: setArgs(1, 3)})
	register(Entry{Name: "setintersection", Family: fam2, Fn: stdlib.SetIntersectionFunc, Args: setArgs(1, 3)})
	register(Entry{Name: "setsubtract", Family: fam2, Fn: stdlib.SetSubtractFunc, Args: setArgs(2, 2)})
	register(Entry{Name: "setsymmetricdifference", Family: fam2, Fn: stdlib.SetSymmetricDifferenceFunc, Args: setArgs(1, 3)})
}
