package stdreg

import (
	"math/big"
	"sort"
	"strings"

	"pgregory.net/rapid"

	"verif/harness/gen"
	"verif/harness/spec"
)

// CountBound is the magnitude bound for finite numbers injected at count-like
// argument positions (DESIGN.md 3.6).
const CountBound = 1 << 16

// hostileNums are the numbers most likely to break integer conversions,
// float64 round trips and arithmetic.
var hostileNums = []spec.Num{
	spec.NInt(-1), spec.NInt(0), {Route: "negzero"}, spec.NFloat(0.5), spec.NFloat(-0.5), spec.NFloat(1e-7), spec.NParse("0.1"),
	spec.NInt(1), spec.NInt(2), spec.NInt(63), spec.NInt(1024), spec.NInt(1025), spec.NInt(-1025),
	spec.NInt(2147483647), spec.NInt(2147483648), spec.NInt(-2147483649),
	spec.NInt(9223372036854775807), spec.NInt(-9223372036854775808), spec.NParse("9223372036854775808"), spec.NParse("-9223372036854775809"),
	spec.NParse("18446744073709551615"), spec.NParse("18446744073709551616"), spec.NFloat(9007199254740993),
	spec.NFloat(1e300), spec.NFloat(-1e300), spec.NParse("1e400"), spec.NParse("-1e400"), spec.NParse("1e-400"), spec.NFloat(5e-324),
	{Route: "+inf"}, {Route: "-inf"}, {Route: "+inf"}, {Route: "-inf"},
}

// HostileNum draws a hostile number; with count set, finite magnitudes are
// clamped to CountBound.
func HostileNum(t *rapid.T, count bool) spec.Num {
	var n spec.Num
	if chance(t, 1, 4, "anynum") {
		n = gen.Num(gen.NumOpts{}).Draw(t, "hnum")
	} else {
		n = rapid.SampledFrom(hostileNums).Draw(t, "hnum")
	}
	if count && !n.IsInf() {
		f := n.Float()
		if new(big.Float).Abs(f).Cmp(big.NewFloat(CountBound)) > 0 {
			if f.Sign() < 0 {
				return spec.NInt(-CountBound)
			}
			return spec.NInt(CountBound)
		}
	}
	return n
}

// hostileStrs are strings aimed at the mini-languages the standard functions
// parse: format verbs, regular expressions, timestamps, durations, JSON, CSV,
// integers in a base, number and bool syntax.
// hostile strings aimed at the mini-languages the standard functions parse.
var (
	hostileGeneric = []string{
		"", " ", "\n", "\r\n", "%", "%%", "a\u0301", "\u0301", "\U0001F1E9\U0001F1EA\U0001F1FA", "\u1100\u1161\u11a8", "\ufeff"}
	// format
	HostileFormats = []string{"%[99999999999999999999]d", "%[18446744073709551617]v", "%[9223372036854775813]d", "%[18446744073709551615]v", "%5[9223372036854775808]s", "%[2]s", "%!", "%.", "%5", "%[1", "%[]d", "%[0]d", "%*d", "%-010.3[1]q", "%z",
		"%#x", "%v%v%v%v", "%.0s", "%5.f", "%+ -0#v", "%[1]v%[1]v", "%s%[1]s", "%.9999f", "%9999d", "%\u00e9", "%1$d", "\u0301%v", "\u0338%s-%s", "\u0323\u0301%d"}
	// regexp
	HostileRegexps = []string{"(", ")", "[", "(?P<x>a)(b)", "(?P<x>a)(?P<x>b)", "a{1000}", "a{1001}", `\C`, "(?P<\u00e9>a)", "(((((((((((a)))))))))))", `\`, "(?P<>a)", "a**",
		"(?P<a>.)(?P<b>.)?", "(x)?", "()", "(?:a)", "(?P<A>a)|(?P<B>b)", "\\pN", "[[:alpha:]]"}
	// timestamps
	HostileTimestamps = []string{"2017-01-02T1:04:05Z", "2017-01-02T15:04:05,5Z", "2017-01-02T15:04:05+24:00", "2017-01-02T15:04:05+00:60", "2017-01-02t15:04:05z",
		"2017-13-02T15:04:05Z", "2017-02-30T15:04:05Z", "2017-01-02T15:04:05", "2017-01-02", "2017-01-02T15:04:05.Z", "2017-01-02T24:00:00Z",
		"2016-12-31T23:59:60Z", "10000-01-01T00:00:00Z", "2017-01-02T15:04:05+0700", "2017-01-02T15:04:05 Z", "T", "2017-01-02T15:04:05.1234567890123Z",
		"2017-01-02T15:04:5Z", "2017-1-02T15:04:05Z", "+017-01-02T15:04:05Z", "2017-01-02T15:04:05Z07:00", "2017-01-02T15:04:05+7:00", "2017-01-02T15:4:05Z",
		"0000-00-00T00:00:00Z", "2017-01-02T15:04:05-00:00", "2017-01-02T15:04:05+00:00Z"}
	// date formats
	HostileDateFormats = []string{"YYYYY", "Y", "MMMMM", "EE", "E", "hhh", "A", "aaa", "ZZ", "'", "'abc", "x", "YYYY'", "''''", "Q"}
	// durations
	HostileDurations = []string{"1", "h", "1.h", ".5h", "9999999999h", "-", "1h-1m", "1d", "9223372036854775807ns", "9223372036854775808ns", "0.9223372036854775808s", "-9223372036854775808ns", "1e3s", "++1s"}
	// JSON
	HostileJSON = []string{"{", "[1,", "nul", "tru", `{"a":1,"a":2}`, `[1,"a"]`, "1e400", "-", `"\ud800"`, `{"":null}`, "[[[[[[[[[[]]]]]]]]]]", `{"a":{}}`, "NaN", "1 2", "\ufeff1", "null", "true", `"x"`, "[]", "{}",
		`{"a":1,"A":2}`, `{"\u00e9":1,"e\u0301":2}`, `[null]`, `[{},[]]`, "-0", "1.0e+2", "01", "[1,]", `{"a":}`, "\"\\u0000\""}
	// CSV
	HostileCSV = []string{"a,a", "a,b\n1", "a\n\"", "\"a\nb\",c\n1,2", ",\n1,2", "a,b\n1,2,3", "a,\u00e9,e\u0301\n1,2,3", "a\n\n\n1", "\"a\"\"b\"\n1", "a;b\n1;2", "a\r1", "a,b\r\n1,2\r\n", "\xef\xbb\xbfa\n1"}
	// integers, numbers, bools
	HostileNumSyntax = []string{"+1", "1_000", "0x1f", "z", " 1", "\uff11", "Inf", "-inf", "NaN", "0x10", "1_0", "\u0661", "TRUE", "True", "t", "yes", "1e", "1e+", ".", "-.5", "0b1"}
)

var hostileStrs = func() []string {
	var all []string
	for _, l := range [][]string{hostileGeneric, HostileFormats, HostileRegexps, HostileTimestamps, HostileDateFormats, HostileDurations, HostileJSON, HostileCSV, HostileNumSyntax} {
		all = append(all, l...)
	}
	return all
}()

// HostileStr draws a hostile string; own is the function's own pool (may be empty).
func HostileStr(t *rapid.T, own []string) string {
	if len(own) > 0 && chance(t, 1, 2, "ownstr") {
		return rapid.SampledFrom(own).Draw(t, "hstr")
	}
	if chance(t, 1, 3, "anystr") {
		return gen.String().Draw(t, "hstr")
	}
	return rapid.SampledFrom(hostileStrs).Draw(t, "hstr")
}

const mutAlphabet = "0123456789:-+TZ.,tz %[]()\"'\\{}*?eE\n<>PxX#"

// MutateStr applies one or two character-level edits to s (delete, replace,
// insert, duplicate a run), keeping it valid UTF-8.
func MutateStr(t *rapid.T, s string) string {
	r := []rune(s)
	for k := rapid.IntRange(1, 2).Draw(t, "nmut"); k > 0; k-- {
		c := rune(mutAlphabet[rapid.IntRange(0, len(mutAlphabet)-1).Draw(t, "mutch")])
		if len(r) == 0 {
			r = append(r, c)
			continue
		}
		i := rapid.IntRange(0, len(r)-1).Draw(t, "mutpos")
		switch rapid.IntRange(0, 3).Draw(t, "mutop") {
		case 0:
			r = append(r[:i:i], r[i+1:]...)
		case 1:
			r = append(append(append([]rune(nil), r[:i]...), c), r[i+1:]...)
		case 2:
			r = append(append(append([]rune(nil), r[:i]...), c), r[i:]...)
		default:
			j := rapid.IntRange(i, len(r)).Draw(t, "mutend")
			run := append([]rune(nil), r[i:j]...)
			r = append(append(append([]rune(nil), r[:j]...), run...), r[j:]...)
			if len(r) > 64 {
				r = r[:64]
			}
		}
	}
	return string(r)
}

// UnknownOf draws a typed unknown of type ty, unrefined or with a
// self-consistent refinement.
func UnknownOf(t *rapid.T, ty spec.T) spec.V {
	v := spec.UnknownOf(ty)
	if ty.K == spec.KDynamic || ty.K == spec.KCapsule || chance(t, 1, 2, "unrefined") {
		return v
	}
	r := &spec.Ref{}
	if chance(t, 1, 2, "notnull") {
		r.Null = "notnull"
	}
	switch {
	case ty.K == spec.KNumber:
		a := rapid.IntRange(-5, 10).Draw(t, "lo")
		b := a + rapid.IntRange(0, 8).Draw(t, "span")
		lo, hi := spec.NInt(int64(a)), spec.NInt(int64(b))
		if chance(t, 1, 2, "haslo") {
			r.Lo, r.LoInc = &lo, true
		}
		if chance(t, 1, 2, "hashi") {
			r.Hi, r.HiInc = &hi, true
		}
	case ty.K == spec.KString:
		if chance(t, 2, 3, "hasprefix") {
			p := pickStr(t, "prefix", "a", "foo", "%", "x%", "[", "{", "\"", "t", "f", "-", "1", "n", "nu", "(", "2017-", "\u00e9", " ", "z", ".", "\n[")
			r.Prefix, r.PrefixFull = &p, chance(t, 1, 2, "full")
		}
	case ty.IsColl():
		lo := rapid.IntRange(0, 2).Draw(t, "minlen")
		hi := lo + rapid.IntRange(0, 3).Draw(t, "lenspan")
		if chance(t, 1, 2, "hasmin") {
			r.MinLen = &lo
		}
		if chance(t, 1, 2, "hasmax") {
			r.MaxLen = &hi
		}
	}
	if *r == (spec.Ref{}) {
		return v
	}
	v.Ref = r
	return v
}

var hostileTypeOpts = gen.TypeOpts{Depth: 2, Dynamic: true, Capsule: true}
var hostileValOpts = gen.ValOpts{Null: true, Unknown: true, Marks: true}

// node is a position inside an argument list.
type node struct {
	arg  int
	path []int
	free bool // every ancestor is a tuple or an object: the node's type may change
}

func collectNodes(v spec.V, arg int, path []int, free bool, out *[]node) {
	*out = append(*out, node{arg: arg, path: append([]int(nil), path...), free: free})
	if v.St != spec.Known {
		return
	}
	childFree := free && (v.T.K == spec.KTuple || v.T.K == spec.KObject)
	for i, e := range v.Elems {
		collectNodes(e, arg, append(path, i), childFree, out)
	}
}

func getAt(v spec.V, path []int) spec.V {
	for _, i := range path {
		v = v.Elems[i]
	}
	return v
}

func setAt(v spec.V, path []int, nv spec.V) spec.V {
	if len(path) == 0 {
		return nv
	}
	out := v
	out.Elems = append([]spec.V(nil), v.Elems...)
	out.Elems[path[0]] = setAt(v.Elems[path[0]], path[1:], nv)
	return out
}

// InjectOpts selects the kinds of hostile edits.
type InjectOpts struct {
	// KnownOnly restricts the edits to ones that keep every argument wholly
	// known and unmarked (hostile numbers / strings, empties, nested nulls,
	// other types, argument count and order).
	KnownOnly bool
	// Min, Max bound the number of edits (default 1..3).
	Min, Max int
}

// Inject applies hostile edits to an in-domain argument list: null, dynamic
// null, typed unknown (unrefined or refined), DynamicVal and marks at argument
// level and at nested positions; negative, fractional, huge and infinite
// numbers; empty and malformed strings; empty collections; values of other
// types; argument count +-1 and swapped arguments. It returns the edited list
// and one label per edit.
func Inject(t *rapid.T, e Entry, args []spec.V, o InjectOpts) ([]spec.V, []string) {
	if o.Max == 0 {
		o.Min, o.Max = 1, 3
	}
	out := make([]spec.V, len(args))
	for i, a := range args {
		out[i] = a.Clone()
	}
	n := o.Min
	if o.Max > o.Min {
		// 1 edit most of the time
		n = o.Min + []int{0, 0, 0, 0, 0, 1, 1, 1, 2, 2}[rapid.IntRange(0, 9).Draw(t, "nedits")]%(o.Max-o.Min+1)
	}
	var labels []string
	for k := 0; k < n; k++ {
		var l string
		out, l = injectOne(t, e, out, o)
		labels = append(labels, l)
	}
	for i := range out {
		out[i] = out[i].Retype()
		// whatever edit put it there, a finite number at a count-like position stays within the bound
		if e.IsCount(i) && out[i].St == spec.Known && out[i].T.K == spec.KNumber && !out[i].N.IsInf() {
			f := out[i].N.Float()
			if new(big.Float).Abs(f).Cmp(big.NewFloat(CountBound)) > 0 {
				if f.Sign() < 0 {
					out[i] = spec.KnownNum(spec.NInt(-CountBound))
				} else {
					out[i] = spec.KnownNum(spec.NInt(CountBound))
				}
			}
		}
	}
	sort.Strings(labels)
	return out, labels
}

func injectOne(t *rapid.T, e Entry, args []spec.V, o InjectOpts) ([]spec.V, string) {
	kinds := []string{"num", "num", "allnums", "str", "str", "mutstr", "empty", "wrongtype", "argc+1", "argc-1", "swap", "nested-null"}
	if !o.KnownOnly {
		kinds = append(kinds, "null", "null", "dynnull", "unknown", "unknown", "dynamic", "dynamic", "mark", "mark",
			"nested-null", "nested-unknown", "nested-unknown", "nested-dynamic", "dyn-members")
	}
	kind := rapid.SampledFrom(kinds).Draw(t, "injkind")

	var all []node
	for i, a := range args {
		collectNodes(a, i, nil, true, &all)
	}
	pick := func(pred func(n node, v spec.V) bool) (node, bool) {
		var c []node
		for _, n := range all {
			if pred(n, getAt(args[n.arg], n.path)) {
				c = append(c, n)
			}
		}
		if len(c) == 0 {
			return node{}, false
		}
		return c[rapid.IntRange(0, len(c)-1).Draw(t, "node")], true
	}
	replace := func(n node, nv spec.V) []spec.V {
		args[n.arg] = setAt(args[n.arg], n.path, nv)
		return args
	}
	top := func(n node, _ spec.V) bool { return len(n.path) == 0 }
	nested := func(n node, _ spec.V) bool { return len(n.path) > 0 }

	switch kind {
	case "num":
		// any known number anywhere (argument or nested)
		if n, ok := pick(func(n node, v spec.V) bool { return v.St == spec.Known && v.T.K == spec.KNumber }); ok {
			hn := HostileNum(t, len(n.path) == 0 && e.IsCount(n.arg))
			return replace(n, spec.KnownNum(hn)), "num"
		}
	case "allnums":
		// every number at argument level becomes hostile (combinations such as opposite infinities)
		hit := false
		extremes := chance(t, 1, 3, "extremes")
		for i := range args {
			if args[i].St == spec.Known && args[i].T.K == spec.KNumber {
				if extremes {
					// infinities, zero and one, and the numbers float64 arithmetic
					// confuses with them: finite and positive but rounding to 0 or
					// to an infinity, different from 1 but rounding to 1
					args[i] = spec.KnownNum(rapid.SampledFrom([]spec.Num{{Route: "+inf"}, {Route: "-inf"}, spec.NInt(0), spec.NInt(1), spec.NInt(-1),
						spec.NParse("1e-400"), spec.NParse("1e400"), spec.NParse("-1e400"), spec.NFloat(5e-324), {Route: "negzero"},
						spec.NParse("1.00000000000000000000000001"), spec.NParse("0.99999999999999999999999999")}).Draw(t, "extreme"))
				} else {
					args[i] = spec.KnownNum(HostileNum(t, e.IsCount(i)))
				}
				hit = true
			}
		}
		if hit {
			return args, "allnums"
		}
	case "str":
		if n, ok := pick(func(n node, v spec.V) bool { return v.St == spec.Known && v.T.K == spec.KString }); ok {
			return replace(n, spec.KnownStr(HostileStr(t, e.HostileStrs))), "str"
		}
	case "mutstr":
		if n, ok := pick(func(n node, v spec.V) bool { return v.St == spec.Known && v.T.K == spec.KString }); ok {
			return replace(n, spec.KnownStr(MutateStr(t, getAt(args[n.arg], n.path).S))), "mutstr"
		}
	case "empty":
		if n, ok := pick(func(n node, v spec.V) bool {
			return v.St == spec.Known && len(v.Elems) > 0 && (v.T.IsColl() || (n.free && (v.T.K == spec.KTuple || v.T.K == spec.KObject)))
		}); ok {
			v := getAt(args[n.arg], n.path)
			nv := spec.V{T: v.T, St: spec.Known}
			if !v.T.IsColl() {
				nv.T = spec.T{K: v.T.K}
			}
			return replace(n, nv), "empty"
		}
	case "wrongtype":
		if n, ok := pick(func(n node, _ spec.V) bool { return n.free }); ok {
			vo := hostileValOpts
			to := hostileTypeOpts
			if o.KnownOnly {
				vo = gen.ValOpts{Null: true, RootKnown: true}
				to.Dynamic = false
			}
			return replace(n, gen.AnyValue(to, vo).Draw(t, "other")), "wrongtype"
		}
	case "argc+1":
		var extra spec.V
		if len(args) > 0 && chance(t, 2, 3, "cloneextra") {
			extra = args[rapid.IntRange(0, len(args)-1).Draw(t, "which")].Clone()
		} else {
			extra = gen.AnyValue(gen.TypeOpts{Depth: 1}, gen.ValOpts{RootKnown: true}).Draw(t, "extra")
		}
		return append(args, extra), "argc+1"
	case "argc-1":
		if len(args) > 0 {
			return args[:len(args)-1], "argc-1"
		}
	case "swap":
		if len(args) >= 2 {
			i := rapid.IntRange(0, len(args)-2).Draw(t, "swapi")
			args[i], args[i+1] = args[i+1], args[i]
			return args, "swap"
		}
	case "null":
		if n, ok := pick(top); ok {
			return replace(n, spec.NullOf(args[n.arg].T)), "null"
		}
	case "dynnull":
		if n, ok := pick(top); ok {
			return replace(n, spec.NullOf(spec.Dynamic)), "dynnull"
		}
	case "unknown":
		if n, ok := pick(top); ok {
			return replace(n, UnknownOf(t, args[n.arg].T)), "unknown"
		}
	case "dynamic":
		if n, ok := pick(top); ok {
			return replace(n, spec.DynamicVal()), "dynamic"
		}
	case "mark":
		if n, ok := pick(func(node, spec.V) bool { return true }); ok {
			v := getAt(args[n.arg], n.path)
			v.Marks = []string{pickStr(t, "mark", "m1", "m2")}
			l := "mark"
			if len(n.path) > 0 {
				l = "nested-mark"
			}
			return replace(n, v), l
		}
	case "nested-null":
		if n, ok := pick(nested); ok {
			return replace(n, spec.NullOf(getAt(args[n.arg], n.path).T)), "nested-null"
		}
	case "nested-unknown":
		if n, ok := pick(nested); ok {
			return replace(n, UnknownOf(t, getAt(args[n.arg], n.path).T)), "nested-unknown"
		}
	case "nested-dynamic":
		if n, ok := pick(func(n node, _ spec.V) bool { return len(n.path) > 0 && n.free }); ok {
			return replace(n, spec.DynamicVal()), "nested-dynamic"
		}
	case "dyn-members":
		// a list/set/map whose members are all DynamicVal (element type: the placeholder)
		if n, ok := pick(func(n node, v spec.V) bool { return n.free && v.St == spec.Known && v.T.IsColl() && len(v.Elems) > 0 }); ok {
			v := getAt(args[n.arg], n.path)
			nv := spec.V{T: spec.T{K: v.T.K, E: &spec.Dynamic}, St: spec.Known, Keys: v.Keys}
			for range v.Elems {
				nv.Elems = append(nv.Elems, spec.DynamicVal())
			}
			return replace(n, nv), "dyn-members"
		}
	}
	// the drawn kind does not apply to this argument list: fall back to a
	// hostile value at argument level (or an extra argument for empty lists)
	if len(args) == 0 {
		return append(args, gen.AnyValue(gen.TypeOpts{Depth: 1}, gen.ValOpts{RootKnown: true}).Draw(t, "extra")), "argc+1"
	}
	i := rapid.IntRange(0, len(args)-1).Draw(t, "fallbackarg")
	if o.KnownOnly {
		args[i] = gen.AnyValue(gen.TypeOpts{Depth: 2}, gen.ValOpts{Null: true, RootKnown: true}).Draw(t, "other")
		return args, "wrongtype"
	}
	switch rapid.IntRange(0, 2).Draw(t, "fallback") {
	case 0:
		args[i] = spec.NullOf(args[i].T)
		return args, "null"
	case 1:
		args[i] = UnknownOf(t, args[i].T)
		return args, "unknown"
	default:
		args[i] = spec.DynamicVal()
		return args, "dynamic"
	}
}

// Describe renders an argument spec list compactly for failure messages.
func Describe(args []spec.V) string {
	var b strings.Builder
	for i, a := range args {
		if i > 0 {
			b.WriteString(", ")
		}
		v, err := spec.Build(a)
		if err != nil {
			b.WriteString("<unbuildable>")
			continue
		}
		b.WriteString(strings.TrimPrefix(v.GoString(), "cty."))
	}
	return b.String()
}
