package stdreg

import (
	"github.com/zclconf/go-cty/cty"
	"github.com/zclconf/go-cty/cty/function/stdlib"
	"pgregory.net/rapid"

	"verif/harness/gen"
	"verif/harness/spec"
)

// Target types of the registered MakeToFunc instances.
var (
	ToObjectType = cty.Object(map[string]cty.Type{"a": cty.String, "b": cty.Number})
)

func init() {
	const fam = "general"

	pair := func(t *rapid.T) []spec.V {
		ty := gen.Type(gen.TypeOpts{Depth: 2}).Draw(t, "type")
		if rapid.IntRange(0, 9).Draw(t, "setpair") == 5 {
			// sets of primitives, compared often enough to matter
			ty = spec.Set(primT(t))
		}
		o := gen.ValOpts{Null: true, Simple: true}
		a := gen.Value(ty, o).Draw(t, "a")
		if a.T.K == spec.KSet && a.St == spec.Known && len(a.Elems) > 0 && rapid.Bool().Draw(t, "dupmember") {
			// a set spec may name one member twice (the value holds it once):
			// weakening one of the two gives a set that holds an unknown member
			// which may turn out to be one of the others
			a.Elems = append(a.Elems, a.Elems[rapid.IntRange(0, len(a.Elems)-1).Draw(t, "dup")].Clone())
		}
		switch rapid.IntRange(0, 3).Draw(t, "rel") {
		case 0:
			return []spec.V{a, a.Clone()}
		case 1:
			return []spec.V{a, gen.Value(gen.Type(gen.TypeOpts{Depth: 1}).Draw(t, "type2"), o).Draw(t, "b")}
		default:
			return []spec.V{a, gen.Value(ty, o).Draw(t, "b")}
		}
	}
	register(Entry{Name: "equal", Family: fam, Fn: stdlib.EqualFunc, Args: pair})
	register(Entry{Name: "notequal", Family: fam, Fn: stdlib.NotEqualFunc, Args: pair})
	register(Entry{Name: "coalesce", Family: fam, Fn: stdlib.CoalesceFunc, Args: func(t *rapid.T) []spec.V {
		n := rapid.IntRange(1, 3).Draw(t, "nargs")
		ty := elemT(t)
		var out []spec.V
		for i := 0; i < n; i++ {
			aty := ty
			if chance(t, 1, 6, "othertype") {
				aty = primT(t)
			}
			if i < n-1 && chance(t, 1, 2, "null") {
				out = append(out, spec.NullOf(aty))
			} else {
				out = append(out, val(t, aty, plain, "arg"))
			}
		}
		return out
	}})
	register(Entry{Name: "not", Family: fam, Fn: stdlib.NotFunc, Args: func(t *rapid.T) []spec.V { return []spec.V{boolv(t, "val")} }})
	register(Entry{Name: "and", Family: fam, Fn: stdlib.AndFunc, Args: func(t *rapid.T) []spec.V { return []spec.V{boolv(t, "a"), boolv(t, "b")} }})
	register(Entry{Name: "or", Family: fam, Fn: stdlib.OrFunc, Args: func(t *rapid.T) []spec.V { return []spec.V{boolv(t, "a"), boolv(t, "b")} }})
	register(Entry{Name: "byteslen", Family: fam, Fn: stdlib.BytesLenFunc, BytesArgs: []int{0}, Args: func(t *rapid.T) []spec.V {
		return []spec.V{str(t, "buf")}
	}})
	register(Entry{Name: "bytesslice", Family: fam, Fn: stdlib.BytesSliceFunc, BytesArgs: []int{0}, Args: func(t *rapid.T) []spec.V {
		s := gen.String().Draw(t, "buf")
		off := rapid.IntRange(0, len(s)).Draw(t, "offset")
		ln := rapid.IntRange(0, len(s)-off).Draw(t, "length")
		if chance(t, 1, 10, "oob") {
			ln++
		}
		return []spec.V{lit(s), inum(off), inum(ln)}
	}})
	register(Entry{Name: "assertnotnull", Family: fam, Fn: stdlib.AssertNotNullFunc, Args: func(t *rapid.T) []spec.V {
		return []spec.V{val(t, gen.Type(gen.TypeOpts{Depth: 2}).Draw(t, "type"), withNulls, "v")}
	}})

	// ------------------------------------------------------------ conversion.go
	const famc = "conversion"
	nullOr := func(t *rapid.T, ty spec.T, v func() spec.V) spec.V {
		if chance(t, 1, 12, "null") {
			return spec.NullOf(ty)
		}
		return v()
	}
	register(Entry{Name: "to/string", Family: famc, Fn: stdlib.MakeToFunc(cty.String), Args: func(t *rapid.T) []spec.V {
		ty := primT(t)
		return []spec.V{nullOr(t, ty, func() spec.V { return val(t, ty, plain, "v") })}
	}})
	register(Entry{Name: "to/number", HostileStrs: HostileNumSyntax, Family: famc, Fn: stdlib.MakeToFunc(cty.Number), Args: func(t *rapid.T) []spec.V {
		if chance(t, 1, 2, "str") {
			return []spec.V{lit(pickStr(t, "numstr", "1", "-2.5", "1e3", "0", "12345678901234567890", "0.1", "-0", "1E-2", "007", "+5"))}
		}
		return []spec.V{nullOr(t, spec.Number, func() spec.V { return numv(t, "v") })}
	}})
	register(Entry{Name: "to/bool", HostileStrs: HostileNumSyntax, Family: famc, Fn: stdlib.MakeToFunc(cty.Bool), Args: func(t *rapid.T) []spec.V {
		if chance(t, 1, 2, "str") {
			return []spec.V{lit(pickStr(t, "boolstr", "true", "false", "true", "false", "1", "0"))}
		}
		return []spec.V{nullOr(t, spec.Bool, func() spec.V { return boolv(t, "v") })}
	}})
	seqSource := func(t *rapid.T) spec.V {
		et := elemT(t)
		switch rapid.IntRange(0, 3).Draw(t, "src") {
		case 0:
			return val(t, spec.List(et), withNulls, "v")
		case 1:
			return val(t, spec.Set(et), plain, "v")
		case 2:
			return val(t, spec.Tuple(et, et), withNulls, "v")
		default:
			return val(t, spec.Tuple(spec.String, spec.Number, spec.Bool), plain, "v")
		}
	}
	register(Entry{Name: "to/list", Family: famc, Fn: stdlib.MakeToFunc(cty.List(cty.DynamicPseudoType)), Args: func(t *rapid.T) []spec.V { return []spec.V{seqSource(t)} }})
	register(Entry{Name: "to/set", Family: famc, Fn: stdlib.MakeToFunc(cty.Set(cty.DynamicPseudoType)), Args: func(t *rapid.T) []spec.V { return []spec.V{seqSource(t)} }})
	register(Entry{Name: "to/list-of-string", Family: famc, Fn: stdlib.MakeToFunc(cty.List(cty.String)), Args: func(t *rapid.T) []spec.V {
		pt := primT(t)
		switch rapid.IntRange(0, 2).Draw(t, "src") {
		case 0:
			return []spec.V{val(t, spec.List(pt), withNulls, "v")}
		case 1:
			return []spec.V{val(t, spec.Set(pt), plain, "v")}
		default:
			return []spec.V{val(t, spec.Tuple(spec.String, spec.Number, spec.Bool), withNulls, "v")}
		}
	}})
	register(Entry{Name: "to/map", Family: famc, Fn: stdlib.MakeToFunc(cty.Map(cty.DynamicPseudoType)), Args: func(t *rapid.T) []spec.V {
		et := elemT(t)
		switch rapid.IntRange(0, 2).Draw(t, "src") {
		case 0:
			return []spec.V{val(t, spec.Map(et), withNulls, "v")}
		case 1:
			return []spec.V{val(t, spec.Object(spec.Attr{Name: "a", T: et}, spec.Attr{Name: "b", T: et}), withNulls, "v")}
		default:
			return []spec.V{val(t, spec.Object(spec.Attr{Name: "a", T: spec.String}, spec.Attr{Name: "x", T: spec.Number}), plain, "v")}
		}
	}})
	register(Entry{Name: "to/object", Family: famc, Fn: stdlib.MakeToFunc(ToObjectType), Args: func(t *rapid.T) []spec.V {
		switch rapid.IntRange(0, 3).Draw(t, "src") {
		case 0:
			return []spec.V{val(t, spec.Object(spec.Attr{Name: "a", T: spec.String}, spec.Attr{Name: "b", T: spec.Number}), withNulls, "v")}
		case 1:
			return []spec.V{val(t, spec.Object(spec.Attr{Name: "a", T: spec.Number}, spec.Attr{Name: "b", T: spec.Number}, spec.Attr{Name: "c", T: spec.Bool}), plain, "v")}
		case 2:
			m := spec.V{T: spec.Map(spec.Number), St: spec.Known, Keys: []string{"a", "b"}, Elems: []spec.V{intv(t, 0, 9, "a"), intv(t, 0, 9, "b")}}
			return []spec.V{m}
		default:
			o := spec.V{T: spec.Object(spec.Attr{Name: "a", T: spec.String}, spec.Attr{Name: "b", T: spec.String}), St: spec.Known, Keys: []string{"a", "b"},
				Elems: []spec.V{sstr(t, "a"), lit(pickStr(t, "numstr", "1", "-2.5", "10", "0", "true", "x"))}}
			return []spec.V{o}
		}
	}})
}
