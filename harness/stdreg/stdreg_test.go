package stdreg

import (
	"fmt"
	"os"
	"path/filepath"
	"regexp"
	"sort"
	"strings"
	"testing"

	"pgregory.net/rapid"
)

// TestInDomain measures, per function, how often the in-domain generator
// yields an argument list on which the call succeeds.
func TestInDomain(t *testing.T) {
	type cnt struct {
		n, ok, buildErr, panics int
		firstErr                string
	}
	stats := map[string]*cnt{}
	for _, e := range All() {
		e := e
		c := &cnt{}
		stats[e.Name] = c
		rapid.Check(t, func(rt *rapid.T) {
			args := e.Args(rt)
			vals, err := e.Build(args)
			c.n++
			if err != nil {
				c.buildErr++
				if c.firstErr == "" {
					c.firstErr = "BUILD " + err.Error()
				}
				return
			}
			o := Call(e.Fn, vals)
			switch {
			case o.Panicked:
				c.panics++
			case o.Err == nil:
				c.ok++
			default:
				if c.firstErr == "" {
					c.firstErr = fmt.Sprintf("%v  args=%#v", o.Err, vals)
				}
			}
		})
	}
	names := make([]string, 0, len(stats))
	for n := range stats {
		names = append(names, n)
	}
	sort.Strings(names)
	for _, n := range names {
		c := stats[n]
		fmt.Printf("%-26s n=%4d ok=%5.1f%% builderr=%d panics=%d  %s\n", n, c.n, 100*float64(c.ok)/float64(c.n), c.buildErr, c.panics, trunc(c.firstErr))
	}
	fmt.Printf("functions: %d\n", len(stats))
}

func trunc(s string) string {
	if len(s) > 160 {
		return s[:160]
	}
	return s
}

// TestComplete compares the registry with the function values declared in the
// library's source (development aid: reads /repo, or $VERIF_REPO).
func TestComplete(t *testing.T) {
	root := os.Getenv("VERIF_REPO")
	if root == "" {
		root = "/repo"
	}
	files, _ := filepath.Glob(filepath.Join(root, "cty/function/stdlib/*.go"))
	decl := regexp.MustCompile(`(?m)^var ([A-Za-z0-9]+Func) = function\.New`)
	want := map[string]bool{}
	for _, f := range files {
		if strings.HasSuffix(f, "_test.go") {
			continue
		}
		b, err := os.ReadFile(f)
		if err != nil {
			t.Fatal(err)
		}
		for _, m := range decl.FindAllStringSubmatch(string(b), -1) {
			want[m[1]] = true
		}
	}
	if len(want) == 0 {
		t.Skip("library source not found")
	}
	var src []byte
	mine, _ := filepath.Glob("fam_*.go")
	for _, f := range mine {
		b, _ := os.ReadFile(f)
		src = append(src, b...)
	}
	for name := range want {
		if !strings.Contains(string(src), "stdlib."+name) {
			t.Errorf("library function value %s is not registered", name)
		}
	}
	n := 0
	for _, e := range All() {
		if !strings.HasPrefix(e.Name, "to/") {
			n++
		}
	}
	if n != len(want) {
		t.Errorf("registry has %d plain functions, library declares %d", n, len(want))
	}
}
