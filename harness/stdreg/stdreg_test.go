package stdreg

import (
	"fmt"
	"sort"
	"testing"

	"pgregory.net/rapid"
)

// TestInDomain measures, per function, how often the in-domain generator
// yields an argument list on which the call succeeds.
func TestInDomain(t *testing.T) {
	type cnt struct {
		n, ok, buildErr, panics int
		firstErr                string
	}
	stats := map[string]*cnt{}
	for _, e := range All() {
		e := e
		c := &cnt{}
		stats[e.Name] = c
		rapid.Check(t, func(rt *rapid.T) {
			args := e.Args(rt)
			vals, err := e.Build(args)
			c.n++
			if err != nil {
				c.buildErr++
				if c.firstErr == "" {
					c.firstErr = "BUILD " + err.Error()
				}
				return
			}
			o := Call(e.Fn, vals)
			switch {
			case o.Panicked:
				c.panics++
			case o.Err == nil:
				c.ok++
			default:
				if c.firstErr == "" {
					c.firstErr = fmt.Sprintf("%v  args=%#v", o.Err, vals)
				}
			}
		})
	}
	names := make([]string, 0, len(stats))
	for n := range stats {
		names = append(names, n)
	}
	sort.Strings(names)
	for _, n := range names {
		c := stats[n]
		fmt.Printf("%-26s n=%4d ok=%5.1f%% builderr=%d panics=%d  %s\n", n, c.n, 100*float64(c.ok)/float64(c.n), c.buildErr, c.panics, trunc(c.firstErr))
	}
	fmt.Printf("functions: %d\n", len(stats))
}

func trunc(s string) string {
	if len(s) > 160 {
		return s[:160]
	}
	return s
}
